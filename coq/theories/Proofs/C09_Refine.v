(* Proofs/C09_Refine.v — every edit of Model/Edits.v does to the child lists exactly what the
   ordered-list model (Spec/ListModel.v [step]) predicts; failing edits change nothing; shift
   returns the child's actual index.  None of this needs the invariant. *)
From MP Require Import Common.Base.
From MP Require Import Model.Edits.
From MP Require Import Spec.ListModel.
From MP Require Import Proofs.C09_Lists.

Definition ret_of (r : option nat) : ret := match r with None => RNone | Some i => RInt i end.
Definition registry_exn (e : exn) : Prop := e = KeyError \/ e = AttributeError \/ e = OutOfFuel.

(** * projections of the state updates *)
Lemma kids_clear_parent_if s c p : kids (clear_parent_if s c p) = kids s.
Proof. unfold clear_parent_if. destruct (opt_nat_eqb (parent s c) p); reflexivity. Qed.

Lemma name_clear_parent_if s c p : name (clear_parent_if s c p) = name s.
Proof. unfold clear_parent_if. destruct (opt_nat_eqb (parent s c) p); reflexivity. Qed.

Lemma reg_clear_parent_if s c p : reg (clear_parent_if s c p) = reg s.
Proof. unfold clear_parent_if. destruct (opt_nat_eqb (parent s c) p); reflexivity. Qed.

Lemma kids_fold_clear p l : forall s, kids (fold_left (fun s c => clear_parent_if s c p) l s) = kids s.
Proof. induction l as [|c l IH]; intro s; simpl; [reflexivity|]. rewrite IH. apply kids_clear_parent_if. Qed.

Lemma upd_eq {A} (f : nat -> A) i v q : upd f i v q = if Nat.eqb q i then v else f q.
Proof. reflexivity. Qed.

(** * the registry walk raises only registry exceptions *)
Lemma del_tree_exn : forall fuel k r i e, snd (del_tree fuel k r i) = Some e -> registry_exn e.
Proof.
  induction fuel as [|f IH]; intros k r i e; simpl.
  - intros [= <-]. right; right; reflexivity.
  - destruct (r i); [|intros [= <-]; right; left; reflexivity].
    set (go := fix go (r0 : nat -> bool) (l : list nat) {struct l} : (nat -> bool) * option exn :=
           match l with
           | [] => (r0, None)
           | c :: rest => let '(r', e0) := del_tree f k r0 c in
                          match e0 with None => go r' rest | Some _ => (r', e0) end
           end).
    assert (G : forall l r0 e0, snd (go r0 l) = Some e0 -> registry_exn e0).
    { induction l as [|c rest IHl]; intros r0 e0; simpl; [discriminate|].
      destruct (del_tree f k r0 c) as [r' [x|]] eqn:D.
      - simpl. intros [= <-]. apply (IH k r0 c). rewrite D. reflexivity.
      - apply IHl. }
    destruct (go r (k i)) as [r1 [x|]] eqn:E.
    + simpl. intros [= <-]. apply (G (k i) r). rewrite E. reflexivity.
    + destruct (r1 i); simpl; [discriminate|]. intros [= <-]. left; reflexivity.
Qed.

(** * sibling targets are inside the list *)
Lemma sib_left_lt nm l i j : sib_left nm l i = Some j -> j < i.
Proof.
  unfold sib_left. intro H. apply find_some in H as [I _]. apply in_rev, in_seq in I. lia.
Qed.

Lemma sib_right_lt nm l i j : sib_right nm l i = Some j -> i < j < length l.
Proof.
  unfold sib_right. intro H. apply find_some in H as [I _]. apply in_seq in I. lia.
Qed.

(** the model's choice of the slot to swap with = the list model's *)
Definition model_target (s : st) (l : list nat) (i ci : nat) (d : dir) (sib : bool) : option nat :=
  match d, sib with
  | RIGHT, true => scan_right (name s) (name s ci) (skipn (S i) l) (S i)
  | RIGHT, false => if Nat.ltb i (length l - 1) then Some (i + 1) else None
  | LEFT, true => scan_left (name s) (name s ci) (rev (firstn i l)) i
  | LEFT, false => if Nat.ltb 0 i then Some (i - 1) else None
  end.
Definition spec_target (nm : nat -> nat) (l : list nat) (i : nat) (d : dir) (sib : bool) : option nat :=
  match d, sib with
  | LEFT, false => if Nat.eqb i 0 then None else Some (i - 1)
  | RIGHT, false => if Nat.ltb (S i) (length l) then Some (S i) else None
  | LEFT, true => sib_left nm l i
  | RIGHT, true => sib_right nm l i
  end.

Lemma target_eq s l i ci d sib :
  nth_error l i = Some ci -> model_target s l i ci d sib = spec_target (name s) l i d sib.
Proof.
  intro N. assert (L : i < length l) by (apply nth_error_Some; congruence).
  assert (E : nth i l 0 = ci) by (apply nth_error_nth; exact N).
  destruct d, sib; simpl.
  - rewrite <- E. apply scan_left_sib. lia.
  - destruct i; simpl; [reflexivity|]. reflexivity.
  - rewrite <- E. apply scan_right_sib.
  - destruct (Nat.ltb_spec i (length l - 1)); destruct (Nat.ltb_spec (S i) (length l)); try lia; auto.
    f_equal; lia.
Qed.

Lemma spec_target_lt nm l i d sib j : i < length l -> spec_target nm l i d sib = Some j -> j < length l.
Proof.
  intros L. destruct d, sib; simpl.
  - intro H; apply sib_left_lt in H; lia.
  - destruct (Nat.eqb i 0); [discriminate|]. intros [= <-]; lia.
  - intro H; apply sib_right_lt in H; lia.
  - destruct (Nat.ltb_spec (S i) (length l)); [|discriminate]. intros [= <-]; lia.
Qed.

Lemma exec_shift_eq s p c d sib :
  exec_shift s p c d sib =
  let l := kids s p in
  match index_of c l with
  | None => (s, Raise ValueError)
  | Some i =>
    match nth_error l i with
    | None => (s, Raise IndexError)
    | Some ci =>
      match model_target s l i ci d sib with
      | None => (s, RInt i)
      | Some j => match swap_slots i j l with
                  | Some l' => (set_kids s p l', RInt j)
                  | None => (s, Raise IndexError)
                  end
      end
    end
  end.
Proof. reflexivity. Qed.

(** what shift does, in list-model terms *)
Lemma exec_shift_spec s p c d sib :
  exec_shift s p c d sib =
  match pos c (kids s p) with
  | None => (s, Raise ValueError)
  | Some i => match spec_target (name s) (kids s p) i d sib with
              | None => (s, RInt i)
              | Some j => (set_kids s p (swap_at i j (kids s p)), RInt j)
              end
  end.
Proof.
  rewrite exec_shift_eq. cbv zeta. rewrite <- index_of_pos.
  destruct (index_of c (kids s p)) as [i|] eqn:I; [|reflexivity].
  destruct (index_of_Some _ _ _ I) as [L [N _]]. rewrite N.
  rewrite (target_eq s _ i c d sib N).
  destruct (spec_target (name s) (kids s p) i d sib) as [j|] eqn:T; [|reflexivity].
  rewrite swap_slots_spec; auto. eapply spec_target_lt; eauto.
Qed.

Lemma exec_replace_spec fuel s p old new del :
  exec_replace fuel s p old new del =
  if negb (Nat.eqb (name s new) (name s old)) then (s, Raise ValueError) else
  match pos old (kids s p) with
  | None => (s, Raise ValueError)
  | Some i =>
    let s1 := set_parent s new (Some p) in
    let s2' := set_kids s1 p (firstn i (kids s p) ++ [new] ++ skipn (S i) (kids s p)) in
    let s2 := if negb (Nat.eqb old new) then clear_parent_if s2' old p else s2' in
    if del then
      let '(r, e) := del_tree fuel (kids s2) (reg s2) old in
      (set_reg s2 r, match e with None => RNone | Some x => Raise x end)
    else (s2, RNone)
  end.
Proof.
  unfold exec_replace. destruct (negb (Nat.eqb (name s new) (name s old))); [reflexivity|].
  rewrite <- index_of_pos.
  destruct (index_of old (kids s p)) as [i|] eqn:I; [|reflexivity].
  destruct (index_of_Some _ _ _ I) as [L _].
  change (kids (set_parent s new (Some p)) p) with (kids s p).
  rewrite list_set_spec by exact L. reflexivity.
Qed.

Theorem c09_refines fuel o s :
  match step (name s) o (kids s) with
  | None => exec fuel o s = (s, Raise ValueError)
  | Some (ks', r) =>
      (forall q, kids (fst (exec fuel o s)) q = ks' q) /\
      (snd (exec fuel o s) = ret_of r \/
       (exists p old new, o = ReplaceChild p old new true) /\
       exists e, snd (exec fuel o s) = Raise e /\ registry_exn e)
  end.
Proof.
  destruct o as [p c idx | p c | p old new del | p c d sib | p]; unfold step; simpl target; simpl step_list.
  - (* add_child *)
    destruct idx as [z|]; simpl; (split; [|left; reflexivity]); intro q; rewrite upd_eq;
      [rewrite py_insert_spec|]; reflexivity.
  - (* remove_child *)
    simpl exec. unfold exec_remove. rewrite py_remove_spec, <- index_of_pos.
    destruct (index_of c (kids s p)) as [i|]; [|reflexivity].
    simpl. split; [|left; reflexivity]. intro q. rewrite kids_clear_parent_if. apply upd_eq.
  - (* replace_child *)
    simpl exec. rewrite exec_replace_spec.
    destruct (Nat.eqb (name s new) (name s old)); simpl negb; cbv iota; [|reflexivity].
    destruct (pos old (kids s p)) as [i|]; [|reflexivity].
    cbv zeta.
    set (s2' := set_kids (set_parent s new (Some p)) p (firstn i (kids s p) ++ [new] ++ skipn (S i) (kids s p))).
    set (s2 := if negb (Nat.eqb old new) then clear_parent_if s2' old p else s2').
    assert (K : kids s2 = kids s2').
    { unfold s2. destruct (negb (Nat.eqb old new)); [apply kids_clear_parent_if | reflexivity]. }
    destruct del.
    + destruct (del_tree fuel (kids s2) (reg s2) old) as [r [e|]] eqn:D; simpl.
      * split; [intro q; rewrite K; apply upd_eq|]. right. split; [eauto|].
        exists e. split; [reflexivity|]. eapply del_tree_exn. rewrite D. reflexivity.
      * split; [intro q; rewrite K; apply upd_eq | left; reflexivity].
    + simpl. split; [intro q; rewrite K; apply upd_eq | left; reflexivity].
  - (* shift *)
    simpl exec. rewrite exec_shift_spec.
    destruct (pos c (kids s p)) as [i|]; [|reflexivity].
    fold (spec_target (name s) (kids s p) i d sib).
    destruct (spec_target (name s) (kids s p) i d sib) as [j|]; simpl.
    + split; [intro q; apply upd_eq | left; reflexivity].
    + split; [|left; reflexivity]. intro q. destruct (Nat.eqb_spec q p); subst; reflexivity.
  - (* remove_children *)
    simpl. split; [|left; reflexivity]. intro q. rewrite upd_eq. rewrite kids_fold_clear. reflexivity.
Qed.

(** * a failing edit leaves everything unchanged *)
Theorem c09_fail_unchanged fuel o s e :
  snd (exec fuel o s) = Raise e ->
  (e = ValueError /\ fst (exec fuel o s) = s) \/
  ((exists p old new, o = ReplaceChild p old new true) /\ registry_exn e).
Proof.
  destruct o as [p c idx | p c | p old new del | p c d sib | p]; simpl exec.
  - discriminate.
  - unfold exec_remove. destruct (py_remove c (kids s p)); simpl; [discriminate|].
    intros [= <-]. left; auto.
  - rewrite exec_replace_spec.
    destruct (negb (Nat.eqb (name s new) (name s old))); [simpl; intros [= <-]; left; auto|].
    destruct (pos old (kids s p)) as [i|]; [|simpl; intros [= <-]; left; auto].
    cbv zeta. destruct del; [|discriminate].
    match goal with |- context [del_tree fuel ?k ?r old] => destruct (del_tree fuel k r old) as [r' [x|]] eqn:D end;
      simpl; [|discriminate].
    intros [= <-]. right. split; [eauto|]. eapply del_tree_exn. rewrite D. reflexivity.
  - rewrite exec_shift_spec. destruct (pos c (kids s p)) as [i|]; [|simpl; intros [= <-]; left; auto].
    destruct (spec_target (name s) (kids s p) i d sib); discriminate.
  - discriminate.
Qed.

(** * shift never fails on a listed child and returns the child's actual index *)
Theorem c09_shift fuel s p c d sib :
  In c (kids s p) ->
  exists i, snd (exec fuel (Shift p c d sib) s) = RInt i /\
            nth_error (kids (fst (exec fuel (Shift p c d sib) s)) p) i = Some c /\
            length (kids (fst (exec fuel (Shift p c d sib) s)) p) = length (kids s p).
Proof.
  intro I. simpl exec. rewrite exec_shift_spec.
  destruct (index_of_In _ _ I) as [i0 E]. rewrite <- index_of_pos, E.
  destruct (index_of_Some _ _ _ E) as [L [N _]].
  destruct (spec_target (name s) (kids s p) i0 d sib) as [j|] eqn:T; simpl.
  - exists j. split; [reflexivity|]. rewrite upd_eq, Nat.eqb_refl.
    assert (Lj : j < length (kids s p)) by (eapply spec_target_lt; eauto).
    split; [|apply swap_at_length].
    rewrite (nth_error_nth' _ 0) by (rewrite swap_at_length; exact Lj).
    rewrite swap_at_nth by assumption. f_equal.
    rewrite Nat.eqb_refl. destruct (Nat.eqb_spec j i0); subst; apply nth_error_nth; exact N.
  - exists i0. auto.
Qed.

(** * "nearest same-named sibling on that side" *)
Lemma find_rev_seq (P : nat -> bool) n :
  match find P (rev (seq 0 n)) with
  | Some j => j < n /\ P j = true /\ forall k, j < k < n -> P k = false
  | None => forall k, k < n -> P k = false
  end.
Proof.
  induction n as [|n IH]; [simpl; intros; lia|].
  rewrite seq_S, rev_app_distr. simpl.
  destruct (P n) eqn:E.
  - repeat split; auto; intros; lia.
  - destruct (find P (rev (seq 0 n))) as [j|].
    + destruct IH as [A [B C]]. repeat split; auto. intros k K.
      destruct (Nat.eq_dec k n); subst; auto. apply C; lia.
    + intros k K. destruct (Nat.eq_dec k n); subst; auto. apply IH; lia.
Qed.

Lemma find_seq (P : nat -> bool) n : forall a,
  match find P (seq a n) with
  | Some j => a <= j < a + n /\ P j = true /\ forall k, a <= k < j -> P k = false
  | None => forall k, a <= k < a + n -> P k = false
  end.
Proof.
  induction n as [|n IH]; intro a; simpl; [intros; lia|].
  destruct (P a) eqn:E.
  - repeat split; auto; intros; lia.
  - specialize (IH (S a)). destruct (find P (seq (S a) n)) as [j|].
    + destruct IH as [A [B C]]. repeat split; auto; try lia. intros k K.
      destruct (Nat.eq_dec k a); subst; auto. apply C; lia.
    + intros k K. destruct (Nat.eq_dec k a); subst; auto. apply IH; lia.
Qed.

Lemma sib_left_nearest nm l i :
  match sib_left nm l i with
  | Some j => j < i /\ nm (nth j l 0) = nm (nth i l 0) /\
              forall k, j < k < i -> nm (nth k l 0) <> nm (nth i l 0)
  | None => forall k, k < i -> nm (nth k l 0) <> nm (nth i l 0)
  end.
Proof.
  unfold sib_left. pose proof (find_rev_seq (same_name nm l i) i) as H.
  destruct (find (same_name nm l i) (rev (seq 0 i))) as [j|].
  - destruct H as [A [B C]]. unfold same_name in *. repeat split; auto.
    + apply Nat.eqb_eq; exact B.
    + intros k K. apply Nat.eqb_neq. apply C; exact K.
  - intros k K. apply Nat.eqb_neq. apply H; exact K.
Qed.

Lemma sib_right_nearest nm l i :
  match sib_right nm l i with
  | Some j => i < j < length l /\ nm (nth j l 0) = nm (nth i l 0) /\
              forall k, i < k < j -> nm (nth k l 0) <> nm (nth i l 0)
  | None => forall k, i < k < length l -> nm (nth k l 0) <> nm (nth i l 0)
  end.
Proof.
  unfold sib_right. pose proof (find_seq (same_name nm l i) (length l - S i) (S i)) as H.
  destruct (find (same_name nm l i) (seq (S i) (length l - S i))) as [j|].
  - destruct H as [A [B C]]. unfold same_name in *. repeat split; try lia.
    + apply Nat.eqb_eq; exact B.
    + intros k K. apply Nat.eqb_neq. apply C; lia.
  - intros k K. apply Nat.eqb_neq. apply H; lia.
Qed.

(* Proofs/C13_Refine.v — each concrete namespace operation of Model/Namespace.v refines the
   abstract operation of Spec/NsSpec.v on EVERY node, and preserves the invariants.
   Part 1: abstraction function, invariants, declare / undeclare. *)
From MP Require Import Common.Base Common.Tree Model.Heap Model.Namespace Spec.NsSpec
     Proofs.HeapInv Proofs.DictFacts Proofs.C13_Walk.

(** ** invariants *)

(** The aliasing discipline the refinement needs.  Since add_namespace / remove_namespace copy
    before they write, no sharing pattern has to be excluded: what is needed is only that dict
    objects are allocated below the allocation pointer (so `deepcopy` really is fresh) and
    that a dict has unique keys (a Python dict). *)
Record NsInv (h : heap) : Prop := {
  ns_alloc : forall m r, nget h m = Some r -> ns_loc r < next_loc h;
  ns_wf : forall l, wf_dict (dget h l)
}.

Definition Inv (h : heap) : Prop := Forest h /\ NsInv h.

Lemma NsInv_heap_ok h : NsInv h <-> heap_ok wf_dict h.
Proof.
  split; [intros [A D]; split; assumption | intros [A D]; constructor; assumption].
Qed.

(** ** abstraction *)
Definition vis_of (h : heap) (n : nat) (q : pystr) : option pystr :=
  match nget h n with Some r => assoc q (dget h (ns_loc r)) | None => None end.

Definition abs (h : heap) : nsstate :=
  {| a_alive := alive h; a_kids := kids_of h; a_parent := parent_of h; a_vis := vis_of h |}.

Definition abs_op (o : nsop) : aop :=
  match o with
  | Attach par c _ => AAttach par c
  | Declare n p u => ADeclare n p u
  | Undeclare n p => AUndeclare n p
  end.

Lemma adesc_desc h a m : adesc (abs h) a m <-> desc h a m.
Proof.
  split; induction 1; try (constructor; fail); econstructor; eauto.
Qed.

Lemma shape_eq_same_shape h h' : shape_eq h h' -> same_shape (abs h) (abs h').
Proof.
  intro Sh. repeat split; simpl.
  - intros [r' Hr']. destruct (shape_eq_get _ _ _ _ (shape_eq_sym _ _ Sh) Hr') as [r [Hr _]]. exists r; exact Hr.
  - intros [r Hr]. destruct (shape_eq_get _ _ _ _ Sh Hr) as [r' [Hr' _]]. exists r'; exact Hr'.
  - intro m. apply shape_eq_kids_of, Sh.
  - intro m. unfold parent_of. specialize (Sh m).
    destruct (nget h m) as [r|], (nget h' m) as [r'|]; simpl in Sh; try discriminate; [|reflexivity].
    apply shape_parent; congruence.
Qed.

(** ** reading a frame at the level of bindings *)
Lemma frame_vis_out P wr S h h' m q :
  alloc_ok h -> ns_frame P wr S h h' -> ~ S m -> vis_of h' m q = vis_of h m q.
Proof.
  intros A F N. unfold vis_of.
  destruct (fr_nodes _ _ _ _ _ F m) as [[_ E]|[Y _]]; [|contradiction].
  rewrite E. destruct (nget h m) as [r|] eqn:Hm; [|reflexivity].
  rewrite (fr_dicts _ _ _ _ _ F); [reflexivity | eapply A; eauto].
Qed.

Lemma frame_vis_in P wr S h h' m q :
  ns_frame P wr S h h' -> S m ->
  exists r, nget h m = Some r /\ vis_of h' m q = assoc q (wr (dget h (ns_loc r))).
Proof.
  intros F Y. destruct (fr_nodes _ _ _ _ _ F m) as [[N _]|[_ (r & L' & E1 & E2 & E3 & _)]]; [contradiction|].
  exists r; split; [exact E1|]. unfold vis_of. rewrite E2. simpl. rewrite E3. reflexivity.
Qed.

(** ** the two instances of the walk *)
Lemma add_need_false_id p u d : need_add p u d = false -> dict_set p u d = d.
Proof.
  unfold need_add. destruct (assoc p d) as [v|] eqn:E; [|discriminate].
  intro H. apply negb_false_iff, pystr_eqb_eq in H. subst v. apply dict_set_same, E.
Qed.

Lemma add_need_wr p u d : wf_dict d -> need_add p u (dict_set p u d) = false.
Proof.
  intros _. unfold need_add. rewrite assoc_dict_set, pystr_eqb_refl, pystr_eqb_refl. reflexivity.
Qed.

Lemma del_need_false_id p d : need_del p d = false -> dict_del p d = d.
Proof.
  unfold need_del. destruct (assoc p d) eqn:E; [discriminate|]. intros _. apply dict_del_absent, E.
Qed.

Lemma del_need_wr p d : wf_dict d -> need_del p (dict_del p d) = false.
Proof.
  intro W. unfold need_del. rewrite assoc_dict_del by exact W. rewrite pystr_eqb_refl. reflexivity.
Qed.

Theorem add_ns_ok f h n p u :
  tree_at h f n -> NsInv h ->
  exists h', add_ns f h n p u None = Ok h' /\ ns_frame wf_dict (dict_set p u) (desc h n) h h'.
Proof.
  intros Ht I. unfold add_ns.
  apply (ns_walk_ok wf_dict (need_add p u) (dict_set p u) (wf_dict_set p u)
                    (add_need_false_id p u) (add_need_wr p u)); auto.
  - apply NsInv_heap_ok; exact I.
  - exact Logic.I.
Qed.

Theorem remove_ns_ok f h n p :
  tree_at h f n -> NsInv h ->
  exists h', remove_ns f h n p None = Ok h' /\ ns_frame wf_dict (dict_del p) (desc h n) h h'.
Proof.
  intros Ht I. unfold remove_ns.
  apply (ns_walk_ok wf_dict (need_del p) (dict_del p) (wf_dict_del p)
                    (del_need_false_id p) (del_need_wr p)); auto.
  - apply NsInv_heap_ok; exact I.
  - exact Logic.I.
Qed.

Lemma frame_Inv wr S h h' :
  (forall d, wf_dict d -> wf_dict (wr d)) ->
  ns_frame wf_dict wr S h h' -> Inv h -> Inv h'.
Proof.
  intros W F [Fo I]. split.
  - eapply shape_eq_Forest; [eapply ns_frame_shape; eauto | exact Fo].
  - apply (NsInv_heap_ok h'). eapply heap_ok_frame; eauto. apply NsInv_heap_ok; exact I.
Qed.

(** ** declare and undeclare refine their specifications *)
Theorem declare_refines h n p u :
  Inv h -> alive h n ->
  exists h', exec_nsop h (Declare n p u) = Ok h' /\ Inv h' /\
             ns_frame wf_dict (dict_set p u) (desc h n) h h' /\
             declare_spec n p u (abs h) (abs h').
Proof.
  intros [Fo I] Hn. simpl.
  destruct (add_ns_ok (fuel_of h) h n p u (fuel_ok _ _ Fo Hn) I) as (h' & R & F).
  exists h'; split; [exact R|]. split; [eapply frame_Inv; eauto; [apply wf_dict_set | split; assumption]|].
  split; [exact F|]. split; [apply shape_eq_same_shape; eapply ns_frame_shape; eauto|]. split.
  - intros m Hd. apply adesc_desc in Hd. simpl.
    destruct (frame_vis_in _ _ _ _ _ m p F Hd) as (r & _ & E). rewrite E, assoc_dict_set, pystr_eqb_refl. reflexivity.
  - intros m q Hor. simpl. destruct (fr_nodes _ _ _ _ _ F m) as [[N _]|[Y _]].
    + eapply frame_vis_out; eauto. exact (ns_alloc _ I).
    + destruct Hor as [N|Nq]; [exfalso; apply N, adesc_desc, Y|].
      destruct (frame_vis_in _ _ _ _ _ m q F Y) as (r & Hr & E). rewrite E, assoc_dict_set.
      destruct (pystr_eqb_reflect q p) as [->|_]; [contradiction|]. unfold vis_of; rewrite Hr; reflexivity.
Qed.

Theorem undeclare_refines h n p :
  Inv h -> alive h n ->
  exists h', exec_nsop h (Undeclare n p) = Ok h' /\ Inv h' /\
             ns_frame wf_dict (dict_del p) (desc h n) h h' /\
             undeclare_spec n p (abs h) (abs h').
Proof.
  intros [Fo I] Hn. simpl.
  destruct (remove_ns_ok (fuel_of h) h n p (fuel_ok _ _ Fo Hn) I) as (h' & R & F).
  exists h'; split; [exact R|]. split; [eapply frame_Inv; eauto; [apply wf_dict_del | split; assumption]|].
  split; [exact F|]. split; [apply shape_eq_same_shape; eapply ns_frame_shape; eauto|]. split.
  - intros m Hd. apply adesc_desc in Hd. simpl.
    destruct (frame_vis_in _ _ _ _ _ m p F Hd) as (r & _ & E). rewrite E, assoc_dict_del, pystr_eqb_refl by apply I. reflexivity.
  - intros m q Hor. simpl. destruct (fr_nodes _ _ _ _ _ F m) as [[N _]|[Y _]].
    + eapply frame_vis_out; eauto. exact (ns_alloc _ I).
    + destruct Hor as [N|Nq]; [exfalso; apply N, adesc_desc, Y|].
      destruct (frame_vis_in _ _ _ _ _ m q F Y) as (r & Hr & E). rewrite E, assoc_dict_del by apply I.
      destruct (pystr_eqb_reflect q p) as [->|_]; [contradiction|]. unfold vis_of; rewrite Hr; reflexivity.
Qed.

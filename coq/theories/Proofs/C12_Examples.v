(* Proofs/C12_Examples.v — packaging of the C12 theorems in terms of a successful call of
   copy(), and the invariants on freshly created forests (non-vacuity). *)
From MP Require Import Common.Base Common.Tree Model.Heap Model.Namespace Model.Registry
     Model.HeapEdits Model.Copy Spec.CopySpec
     Proofs.HeapInv Proofs.DictFacts Proofs.C13_Walk Proofs.C13_Refine Proofs.C13_Attach Proofs.C13_Main
     Proofs.C12_Base Proofs.C12_Copy Proofs.C12_Main Proofs.C12_Frame Proofs.C12_FrameCopy.

Lemma copy_op_post uuid (uuid_inj : forall a b, uuid a = uuid b -> a = b) h n h' n' :
  Forest h -> HeapWf h -> alive h n -> copy_op uuid h n = Ok (h', n') -> CopyPost uuid h n h' n'.
Proof.
  intros Fo W Al R. destruct (copy_op_ok uuid uuid_inj h n Fo W Al) as (h2 & n2 & R2 & P).
  rewrite R in R2. injection R2 as <- <-. exact P.
Qed.

Lemma create_preserves_wf h name ids cont : HeapWf h -> HeapWf (fst (create_node h name ids cont)).
Proof.
  intros W. constructor.
  - intros m r Hm. rewrite create_node_get in Hm. change (next_id (fst (create_node h name ids cont))) with (S (next_id h)).
    destruct (Nat.eqb m (next_id h)) eqn:E; [apply Nat.eqb_eq in E; lia|]. pose proof (hw_ids _ W _ _ Hm). lia.
  - intros m r Hm. rewrite create_node_get in Hm.
    change (next_loc (fst (create_node h name ids cont))) with (S (S (S (next_loc h)))).
    destruct (Nat.eqb m (next_id h)) eqn:E; [injection Hm as <-; simpl; lia|].
    destruct (hw_locs _ W _ _ Hm) as (A1 & A2 & A3). lia.
  - intro l. rewrite create_node_dget.
    destruct (Nat.eqb l (next_loc h)); [apply wf_dict_nil|].
    destruct (Nat.eqb l (S (next_loc h))); [apply wf_dict_nil|].
    destruct (Nat.eqb l (S (S (next_loc h)))); [apply wf_dict_nil | apply (hw_dicts _ W)].
Qed.

Lemma HeapWf_empty : HeapWf empty_heap.
Proof. constructor; [intros m r H; discriminate H | intros m r H; discriminate H | intro l; apply wf_dict_nil]. Qed.

Lemma create_many_wf names : forall h, HeapWf h -> HeapWf (create_many names h).
Proof.
  induction names as [|[nm i] r IH]; intros h W; simpl; [exact W|]. apply IH, create_preserves_wf, W.
Qed.

(** a concrete instance: one fresh node, copied *)
Definition uuid_example (k : nat) : pystr := [N.of_nat k].

Lemma uuid_example_inj a b : uuid_example a = uuid_example b -> a = b.
Proof. unfold uuid_example. intros [= H]. apply Nat2N.inj, H. Qed.

Definition h1_example : heap := create_many [(s "a", s "id0")] empty_heap.

Lemma C12_nonvacuous_proof :
  Forest h1_example /\ HeapWf h1_example /\ alive h1_example 0 /\
  exists h' n', copy_op uuid_example h1_example 0 = Ok (h', n') /\ n' = 1.
Proof.
  split; [|split; [|split]].
  - exact (proj1 (proj1 (create_many_Inv _ empty_heap (proj1 Inv_empty) (proj2 Inv_empty)))).
  - apply create_many_wf, HeapWf_empty.
  - eexists; vm_compute; reflexivity.
  - eexists; eexists; split; [vm_compute; reflexivity | reflexivity].
Qed.

(* Proofs/C12_Base.v — heap well-formedness, the dict-filling loop, and the footprint of
   reification (what [reify] reads). *)
From MP Require Import Common.Base Common.Tree Model.Heap Model.Copy Spec.CopySpec
     Proofs.HeapInv Proofs.DictFacts.

Record HeapWf (h : heap) : Prop := {
  hw_ids : forall m r, nget h m = Some r -> m < next_id h;
  hw_locs : forall m r, nget h m = Some r ->
                        attrs_loc r < next_loc h /\ extras_loc r < next_loc h /\ ns_loc r < next_loc h;
  hw_dicts : forall l, wf_dict (dget h l)
}.

(** ** fill *)
Lemma fill_nget items : forall h l m, nget (fill h l items) m = nget h m.
Proof. induction items as [|kv r IH]; intros; simpl; [reflexivity | unfold fill in *; simpl; rewrite IH; reflexivity]. Qed.

Lemma fill_next_loc items : forall h l, next_loc (fill h l items) = next_loc h.
Proof. induction items as [|kv r IH]; intros; simpl; [reflexivity | unfold fill in *; simpl; rewrite IH; reflexivity]. Qed.

Lemma fill_next_id items : forall h l, next_id (fill h l items) = next_id h.
Proof. induction items as [|kv r IH]; intros; simpl; [reflexivity | unfold fill in *; simpl; rewrite IH; reflexivity]. Qed.

Lemma fill_store items : forall h l, store (fill h l items) = store h.
Proof. induction items as [|kv r IH]; intros; simpl; [reflexivity | unfold fill in *; simpl; rewrite IH; reflexivity]. Qed.

Lemma fill_nodes items : forall h l, nodes (fill h l items) = nodes h.
Proof. induction items as [|kv r IH]; intros; simpl; [reflexivity | unfold fill in *; simpl; rewrite IH; reflexivity]. Qed.

Lemma fill_dget_other items : forall h l l', l' <> l -> dget (fill h l items) l' = dget h l'.
Proof.
  induction items as [|kv r IH]; intros h l l' N; simpl; [reflexivity|].
  unfold fill in *; simpl. rewrite IH by exact N. rewrite dget_dset.
  apply Nat.eqb_neq in N; rewrite N; reflexivity.
Qed.

Lemma fill_dget_self items : forall h l,
  dget (fill h l items) l = fold_left (fun acc kv => dict_set (fst kv) (snd kv) acc) items (dget h l).
Proof.
  induction items as [|kv r IH]; intros h l; simpl; [reflexivity|].
  unfold fill in *; simpl. rewrite IH. rewrite dget_dset, Nat.eqb_refl. reflexivity.
Qed.

(** ** what reify reads *)
Definition np (r : nrec) : nrec := set_parent r None.

Definition same_below (h1 h2 : heap) (x : nat) : Prop :=
  forall m, desc h1 x m ->
    option_map np (nget h2 m) = option_map np (nget h1 m) /\
    (forall r, nget h1 m = Some r ->
       dget h2 (attrs_loc r) = dget h1 (attrs_loc r) /\ dget h2 (extras_loc r) = dget h1 (extras_loc r) /\
       dget h2 (ns_loc r) = dget h1 (ns_loc r)).

Lemma reify_ext : forall g h1 h2 x, same_below h1 h2 x -> reify g h2 x = reify g h1 x.
Proof.
  induction g as [|g IH]; intros h1 h2 x H; simpl; [reflexivity|].
  destruct (H x (desc_refl _ _)) as [E D].
  destruct (nget h1 x) as [r1|] eqn:E1; destruct (nget h2 x) as [r2|] eqn:E2; simpl in E; try discriminate; [|reflexivity].
  assert (E' : np r2 = np r1) by congruence. clear E; rename E' into E. destruct (D r1 eq_refl) as (Da & De & Dn).
  assert (K : kids r2 = kids r1) by (apply (f_equal kids) in E; exact E).
  assert (Nd : nd_of h2 r2 = nd_of h1 r1).
  { unfold nd_of.
    assert (attrs_loc r2 = attrs_loc r1) as -> by (apply (f_equal attrs_loc) in E; exact E).
    assert (extras_loc r2 = extras_loc r1) as -> by (apply (f_equal extras_loc) in E; exact E).
    assert (ns_loc r2 = ns_loc r1) as -> by (apply (f_equal ns_loc) in E; exact E).
    rewrite Da, De, Dn.
    assert (idstr r2 = idstr r1) as -> by (apply (f_equal idstr) in E; exact E).
    assert (nm r2 = nm r1) as -> by (apply (f_equal nm) in E; exact E).
    assert (content r2 = content r1) as -> by (apply (f_equal content) in E; exact E).
    assert (tail r2 = tail r1) as -> by (apply (f_equal tail) in E; exact E).
    assert (prefix r2 = prefix r1) as -> by (apply (f_equal prefix) in E; exact E).
    reflexivity. }
  rewrite Nd, K. f_equal. f_equal. apply map_ext_in. intros c Hc. apply IH.
  intros m Hm. apply H. eapply desc_trans; [|exact Hm]. apply desc_kid. rewrite (kids_of_Some _ _ _ E1). exact Hc.
Qed.

Lemma same_below_frame h1 h2 x B L :
  HeapWf h1 ->
  (forall m, desc h1 x m -> alive h1 m) ->
  (forall m, m < B -> nget h2 m = nget h1 m) -> (forall l, l < L -> dget h2 l = dget h1 l) ->
  next_id h1 <= B -> next_loc h1 <= L ->
  same_below h1 h2 x.
Proof.
  intros W Al On Od HB HL m Hm. destruct (Al m Hm) as [r Hr].
  pose proof (hw_ids _ W _ _ Hr). split.
  - rewrite On by lia. reflexivity.
  - intros r0 Hr0. rewrite Hr in Hr0; injection Hr0 as <-.
    destruct (hw_locs _ W _ _ Hr) as (A1 & A2 & A3). rewrite !Od by lia. auto.
Qed.

Lemma tree_at_frame h1 h2 k c :
  tree_at h1 k c -> (forall m, desc h1 c m -> nget h2 m = nget h1 m) -> tree_at h2 k c.
Proof.
  induction 1 as [k n r Hn Hk IH]; intro F.
  econstructor.
  - rewrite F by apply desc_refl. exact Hn.
  - intros c Hc. apply IH; [exact Hc|]. intros m Hm. apply F.
    eapply desc_trans; [|exact Hm]. apply desc_kid. rewrite (kids_of_Some _ _ _ Hn). exact Hc.
Qed.

(** reification succeeds on a tree with enough fuel *)
Lemma opt_all_Some {A B} (f : A -> option B) (l : list A) :
  (forall x, In x l -> exists y, f x = Some y) -> exists ys, opt_all (map f l) = Some ys.
Proof.
  induction l as [|x l IH]; intro H; simpl; [eauto|].
  destruct (H x (or_introl eq_refl)) as [y Hy]. rewrite Hy.
  destruct IH as [ys Hys]; [intros; apply H; right; assumption|]. rewrite Hys. simpl. eauto.
Qed.

Lemma reify_total h k n : tree_at h k n -> exists t, reify k h n = Some t.
Proof.
  induction 1 as [k n r Hn Hk IH]. simpl. rewrite Hn.
  destruct (opt_all_Some (reify k h) (kids r) IH) as [ts Hts]. rewrite Hts. simpl. eauto.
Qed.

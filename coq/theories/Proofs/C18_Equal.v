(* Proofs/C18_Equal.v — is_equal (Model/Equal.v) decides tree_eq (Spec/TreeEq.v). *)
From MP Require Import Common.Base.
From MP Require Import Common.Tree.
From MP Require Import Spec.TreeEq.
From MP Require Import Model.Equal.
From MP Require Import Proofs.C18_Dict.

(** * induction principles with the children available *)
Section OtreeInd.
  Variable P : otree -> Prop.
  Hypothesis H : forall o d k, Forall P k -> P (OT o d k).
  Fixpoint otree_ind' (t : otree) : P t :=
    match t as t0 return P t0 with
    | OT o d k =>
      H o d k ((fix go (l : list otree) : Forall P l :=
                  match l as l0 return Forall P l0 with
                  | [] => Forall_nil P
                  | x :: r => Forall_cons x (otree_ind' x) (go r)
                  end) k)
    end.
End OtreeInd.

Section FtreeInd.
  Variable P : ftree -> Prop.
  Hypothesis H : forall d k, Forall P k -> P (FT d k).
  Fixpoint ftree_ind' (t : ftree) : P t :=
    match t as t0 return P t0 with
    | FT d k =>
      H d k ((fix go (l : list ftree) : Forall P l :=
                match l as l0 return Forall P l0 with
                | [] => Forall_nil P
                | x :: r => Forall_cons x (ftree_ind' x) (go r)
                end) k)
    end.
End FtreeInd.

(** * the model, one level unfolded *)
Lemma is_equal_go ka kb :
  (fix go (x y : list otree) {struct x} : bool :=
     match x, y with
     | [], _ => true
     | p :: x', q :: y' => if is_equal p q then go x' y' else false
     | _ :: _, [] => false
     end) ka kb = forall2b is_equal ka kb.
Proof.
  revert kb; induction ka as [|p x IH]; intros [|q y]; simpl; auto.
  rewrite IH. reflexivity.
Qed.

Lemma is_equal_unfold oa da ka ob db kb :
  is_equal (OT oa da ka) (OT ob db kb) =
  negb (Nat.eqb oa ob) && pystr_eqb (n_name da) (n_name db) &&
  opt_eqb pystr_eqb (n_content da) (n_content db) && opt_eqb pystr_eqb (n_tail da) (n_tail db) &&
  dict_cmp (n_attrs da) (n_attrs db) && dict_cmp (n_nsmap da) (n_nsmap db) &&
  opt_eqb pystr_eqb (n_prefix da) (n_prefix db) && dict_cmp (n_extras da) (n_extras db) &&
  Nat.eqb (length ka) (length kb) && forall2b is_equal ka kb.
Proof.
  rewrite <- is_equal_go. cbn [is_equal].
  destruct (Nat.eqb oa ob); [reflexivity|].
  destruct (pystr_eqb (n_name da) (n_name db)); [|reflexivity].
  destruct (opt_eqb pystr_eqb (n_content da) (n_content db)); [|reflexivity].
  destruct (opt_eqb pystr_eqb (n_tail da) (n_tail db)); [|reflexivity].
  destruct (dict_cmp (n_attrs da) (n_attrs db)); [|reflexivity].
  destruct (dict_cmp (n_nsmap da) (n_nsmap db)); [|reflexivity].
  destruct (opt_eqb pystr_eqb (n_prefix da) (n_prefix db)); [|reflexivity].
  destruct (dict_cmp (n_extras da) (n_extras db)); [|reflexivity].
  destruct (Nat.eqb (length ka) (length kb)); reflexivity.
Qed.

Lemma Forall2_len {A B} (R : A -> B -> Prop) x y : Forall2 R x y -> length x = length y.
Proof. induction 1; simpl; congruence. Qed.

(** * well-formedness goes down to the children *)
Lemma Forall_flat_map_pre (P : nd -> Prop) k :
  Forall P (map ft_d (flat_map preorder k)) <-> Forall (fun c => Forall P (map ft_d (preorder c))) k.
Proof.
  induction k as [|c r IH]; simpl.
  - split; constructor.
  - rewrite map_app, Forall_app, IH. split.
    + intros [A B]; constructor; auto.
    + intro F; inversion F; subst; auto.
Qed.

Lemma tree_wf_inv d k : tree_wf (FT d k) <-> nd_wf d /\ Forall tree_wf k.
Proof.
  unfold tree_wf. simpl. rewrite <- Forall_flat_map_pre. split.
  - intro F; inversion F; subst; auto.
  - intros [A B]; constructor; auto.
Qed.

Lemma erase_kids_wf k : Forall tree_wf (map erase k) <-> Forall (fun c => tree_wf (erase c)) k.
Proof. rewrite Forall_map. reflexivity. Qed.

(** * small symmetric facts *)
Lemma pystr_eqb_sym a b : pystr_eqb a b = pystr_eqb b a.
Proof.
  destruct (pystr_eqb_reflect a b) as [->|NE]; [symmetry; apply pystr_eqb_refl|].
  symmetry. apply pystr_eqb_neq. congruence.
Qed.

Lemma opt_pystr_eqb_sym a b : opt_eqb pystr_eqb a b = opt_eqb pystr_eqb b a.
Proof. destruct a, b; simpl; auto using pystr_eqb_sym. Qed.

Lemma opt_pystr_eqb_eq a b : opt_eqb pystr_eqb a b = true <-> a = b.
Proof. apply opt_eqb_spec. apply pystr_eqb_eq. Qed.

(** * soundness: true -> the trees agree (no assumption on identities) *)
Lemma is_equal_sound : forall a b,
  tree_wf (erase a) -> tree_wf (erase b) -> is_equal a b = true -> tree_eq (erase a) (erase b).
Proof.
  induction a as [oa da ka IH] using otree_ind'. intros [ob db kb] Wa Wb E.
  rewrite is_equal_unfold in E. simpl in Wa, Wb.
  apply tree_wf_inv in Wa as [[Wa1 [Wa2 Wa3]] Wka]. apply tree_wf_inv in Wb as [[Wb1 [Wb2 Wb3]] Wkb].
  repeat (apply andb_true_iff in E as [E ?]).
  simpl. constructor.
  - constructor.
    + apply pystr_eqb_eq; assumption.
    + apply opt_pystr_eqb_eq; assumption.
    + apply opt_pystr_eqb_eq; assumption.
    + apply opt_pystr_eqb_eq; assumption.
    + apply dict_cmp_true_iff; assumption.
    + apply dict_cmp_true_iff; assumption.
    + apply dict_cmp_true_iff; assumption.
  - clear - IH Wka Wkb H H0. apply Nat.eqb_eq in H0.
    revert kb Wkb H H0. induction ka as [|p x IHx]; intros [|q y] Wkb F L; simpl in *; try discriminate.
    + constructor.
    + inversion IH as [|? ? IHp IHr]; subst. inversion Wka; subst. inversion Wkb; subst.
      destruct (is_equal p q) eqn:Epq; [|discriminate].
      constructor; [apply IHp; assumption|]. apply IHx; auto.
Qed.

(** * completeness: trees that agree and share no object at corresponding positions *)
Definition disjoint_objs (a b : otree) : Prop := forall x, In x (objs a) -> In x (objs b) -> False.

Lemma disjoint_kid oa da ka ob db kb p q :
  disjoint_objs (OT oa da ka) (OT ob db kb) -> In p ka -> In q kb -> disjoint_objs p q.
Proof.
  intros D Ip Iq x X1 X2. apply (D x); simpl; right; apply in_flat_map; eauto.
Qed.

Lemma is_equal_complete : forall a b,
  tree_wf (erase a) -> tree_wf (erase b) -> disjoint_objs a b ->
  tree_eq (erase a) (erase b) -> is_equal a b = true.
Proof.
  induction a as [oa da ka IH] using otree_ind'. intros [ob db kb] Wa Wb D T.
  rewrite is_equal_unfold. simpl in Wa, Wb, T.
  apply tree_wf_inv in Wa as [[Wa1 [Wa2 Wa3]] Wka]. apply tree_wf_inv in Wb as [[Wb1 [Wb2 Wb3]] Wkb].
  inversion T as [? ? ? ? [N1 N2 N3 N4 N5 N6 N7] F]; subst.
  assert (O : Nat.eqb oa ob = false).
  { apply Nat.eqb_neq. intro; subst. apply (D ob); simpl; auto. }
  rewrite O. simpl.
  rewrite (proj2 (pystr_eqb_eq _ _) N1), (proj2 (opt_pystr_eqb_eq _ _) N2),
    (proj2 (opt_pystr_eqb_eq _ _) N3), (proj2 (opt_pystr_eqb_eq _ _) N4),
    (proj2 (dict_cmp_true_iff _ _ Wa1 Wb1) N5), (proj2 (dict_cmp_true_iff _ _ Wa3 Wb3) N7),
    (proj2 (dict_cmp_true_iff _ _ Wa2 Wb2) N6). simpl.
  assert (L : length ka = length kb).
  { apply Forall2_len in F. rewrite !map_length in F. exact F. }
  rewrite L, Nat.eqb_refl. simpl.
  assert (Dk : forall p q, In p ka -> In q kb -> disjoint_objs p q).
  { intros; eapply disjoint_kid; eauto. }
  clear - IH Wka Wkb F Dk.
  revert kb Wkb F Dk. induction ka as [|p x IHx]; intros [|q y] Wkb F Dk; simpl in *; auto.
  - inversion F.
  - inversion IH as [|? ? IHp IHr]; subst. inversion Wka; subst. inversion Wkb; subst. inversion F; subst.
    rewrite IHp; auto; try (apply IHx; auto).
Qed.

(** * symmetry (no assumption on identities) *)
Lemma is_equal_sym : forall a b,
  tree_wf (erase a) -> tree_wf (erase b) -> is_equal a b = is_equal b a.
Proof.
  induction a as [oa da ka IH] using otree_ind'. intros [ob db kb] Wa Wb.
  rewrite !is_equal_unfold. simpl in Wa, Wb.
  apply tree_wf_inv in Wa as [[Wa1 [Wa2 Wa3]] Wka]. apply tree_wf_inv in Wb as [[Wb1 [Wb2 Wb3]] Wkb].
  rewrite (Nat.eqb_sym oa ob), (pystr_eqb_sym (n_name da)), (opt_pystr_eqb_sym (n_content da)),
    (opt_pystr_eqb_sym (n_tail da)), (opt_pystr_eqb_sym (n_prefix da)),
    (dict_cmp_sym (n_attrs da)), (dict_cmp_sym (n_nsmap da)), (dict_cmp_sym (n_extras da)),
    (Nat.eqb_sym (length ka)); auto.
  destruct (Nat.eqb (length kb) (length ka)) eqn:L; [|rewrite !andb_false_r; reflexivity].
  apply Nat.eqb_eq in L.
  assert (S : forall2b is_equal ka kb = forall2b is_equal kb ka).
  { clear - IH Wka Wkb L.
    revert kb Wkb L. induction ka as [|p x IHx]; intros [|q y] Wkb L; simpl in *; try discriminate; auto.
    inversion IH as [|? ? IHp IHr]; subst. inversion Wka; subst. inversion Wkb; subst.
    rewrite IHp; auto. rewrite (IHx IHr); auto. }
  rewrite S. reflexivity.
Qed.

(** * tree_eq is an equivalence *)
Lemma nd_equiv_refl d : nd_equiv d d.
Proof. constructor; auto using map_eq_refl. Qed.
Lemma nd_equiv_sym a b : nd_equiv a b -> nd_equiv b a.
Proof. intros [? ? ? ? ? ? ?]; constructor; auto using map_eq_sym. Qed.
Lemma nd_equiv_trans a b c : nd_equiv a b -> nd_equiv b c -> nd_equiv a c.
Proof. intros [? ? ? ? ? ? ?] [? ? ? ? ? ? ?]; constructor; try congruence; eauto using map_eq_trans. Qed.

Lemma tree_eq_refl : forall t, tree_eq t t.
Proof.
  induction t as [d k IH] using ftree_ind'. constructor; [apply nd_equiv_refl|].
  induction IH; constructor; auto.
Qed.

Lemma tree_eq_sym : forall a b, tree_eq a b -> tree_eq b a.
Proof.
  induction a as [d k IH] using ftree_ind'. intros b T. inversion T as [? ? d2 k2 N F]; subst.
  constructor; [apply nd_equiv_sym; assumption|].
  clear - IH F. revert k2 F. induction IH as [|c r Hc Hr IHr]; intros k2 F; inversion F; subst; constructor; auto.
Qed.

Lemma tree_eq_trans : forall a b c, tree_eq a b -> tree_eq b c -> tree_eq a c.
Proof.
  induction a as [d k IH] using ftree_ind'. intros b c T1 T2.
  inversion T1 as [? ? d2 k2 N F]; subst. inversion T2 as [? ? d3 k3 N' F']; subst.
  constructor; [eapply nd_equiv_trans; eauto|].
  clear - IH F F'. revert k2 k3 F F'.
  induction IH as [|x r Hx Hr IHr]; intros k2 k3 F F'; inversion F; subst; inversion F'; subst; constructor; eauto.
Qed.

(** * a single edit is visible *)
Lemma nd_edit_not_equiv d d' : nd_wf d -> nd_edit d d' -> ~ nd_equiv d d'.
Proof.
  intros [W1 [W2 W3]] E [N1 N2 N3 N4 N5 N6 N7].
  destruct E; simpl in *; try congruence;
    match goal with H : dict_edit _ _ |- _ => eapply dict_edit_not_map_eq in H; eauto end.
Qed.

Lemma Forall2_app_head {A} (R : A -> A -> Prop) k x y : Forall2 R (k ++ x) (k ++ y) -> Forall2 R x y.
Proof. induction k as [|a k IH]; simpl; intro F; [exact F|]. inversion F; subst; auto. Qed.

Lemma tree_wf_kid d k1 c k2 : tree_wf (FT d (k1 ++ c :: k2)) -> tree_wf c.
Proof.
  intro W. apply tree_wf_inv in W as [_ W]. rewrite Forall_forall in W. apply W.
  apply in_or_app; right; left; reflexivity.
Qed.

Lemma one_edit_not_eq b b' : one_edit b b' -> tree_wf b -> ~ tree_eq b b'.
Proof.
  induction 1 as [d d' k E | d k1 c k2 | d k1 c k2 | d k1 c1 k2 c2 k3 NE | d k1 c c' k2 E IH]; intros W T;
    inversion T as [? ? ? ? N F]; subst.
  - apply tree_wf_inv in W as [W _]. eapply nd_edit_not_equiv; eauto.
  - apply Forall2_len in F. rewrite !app_length in F. simpl in F. lia.
  - apply Forall2_len in F. rewrite !app_length in F. simpl in F. lia.
  - apply Forall2_app_head in F. inversion F; subst. contradiction.
  - apply Forall2_app_head in F. inversion F; subst. apply IH; auto. eapply tree_wf_kid; eauto.
Qed.

(** * fresh relabelling: a structural copy with new object identities *)
Lemma label_go_eq n l :
  (fix go (n : nat) (l : list ftree) {struct l} : list otree * nat :=
     match l with
     | [] => ([], n)
     | x :: r => let '(x', n1) := label n x in let '(r', n2) := go n1 r in (x' :: r', n2)
     end) n l =
  match l with
  | [] => ([], n)
  | x :: r => let '(x', n1) := label n x in
              let '(r', n2) := (fix go (n : nat) (l : list ftree) {struct l} : list otree * nat :=
                 match l with
                 | [] => ([], n)
                 | x :: r => let '(x', n1) := label n x in let '(r', n2) := go n1 r in (x' :: r', n2)
                 end) n1 r in (x' :: r', n2)
  end.
Proof. destruct l; reflexivity. Qed.

Lemma label_spec : forall t n,
  erase (fst (label n t)) = t /\ n < snd (label n t) /\
  (forall x, In x (objs (fst (label n t))) -> n <= x < snd (label n t)).
Proof.
  induction t as [d k IH] using ftree_ind'. intro n. cbn [label].
  match goal with |- context [(fix go (n : nat) (l : list ftree) {struct l} := _) (S n) k] =>
    set (G := fix go (n : nat) (l : list ftree) {struct l} : list otree * nat :=
       match l with
       | [] => ([], n)
       | x :: r => let '(x', n1) := label n x in let '(r', n2) := go n1 r in (x' :: r', n2)
       end) end.
  assert (K : forall m, map erase (fst (G m k)) = k /\ m <= snd (G m k) /\
                        (forall x, In x (flat_map objs (fst (G m k))) -> m <= x < snd (G m k))).
  { clear n. induction IH as [|c r Hc Hr IHr]; intro m.
    - simpl. split; [reflexivity|]. split; [lia|]. intros x [].
    - unfold G; cbn; fold G.
      destruct (Hc m) as [E1 [L1 O1]]. destruct (label m c) as [c' m1] eqn:Lc. simpl in E1, L1, O1.
      destruct (IHr m1) as [E2 [L2 O2]]. destruct (G m1 r) as [r' m2] eqn:Gr. simpl in E2, L2, O2.
      simpl. split; [congruence|]. split; [lia|].
      intros x I. apply in_app_or in I as [I|I]; [apply O1 in I | apply O2 in I]; lia. }
  destruct (K (S n)) as [E [L O]]. destruct (G (S n) k) as [k' n'] eqn:GK. simpl in *.
  split; [congruence|]. split; [lia|].
  intros x [<-|I]; [lia | apply O in I; lia].
Qed.

Lemma label_disjoint a m :
  (forall x, In x (objs a) -> x < m) -> disjoint_objs a (fst (label m (erase a))).
Proof.
  intros B x I1 I2. apply B in I1. apply label_spec in I2. lia.
Qed.

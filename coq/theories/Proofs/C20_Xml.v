(* Proofs/C20_Xml.v — the infoset semantics of the normalising stylesheet: idempotent,
   structure-preserving, protected text untouched, everything else space-normalised. *)
From MP Require Import Common.Base.
From MP Require Import Model.PyString.
From MP Require Import Model.Normalize.
From MP Require Import Spec.XmlShape.
From MP Require Import Proofs.C20_PyString.

(** * induction on infoset trees *)
Section XnodeInd.
  Variable P : xnode -> Prop.
  Hypothesis HT : forall x, P (XT x).
  Hypothesis HE : forall name attrs kids, Forall P kids -> P (XE name attrs kids).
  Fixpoint xnode_ind' (n : xnode) : P n :=
    match n with
    | XT x => HT x
    | XE name attrs kids =>
        HE name attrs kids ((fix go (l : list xnode) : Forall P l :=
                               match l with
                               | [] => Forall_nil P
                               | k :: r => Forall_cons k (xnode_ind' k) (go r)
                               end) kids)
    end.
End XnodeInd.

Lemma flat_map_flat_map {A B C} (f : B -> list C) (g : A -> list B) l :
  flat_map f (flat_map g l) = flat_map (fun x => flat_map f (g x)) l.
Proof. induction l as [|x l IH]; [reflexivity|]. simpl. rewrite flat_map_app, IH. reflexivity. Qed.

Lemma flat_map_ext_Forall {A B} (f g : A -> list B) l :
  Forall (fun x => f x = g x) l -> flat_map f l = flat_map g l.
Proof. induction 1 as [|x l H _ IH]; [reflexivity|]. simpl. rewrite H, IH. reflexivity. Qed.

Lemma flat_map_singleton {A B} (f : A -> list B) (g : A -> B) l :
  Forall (fun x => f x = [g x]) l -> flat_map f l = map g l.
Proof. induction 1 as [|x l H _ IH]; [reflexivity|]. simpl. rewrite H, IH. reflexivity. Qed.

(** * normalize-space *)
Lemma split_by_join p c l : p c = true -> l <> [] -> Forall (Forall (fun d => p d = false)) l ->
  split_by p (py_join [c] l) = l.
Proof.
  intros Hc NE H. induction H as [|w r Hw Hr IH]; [congruence|].
  destruct r as [|w' r].
  - simpl. apply split_by_none; exact Hw.
  - rewrite py_join_cons2. rewrite split_by_app_sep by exact Hc.
    rewrite split_by_none by exact Hw. simpl. f_equal. apply IH. discriminate.
Qed.

Definition xpiece (w : pystr) : Prop := w <> [] /\ Forall (fun c => is_xml_space c = false) w.

Lemma xpieces v : Forall xpiece (filter nonempty (split_by is_xml_space v)).
Proof.
  pose proof (split_by_pieces is_xml_space v) as H.
  induction H as [|w r Hw _ IH]; simpl; [constructor|].
  destruct w as [|c w]; simpl; [exact IH|]. constructor; [split; [discriminate | exact Hw] | exact IH].
Qed.

Lemma filter_nonempty_id l : Forall xpiece l -> filter nonempty l = l.
Proof.
  induction 1 as [|w r [NE _] _ IH]; [reflexivity|]. simpl. destruct w; [congruence|]. simpl. rewrite IH. reflexivity.
Qed.

Lemma sp_xml_space : is_xml_space SP = true.
Proof. reflexivity. Qed.

Lemma xnorm_of_pieces l : Forall xpiece l -> filter nonempty (split_by is_xml_space (py_join [SP] l)) = l.
Proof.
  intro H. destruct l as [|w r]; [reflexivity|].
  rewrite split_by_join.
  - apply filter_nonempty_id. exact H.
  - exact sp_xml_space.
  - discriminate.
  - eapply Forall_impl; [|exact H]. intros x [_ F]. exact F.
Qed.

Lemma xnorm_idem v : xnorm (xnorm v) = xnorm v.
Proof. unfold xnorm at 1 3. f_equal. apply xnorm_of_pieces. apply xpieces. Qed.

Lemma join_pieces_head l c r : Forall xpiece l -> py_join [SP] l = c :: r -> is_xml_space c = false.
Proof.
  intros H E. destruct l as [|w l]; [discriminate|].
  inversion H as [|? ? [NE F] _]; subst. destruct w as [|d w]; [congruence|].
  inversion F; subst. destruct l; simpl in E; injection E as <- _; assumption.
Qed.

Lemma join_pieces_last l r c : Forall xpiece l -> py_join [SP] l = r ++ [c] -> is_xml_space c = false.
Proof.
  intro H. revert r c. induction H as [|w rest [NE F] Hr IH]; intros r c E.
  - destruct r; discriminate.
  - destruct rest as [|w' rest].
    + simpl in E. rewrite Forall_forall in F. apply F. rewrite E. apply in_or_app; right; left; reflexivity.
    + rewrite py_join_cons2 in E.
      destruct (exists_last (l := py_join [SP] (w' :: rest))) as (r2 & c2 & E2).
      { inversion Hr as [|? ? [NE' _] _]; subst. destruct w' as [|d w']; [congruence|].
        destruct rest; simpl; discriminate. }
      pose proof (IH r2 c2 E2) as K.
      assert (Q : w ++ SP :: py_join [SP] (w' :: rest) = (w ++ SP :: r2) ++ [c2]).
      { rewrite <- app_assoc. simpl. f_equal. f_equal. exact E2. }
      pose proof (eq_trans (eq_sym E) Q) as Q'. apply app_inj_tail in Q' as [_ ->]. exact K.
Qed.

Lemma join_pieces_nodouble l a c1 c2 b : Forall xpiece l -> py_join [SP] l = a ++ c1 :: c2 :: b ->
  ~ (is_xml_space c1 = true /\ is_xml_space c2 = true).
Proof.
  intro H. revert a. induction H as [|w rest [NE F] Hr IH]; intros a E.
  - destruct a; discriminate.
  - destruct rest as [|w' rest].
    + simpl in E. intros [X1 _]. rewrite Forall_forall in F. rewrite F in X1; [discriminate|].
      rewrite E. apply in_or_app; right; left; reflexivity.
    + rewrite py_join_cons2 in E.
      (* the pair lies inside w, straddles the separator, or lies in the rest *)
      revert a E. induction w as [|d w IHw]; intros a E; [congruence|].
      inversion F as [|? ? Fd Fw]; subst.
      destruct a as [|x a].
      * simpl in E. injection E as <- E. intros [X1 _]. rewrite Fd in X1. discriminate.
      * simpl in E. injection E as <- E.
        destruct w as [|d' w].
        -- (* w = [d]: remaining string is SP :: join rest *)
           simpl in E. destruct a as [|y a].
           ++ simpl in E. injection E as <- E. intros [_ X2].
              assert (HH : is_xml_space c2 = false).
              { eapply (join_pieces_head (w' :: rest)); [exact Hr | exact E]. }
              rewrite HH in X2. discriminate.
           ++ simpl in E. injection E as <- E. eapply IH. exact E.
        -- apply (IHw ltac:(discriminate) Fw a). exact E.
Qed.

Lemma in_join_pieces l c : In c (py_join [SP] l) -> c = SP \/ exists w, In w l /\ In c w.
Proof.
  induction l as [|w r IH]; [intros []|].
  destruct r as [|w' r].
  - simpl. intro H. right. exists w. split; [left; reflexivity | exact H].
  - rewrite py_join_cons2. intro H. apply in_app_or in H as [H|[H|H]].
    + right. exists w. split; [left; reflexivity | exact H].
    + left; symmetry; exact H.
    + destruct (IH H) as [->|(u & Hu & Hc)]; [left; reflexivity|].
      right. exists u. split; [right; exact Hu | exact Hc].
Qed.

Lemma xnorm_normal v : xnormal (xnorm v).
Proof.
  pose proof (xpieces v) as H. unfold xnorm. repeat split.
  - intros c r E. eapply join_pieces_head; eauto.
  - intros r c E. eapply join_pieces_last; eauto.
  - intros a c1 c2 b E. eapply join_pieces_nodouble; eauto.
  - intros c Hc Hs. apply in_join_pieces in Hc as [->|(w & Hw & Hc)]; [reflexivity|].
    rewrite Forall_forall in H. destruct (H w Hw) as [_ F]. rewrite Forall_forall in F. rewrite (F c Hc) in Hs. discriminate.
Qed.

Lemma xnorm_incl v c : In c (xnorm v) -> c = SP \/ In c v.
Proof.
  unfold xnorm. intro H. apply in_join_pieces in H as [->|(w & Hw & Hc)]; [left; reflexivity|].
  right. apply filter_In in Hw as [Hw _]. eapply split_by_incl; eauto.
Qed.

(** * the stylesheet *)
Section Xml.
  Variable protected : list pystr.
  Notation xslt := (xslt protected).
  Notation xslt_tr := (xslt_tr protected).
  Notation norm_xml := (norm_xml protected).

  (** the stylesheet with [translate] = replace everywhere first, then the plain stylesheet *)
  Lemma xslt_tr_factor n : forall anc, xslt_tr anc n = xslt anc (nbsp_x n).
  Proof.
    induction n as [x | name attrs kids IH] using xnode_ind'; intro anc; [reflexivity|].
    cbn [Normalize.xslt_tr Normalize.xslt nbsp_x]. f_equal. f_equal.
    - rewrite map_map. reflexivity.
    - induction IH as [|k r Hk _ IHr]; [reflexivity|]. simpl. rewrite Hk, IHr. reflexivity.
  Qed.

  Lemma norm_xml_factor root : norm_xml root = xslt false (nbsp_x root).
  Proof. apply xslt_tr_factor. Qed.

  Lemma xslt_idem n : forall anc, flat_map (xslt anc) (xslt anc n) = xslt anc n.
  Proof.
    induction n as [x | name attrs kids IH] using xnode_ind'; intro anc.
    - simpl. destruct anc; [reflexivity|].
      destruct (xnorm x) as [|c r] eqn:E; [reflexivity|].
      simpl. rewrite <- E, xnorm_idem, E. reflexivity.
    - cbn [Normalize.xslt flat_map]. rewrite app_nil_r. cbn [Normalize.xslt]. f_equal. f_equal.
      + rewrite map_map. apply map_ext. intros [k v]. simpl. rewrite xnorm_idem. reflexivity.
      + rewrite flat_map_flat_map. apply flat_map_ext_Forall.
        eapply Forall_impl; [|exact IH]. intros k Hk. apply Hk.
  Qed.

  (** no U+00A0 anywhere *)
  Fixpoint nbsp_free (n : xnode) : Prop :=
    match n with
    | XT x => ~ In NBSP x
    | XE _ attrs kids => Forall (fun kv => ~ In NBSP (snd kv)) attrs /\
                         (fix all (l : list xnode) : Prop := match l with [] => True | k :: r => nbsp_free k /\ all r end) kids
    end.

  Lemma nbsp_free_kids l :
    (fix all (l : list xnode) : Prop := match l with [] => True | k :: r => nbsp_free k /\ all r end) l <-> Forall nbsp_free l.
  Proof.
    induction l as [|k r IH]; split; intro H.
    - constructor.
    - exact I.
    - destruct H as [H1 H2]. constructor; [exact H1 | apply IH; exact H2].
    - inversion H as [|? ? H1 H2]; subst. split; [exact H1 | apply IH; exact H2].
  Qed.

  Lemma nbsp_x_free n : nbsp_free (nbsp_x n).
  Proof.
    induction n as [x | name attrs kids IH] using xnode_ind'.
    - simpl. unfold tr. apply replace_char_not_in. discriminate.
    - cbn [nbsp_x nbsp_free]. split.
      + apply Forall_forall. intros kv H. apply in_map_iff in H as ([k v] & <- & _). simpl.
        unfold tr. apply replace_char_not_in. discriminate.
      + apply nbsp_free_kids. apply Forall_forall. intros k Hk. apply in_map_iff in Hk as (k0 & <- & Hk0).
        rewrite Forall_forall in IH. apply IH. exact Hk0.
  Qed.

  Lemma nbsp_x_id n : nbsp_free n -> nbsp_x n = n.
  Proof.
    induction n as [x | name attrs kids IH] using xnode_ind'; cbn [nbsp_x nbsp_free].
    - intro H. unfold tr. rewrite replace_char_id by exact H. reflexivity.
    - intros [HA HK]. apply nbsp_free_kids in HK. f_equal.
      + rewrite <- (map_id attrs) at 2. apply map_ext_in. intros [k v] Hin. simpl.
        rewrite Forall_forall in HA. unfold tr. rewrite replace_char_id by (exact (HA _ Hin)). reflexivity.
      + rewrite <- (map_id kids) at 2. apply map_ext_in. intros k Hin.
        rewrite Forall_forall in IH, HK. apply IH; [exact Hin | apply HK; exact Hin].
  Qed.

  Lemma xnorm_nbsp_free v : ~ In NBSP v -> ~ In NBSP (xnorm v).
  Proof. intros H I. apply xnorm_incl in I as [I|I]; [discriminate | exact (H I)]. Qed.

  Lemma xslt_free n : forall anc, nbsp_free n -> Forall nbsp_free (xslt anc n).
  Proof.
    induction n as [x | name attrs kids IH] using xnode_ind'; intros anc H.
    - simpl in *. destruct anc; [repeat constructor; exact H|].
      destruct (xnorm x) as [|c r] eqn:E; [constructor|]. repeat constructor. rewrite <- E. apply xnorm_nbsp_free. exact H.
    - cbn [Normalize.xslt]. cbn [nbsp_free] in H. destruct H as [HA HK]. apply nbsp_free_kids in HK.
      repeat constructor.
      + apply Forall_forall. intros kv Hin. apply in_map_iff in Hin as ([k v] & <- & Hin). simpl.
        apply xnorm_nbsp_free. rewrite Forall_forall in HA. exact (HA _ Hin).
      + apply nbsp_free_kids. apply Forall_forall. intros k Hk. apply in_flat_map in Hk as (k0 & Hk0 & Hk).
        rewrite Forall_forall in IH, HK. specialize (IH k0 Hk0 (anc || is_protected protected name) (HK k0 Hk0)).
        rewrite Forall_forall in IH. exact (IH k Hk).
  Qed.

  Theorem xml_idem root : flat_map norm_xml (norm_xml root) = norm_xml root.
  Proof.
    rewrite norm_xml_factor.
    rewrite <- (xslt_idem (nbsp_x root) false) at 2.
    apply flat_map_ext_Forall.
    eapply Forall_impl; [|apply xslt_free, nbsp_x_free]. intros r Hr. rewrite norm_xml_factor. rewrite nbsp_x_id by exact Hr. reflexivity.
  Qed.

  (** structure *)
  Lemma xslt_skeleton n : forall anc, flat_map skeleton (xslt anc n) = skeleton n.
  Proof.
    induction n as [x | name attrs kids IH] using xnode_ind'; intro anc.
    - simpl. destruct anc; [reflexivity|]. destruct (xnorm x); reflexivity.
    - cbn [Normalize.xslt flat_map skeleton]. rewrite app_nil_r. f_equal. f_equal.
      + rewrite map_map. reflexivity.
      + rewrite flat_map_flat_map. apply flat_map_ext_Forall.
        eapply Forall_impl; [|exact IH]. intros k Hk. apply Hk.
  Qed.

  Lemma nbsp_skeleton n : skeleton (nbsp_x n) = skeleton n.
  Proof.
    induction n as [x | name attrs kids IH] using xnode_ind'; [reflexivity|].
    cbn [nbsp_x skeleton]. f_equal. f_equal.
    - rewrite map_map. reflexivity.
    - induction IH as [|k r Hk _ IHr]; [reflexivity|]. simpl. rewrite Hk, IHr. reflexivity.
  Qed.

  Theorem xml_struct root : flat_map skeleton (norm_xml root) = skeleton root.
  Proof. rewrite norm_xml_factor. rewrite xslt_skeleton. apply nbsp_skeleton. Qed.

  (** protected text *)
  Lemma xslt_protected_texts n : forall anc,
    flat_map (texts protected true anc) (xslt anc n) = texts protected true anc n.
  Proof.
    induction n as [x | name attrs kids IH] using xnode_ind'; intro anc.
    - simpl. destruct anc; [reflexivity|]. destruct (xnorm x); reflexivity.
    - cbn [Normalize.xslt flat_map texts]. rewrite app_nil_r.
      rewrite flat_map_flat_map. apply flat_map_ext_Forall.
      eapply Forall_impl; [|exact IH]. intros k Hk. apply Hk.
  Qed.

  Lemma nbsp_texts want n : forall anc,
    texts protected want anc (nbsp_x n) = map (replace_char NBSP SP) (texts protected want anc n).
  Proof.
    induction n as [x | name attrs kids IH] using xnode_ind'; intro anc.
    - simpl. destruct (Bool.eqb anc want); reflexivity.
    - cbn [nbsp_x texts]. induction IH as [|k r Hk _ IHr]; [reflexivity|].
      simpl. rewrite map_app, Hk, IHr. reflexivity.
  Qed.

  Theorem xml_protected root :
    flat_map (texts protected true false) (norm_xml root) =
    map (replace_char NBSP SP) (texts protected true false root).
  Proof. rewrite norm_xml_factor. rewrite xslt_protected_texts. apply nbsp_texts. Qed.

  (** below a protected element only attribute values change *)
  Lemma xslt_protected_subtree_core n : xslt true n = [attrs_only xnorm n].
  Proof.
    induction n as [x | name attrs kids IH] using xnode_ind'; [reflexivity|].
    cbn [Normalize.xslt attrs_only orb]. f_equal. f_equal. apply flat_map_singleton. exact IH.
  Qed.

  Theorem xslt_protected_subtree n : xslt_tr true n = [attrs_only xnorm (nbsp_x n)].
  Proof. rewrite xslt_tr_factor. apply xslt_protected_subtree_core. Qed.

  (** everything else is space-normalised *)
  Lemma xslt_free_texts n : forall anc,
    Forall (fun v => v <> [] /\ xnormal v) (flat_map (texts protected false anc) (xslt anc n)).
  Proof.
    induction n as [x | name attrs kids IH] using xnode_ind'; intro anc.
    - simpl. destruct anc; [constructor|].
      destruct (xnorm x) as [|c r] eqn:E; [constructor|]. simpl. constructor; [|constructor].
      split; [discriminate | rewrite <- E; apply xnorm_normal].
    - cbn [Normalize.xslt flat_map texts]. rewrite app_nil_r. rewrite flat_map_flat_map.
      apply Forall_forall. intros v Hv. apply in_flat_map in Hv as (k & Hk & Hv).
      rewrite Forall_forall in IH. specialize (IH k Hk (anc || is_protected protected name)).
      rewrite Forall_forall in IH. apply IH. exact Hv.
  Qed.

  Lemma xslt_attr_values n : forall anc, Forall xnormal (flat_map attr_values (xslt anc n)).
  Proof.
    induction n as [x | name attrs kids IH] using xnode_ind'; intro anc.
    - simpl. destruct anc; [repeat constructor|]. destruct (xnorm x); repeat constructor.
    - cbn [Normalize.xslt flat_map attr_values]. rewrite app_nil_r. apply Forall_app. split.
      + rewrite map_map. apply Forall_forall. intros v Hv. apply in_map_iff in Hv as (kv & <- & _). apply xnorm_normal.
      + rewrite flat_map_flat_map. apply Forall_forall. intros v Hv. apply in_flat_map in Hv as (k & Hk & Hv).
        rewrite Forall_forall in IH. specialize (IH k Hk (anc || is_protected protected name)).
        rewrite Forall_forall in IH. apply IH. exact Hv.
  Qed.

  Theorem xml_norm root :
    Forall (fun v => v <> [] /\ xnormal v) (flat_map (texts protected false false) (norm_xml root)) /\
    Forall xnormal (flat_map attr_values (norm_xml root)).
  Proof. rewrite norm_xml_factor. split; [apply xslt_free_texts | apply xslt_attr_values]. Qed.
End Xml.

Lemma xml_shipped : forall root,
  flat_map (norm_xml protected_names) (norm_xml protected_names root) = norm_xml protected_names root /\
  flat_map skeleton (norm_xml protected_names root) = skeleton root /\
  flat_map (texts protected_names true false) (norm_xml protected_names root) =
    map (replace_char 160 32) (texts protected_names true false root) /\
  Forall (fun v => v <> [] /\ xnormal v) (flat_map (texts protected_names false false) (norm_xml protected_names root)) /\
  Forall xnormal (flat_map attr_values (norm_xml protected_names root)).
Proof.
  intro root. split; [exact (xml_idem protected_names root)|]. split; [exact (xml_struct protected_names root)|].
  split; [exact (xml_protected protected_names root)|]. exact (xml_norm protected_names root).
Qed.

(* Proofs/C16_Check.v — the check phase of the expand model decides the spec's [spec_ok]:
   [_register_ids] succeeds iff no id attribute value occurs twice, and then returns the
   (value, element) pairs in document order; every reference resolves iff its content is one
   of the values. *)
From Coq Require Import ListDec.
From MP Require Import Common.Base Common.Tree Model.Expand Spec.ExpandSpec Proofs.C15_Eq.

(** * lists *)
Lemma flat_map_flat_map {A B C} (f : B -> list C) (g : A -> list B) l :
  flat_map f (flat_map g l) = flat_map (fun x => flat_map f (g x)) l.
Proof. induction l as [|x r IH]; [reflexivity|]. cbn [flat_map]. rewrite flat_map_app, IH. reflexivity. Qed.

Lemma NoDup_app_iff {A} (a b : list A) :
  NoDup (a ++ b) <-> NoDup a /\ NoDup b /\ (forall x, In x a -> ~ In x b).
Proof.
  induction a as [|x a IH]; cbn [app].
  - split; [intro H; repeat split; [constructor | exact H | intros ? []] | intros (_ & H & _); exact H].
  - split.
    + intro H. inversion H as [|? ? NI ND]; subst. apply IH in ND. destruct ND as (Na & Nb & D).
      split; [constructor; [intro I; apply NI, in_or_app; left; exact I | exact Na]|].
      split; [exact Nb|]. intros y [<-|Hy] Hb; [apply NI, in_or_app; right; exact Hb | exact (D y Hy Hb)].
    + intros (Na & Nb & D). inversion Na as [|? ? NI Na']; subst. constructor.
      * intro I. apply in_app_or in I. destruct I as [I|I]; [exact (NI I) | exact (D x (or_introl eq_refl) I)].
      * apply IH. split; [exact Na'|]. split; [exact Nb|]. intros y Hy. apply D. right; exact Hy.
Qed.

Lemma nodupb_NoDup l : nodupb l = true <-> NoDup l.
Proof.
  induction l as [|x r IH]; cbn [nodupb].
  - split; [constructor | reflexivity].
  - rewrite andb_true_iff, negb_true_iff, IH, smem_false. split.
    + intros [H1 H2]. constructor; assumption.
    + intro H. inversion H; subst. split; assumption.
Qed.

Lemma pystr_eqb_sym a b : pystr_eqb a b = pystr_eqb b a.
Proof.
  destruct (pystr_eqb_reflect a b) as [->|NE]; [rewrite pystr_eqb_refl; reflexivity|].
  symmetry. apply pystr_eqb_neq. congruence.
Qed.

Lemma keys_app {V} (a b : list (pystr * V)) : keys (a ++ b) = keys a ++ keys b.
Proof. apply map_app. Qed.

(** * dict operations on fresh keys *)
Lemma dict_set_fresh {V} k (v : V) d : ~ In k (keys d) -> dict_set k v d = d ++ [(k, v)].
Proof.
  induction d as [|[k' v'] r IH]; [reflexivity|]. cbn [dict_set keys map fst app]. intro H.
  destruct (pystr_eqb_reflect k k') as [->|NE]; [exfalso; apply H; left; reflexivity|].
  rewrite IH; [reflexivity|]. intro I. apply H. right; exact I.
Qed.

Lemma dict_merge_disjoint {V} (b a : list (pystr * V)) :
  NoDup (keys b) -> (forall k, In k (keys b) -> ~ In k (keys a)) -> dict_merge a b = a ++ b.
Proof.
  revert a. induction b as [|[k v] r IH]; intros a ND D.
  - cbn. symmetry. apply app_nil_r.
  - unfold dict_merge in *. cbn [fold_left fst snd].
    rewrite dict_set_fresh; [|apply D; left; reflexivity].
    inversion ND as [|? ? NI ND']; subst.
    rewrite IH; [rewrite <- app_assoc; reflexivity | exact ND' |].
    intros k' Hk' I. rewrite keys_app in I. apply in_app_or in I. destruct I as [I|[<-|[]]].
    + exact (D k' (or_intror Hk') I).
    + exact (NI Hk').
Qed.

Lemma existsb_assoc_false {V W} (sub : list (pystr * V)) (reg : list (pystr * W)) :
  existsb (fun kv => is_some (assoc (fst kv) reg)) sub = false <->
  (forall k, In k (keys sub) -> ~ In k (keys reg)).
Proof.
  induction sub as [|[k v] r IH]; cbn [existsb keys map fst].
  - split; [intros _ ? [] | reflexivity].
  - rewrite orb_false_iff, IH. split.
    + intros [H1 H2] k' [<-|Hk'].
      * apply assoc_None_keys. destruct (assoc k reg); [discriminate | reflexivity].
      * apply H2, Hk'.
    + intro H. split.
      * assert (N : assoc k reg = None) by (apply assoc_None_keys, H; left; reflexivity). rewrite N. reflexivity.
      * intros k' Hk'. apply H. right; exact Hk'.
Qed.

(** * _register_ids *)
Definition own_pairs (t : ftree) : list (pystr * ftree) :=
  match id_of t with Some v => [(v, t)] | None => [] end.

Lemma own_fold (t : ftree) l reg :
  NoDup (keys l) ->
  fold_left (fun reg av => if pystr_eqb (fst av) ID_ATTR then dict_set (snd av) t reg else reg) l reg =
  match assoc IDA l with Some v => dict_set v t reg | None => reg end.
Proof.
  revert reg. induction l as [|[k v] r IH]; intros reg ND; [reflexivity|].
  inversion ND as [|? ? NI ND']; subst. cbn [fold_left fst snd assoc].
  change ID_ATTR with IDA. rewrite (pystr_eqb_sym IDA k).
  destruct (pystr_eqb_reflect k IDA) as [->|NE].
  - rewrite (IH _ ND').
    assert (N : assoc IDA r = None) by (apply assoc_None_keys; exact NI). rewrite N. reflexivity.
  - apply IH, ND'.
Qed.

Lemma own_ids_spec t : NoDup (keys (n_attrs (ft_d t))) -> own_ids t = own_pairs t.
Proof.
  intro ND. unfold own_ids, own_pairs, id_of. rewrite (own_fold t _ [] ND).
  destruct (assoc IDA (n_attrs (ft_d t))); reflexivity.
Qed.

Definition reg_go : list ftree -> list (pystr * ftree) -> option (list (pystr * ftree)) :=
  fix go (ks : list ftree) (reg : list (pystr * ftree)) : option (list (pystr * ftree)) :=
    match ks with
    | [] => Some reg
    | k :: r =>
        match register k with
        | None => None
        | Some sub =>
            if existsb (fun kv => is_some (assoc (fst kv) reg)) sub then None
            else go r (dict_merge reg sub)
        end
    end.

Lemma register_unfold d kids : register (FT d kids) = reg_go kids (own_ids (FT d kids)).
Proof. reflexivity. Qed.

Lemma id_pairs_unfold d kids : id_pairs (FT d kids) = own_pairs (FT d kids) ++ flat_map id_pairs kids.
Proof.
  unfold id_pairs at 1. cbn [preorder flat_map]. f_equal.
  rewrite flat_map_flat_map. reflexivity.
Qed.

Definition reg_ok (t : ftree) : Prop :=
  (NoDup (id_values t) -> register t = Some (id_pairs t)) /\
  (~ NoDup (id_values t) -> register t = None).

Lemma reg_go_spec ks : Forall reg_ok ks -> forall reg, NoDup (keys reg) ->
  (NoDup (keys (reg ++ flat_map id_pairs ks)) -> reg_go ks reg = Some (reg ++ flat_map id_pairs ks)) /\
  (~ NoDup (keys (reg ++ flat_map id_pairs ks)) -> reg_go ks reg = None).
Proof.
  induction 1 as [|k r [Hk1 Hk2] _ IH]; intros reg NR.
  - cbn [flat_map reg_go]. rewrite app_nil_r. split; [reflexivity | intro N; contradiction].
  - cbn [flat_map]. change (reg_go (k :: r) reg) with
      (match register k with
       | None => None
       | Some sub => if existsb (fun kv => is_some (assoc (fst kv) reg)) sub then None
                     else reg_go r (dict_merge reg sub)
       end).
    rewrite app_assoc.
    destruct (NoDup_dec pystr_eq_dec (id_values k)) as [Nk|Nk].
    + rewrite (Hk1 Nk).
      destruct (existsb (fun kv => is_some (assoc (fst kv) reg)) (id_pairs k)) eqn:E.
      * (* an id of k is already registered *)
        split; [|reflexivity]. intro N. exfalso.
        rewrite keys_app, keys_app in N. apply NoDup_app_iff in N. destruct N as (N & _ & _).
        apply NoDup_app_iff in N. destruct N as (_ & _ & D).
        assert (F : existsb (fun kv => is_some (assoc (fst kv) reg)) (id_pairs k) = false).
        { apply (proj2 (existsb_assoc_false (id_pairs k) reg)). intros x Hx I. exact (D x I Hx). }
        congruence.
      * pose proof (proj1 (existsb_assoc_false (id_pairs k) reg) E) as E'. clear E. rename E' into E.
        rewrite (dict_merge_disjoint (id_pairs k) reg Nk E).
        apply IH. rewrite keys_app. apply NoDup_app_iff. split; [exact NR|]. split; [exact Nk|].
        intros x Hx I. exact (E x I Hx).
    + rewrite (Hk2 Nk). split; [|reflexivity]. intro N. exfalso. apply Nk.
      rewrite keys_app, keys_app in N. apply NoDup_app_iff in N. destruct N as (N & _ & _).
      apply NoDup_app_iff in N. destruct N as (_ & N & _). exact N.
Qed.

Lemma own_pairs_nodup t : NoDup (keys (own_pairs t)).
Proof. unfold own_pairs. destruct (id_of t); cbn; repeat constructor. intros []. Qed.

Theorem register_spec : forall t, attrs_wf t -> reg_ok t.
Proof.
  apply (ftree_ind' (fun t => attrs_wf t -> reg_ok t)). intros d kids IH W.
  unfold attrs_wf in W. cbn [preorder] in W. inversion W as [|? ? W0 Wk]; subst.
  assert (IH' : Forall reg_ok kids).
  { rewrite Forall_forall in *. intros k Ik. apply IH; [exact Ik|].
    unfold attrs_wf. apply Forall_forall. intros x Hx. apply Wk. apply in_flat_map. exists k. split; assumption. }
  unfold reg_ok, id_values. rewrite register_unfold, id_pairs_unfold, (own_ids_spec _ W0).
  apply reg_go_spec; [exact IH' | apply own_pairs_nodup].
Qed.

(** * the references the model looks at are the spec's *)
Lemma filter_flat_map {A B} (p : B -> bool) (f : A -> list B) l :
  filter p (flat_map f l) = flat_map (fun x => filter p (f x)) l.
Proof. induction l as [|x r IH]; [reflexivity|]. cbn [flat_map]. rewrite filter_app, IH. reflexivity. Qed.

Lemma preorder_unfold t : preorder t = t :: descendants t.
Proof. destruct t as [d kids]. reflexivity. Qed.

Theorem find_desc_spec : forall t, find_desc REFERENCES t = refs_of t.
Proof.
  apply ftree_ind'. intros d kids IH. unfold refs_of, descendants. cbn [find_desc ft_kids].
  rewrite filter_flat_map. induction IH as [|k r Hk _ IHr]; [reflexivity|].
  cbn [flat_map]. rewrite IHr, Hk. f_equal.
  rewrite (preorder_unfold k). cbn [filter]. unfold refs_of.
  change (pystr_eqb (ft_name k) REFERENCES) with (is_ref k). destruct (is_ref k); reflexivity.
Qed.

Lemma resolves_target t r : resolves (id_pairs t) r = match target t r with Some _ => true | None => false end.
Proof. unfold resolves, target. destruct (n_content (ft_d r)); reflexivity. Qed.

Lemma forallb_ext' {A} (f g : A -> bool) l : (forall x, f x = g x) -> forallb f l = forallb g l.
Proof. intro H. induction l as [|x r IH]; [reflexivity|]. cbn. rewrite H, IH. reflexivity. Qed.

(** the check phase decides [spec_ok] and, when it passes, yields the spec's id table *)
Theorem check_spec t : attrs_wf t -> check t = if spec_ok t then Some (id_pairs t) else None.
Proof.
  intro W. destruct (register_spec t W) as [R1 R2]. unfold check, spec_ok.
  destruct (nodupb (id_values t)) eqn:N.
  - rewrite (R1 (proj1 (nodupb_NoDup _) N)). rewrite find_desc_spec.
    rewrite (forallb_ext' _ _ _ (resolves_target t)). cbn [andb].
    destruct (forallb _ (refs_of t)); reflexivity.
  - rewrite R2; [reflexivity|]. intro H. apply nodupb_NoDup in H. congruence.
Qed.

Lemma filter_nil_existsb {A} (p : A -> bool) l : match filter p l with [] => true | _ => false end = negb (existsb p l).
Proof.
  induction l as [|x r IH]; [reflexivity|]. cbn [filter existsb]. destruct (p x); [reflexivity | exact IH].
Qed.

Theorem in_scope_spec t : in_scope (id_pairs t) t = refs_flat t.
Proof.
  unfold in_scope, refs_flat. rewrite find_desc_spec. apply forallb_ext'. intro r.
  rewrite find_desc_spec. unfold refs_of. rewrite filter_nil_existsb. reflexivity.
Qed.

(* Proofs/C09_Lists.v — the model's list primitives (recursive, as Python's list methods
   behave) are the firstn/skipn/nth/find formulations of Spec/ListModel.v. *)
From MP Require Import Common.Base.
From MP Require Import Model.Edits.
From MP Require Import Spec.ListModel.

Lemma find_map {A B} (g : A -> B) (P : B -> bool) l :
  find P (map g l) = option_map g (find (fun x => P (g x)) l).
Proof. induction l as [|a l IH]; simpl; [reflexivity|]. destruct (P (g a)); auto. Qed.

Lemma find_ext {A} (P Q : A -> bool) l : (forall x, In x l -> P x = Q x) -> find P l = find Q l.
Proof.
  induction l as [|a l IH]; simpl; intro H; [reflexivity|].
  rewrite (H a) by auto. destruct (Q a); auto.
Qed.

(** * index / pos *)
Lemma index_of_pos c l : index_of c l = pos c l.
Proof.
  unfold pos. induction l as [|y r IH]; simpl; [reflexivity|].
  destruct (Nat.eqb y c); [reflexivity|].
  rewrite IH, <- seq_shift, find_map. reflexivity.
Qed.

Lemma index_of_Some c l i :
  index_of c l = Some i -> i < length l /\ nth_error l i = Some c /\ ~ In c (firstn i l).
Proof.
  revert i; induction l as [|y r IH]; simpl; intros i H; [discriminate|].
  destruct (Nat.eqb_spec y c) as [->|NE].
  - inversion H; subst. simpl. repeat split; auto; lia.
  - destruct (index_of c r) as [k|] eqn:E; [|discriminate]. inversion H; subst.
    destruct (IH k eq_refl) as [L [N F]]. simpl. repeat split; auto; [lia|].
    intros [X|X]; auto.
Qed.

Lemma index_of_None c l : index_of c l = None <-> ~ In c l.
Proof.
  induction l as [|y r IH]; simpl; [tauto|].
  destruct (Nat.eqb_spec y c) as [->|NE].
  - split; [discriminate|]. intro H; exfalso; apply H; auto.
  - destruct (index_of c r); simpl.
    + split; [discriminate|]. intro H. exfalso.
      assert (X : Some n = None) by (apply IH; intro; apply H; auto). discriminate.
    + split; auto. intros _ [X|X]; [auto | apply IH in X; auto].
Qed.

Lemma index_of_In c l : In c l -> exists i, index_of c l = Some i.
Proof.
  intro H. destruct (index_of c l) eqn:E; [eauto|]. apply index_of_None in E. contradiction.
Qed.

Lemma index_of_nth c l i d : index_of c l = Some i -> nth i l d = c.
Proof. intro H. apply index_of_Some in H as [_ [N _]]. apply nth_error_nth; exact N. Qed.

(** * insert *)
Lemma insert_at_spec k x l : insert_at k x l = firstn k l ++ [x] ++ skipn k l.
Proof.
  revert l; induction k as [|k IH]; intros [|y r]; simpl; auto.
  rewrite IH. reflexivity.
Qed.

Lemma py_insert_spec z x l :
  py_insert z x l = firstn (clamp z (length l)) l ++ [x] ++ skipn (clamp z (length l)) l.
Proof.
  unfold py_insert. rewrite insert_at_spec.
  assert (E : Z.to_nat (if (z <? 0)%Z
                        then if (z + Z.of_nat (length l) <? 0)%Z then 0%Z else (z + Z.of_nat (length l))%Z
                        else if (Z.of_nat (length l) <? z)%Z then Z.of_nat (length l) else z)
              = clamp z (length l)).
  { unfold clamp. destruct (z <? 0)%Z eqn:A.
    - destruct (z + Z.of_nat (length l) <? 0)%Z eqn:B.
      + apply Z.ltb_lt in B. rewrite Z.max_l by lia. reflexivity.
      + apply Z.ltb_ge in B. rewrite Z.max_r by lia. reflexivity.
    - destruct (Z.of_nat (length l) <? z)%Z eqn:B.
      + apply Z.ltb_lt in B. rewrite Z.min_r by lia. reflexivity.
      + apply Z.ltb_ge in B. rewrite Z.min_l by lia. reflexivity. }
  rewrite E. reflexivity.
Qed.

Lemma clamp_le z n : clamp z n <= n.
Proof. unfold clamp. destruct (z <? 0)%Z eqn:A; [apply Z.ltb_lt in A | apply Z.ltb_ge in A]; lia. Qed.

(** * remove *)
Lemma py_remove_spec c l :
  py_remove c l = match index_of c l with
                  | Some i => Some (firstn i l ++ skipn (S i) l)
                  | None => None
                  end.
Proof.
  induction l as [|y r IH]; simpl; [reflexivity|].
  destruct (Nat.eqb y c); [reflexivity|].
  rewrite IH. destruct (index_of c r); reflexivity.
Qed.

(** * slot assignment *)
Lemma list_set_spec i x l : i < length l -> list_set i x l = Some (firstn i l ++ [x] ++ skipn (S i) l).
Proof.
  revert i; induction l as [|y r IH]; simpl; intros i L; [lia|].
  destruct i as [|i]; [reflexivity|]. simpl. rewrite IH by lia. reflexivity.
Qed.

Lemma set_length i (x : nat) l : i < length l -> length (firstn i l ++ [x] ++ skipn (S i) l) = length l.
Proof.
  intro L. rewrite !app_length, firstn_length, skipn_length. simpl. lia.
Qed.

Lemma set_nth i (x : nat) l k d : i < length l ->
  nth k (firstn i l ++ [x] ++ skipn (S i) l) d = if Nat.eqb k i then x else nth k l d.
Proof.
  intro L. destruct (Nat.eqb_spec k i) as [->|NE].
  - rewrite app_nth2; rewrite firstn_length, Nat.min_l by lia; [|lia].
    rewrite Nat.sub_diag. reflexivity.
  - destruct (Nat.lt_ge_cases k i) as [LT|GE].
    + rewrite app_nth1 by (rewrite firstn_length; lia).
      rewrite <- (firstn_skipn i l) at 2. rewrite app_nth1 by (rewrite firstn_length; lia). reflexivity.
    + rewrite app_nth2; rewrite firstn_length, Nat.min_l by lia; [|lia].
      assert (K : k - i = S (k - S i)) by lia. rewrite K. simpl.
      rewrite <- (firstn_skipn (S i) l) at 2.
      rewrite app_nth2; rewrite firstn_length, Nat.min_l by lia; [|lia]. reflexivity.
Qed.

(** * swap *)
Lemma swap_at_length i j l : length (swap_at i j l) = length l.
Proof. unfold swap_at. rewrite map_length, seq_length. reflexivity. Qed.

Lemma nth_map_lt {A B} (f : A -> B) l k d d' : k < length l -> nth k (map f l) d = f (nth k l d').
Proof.
  revert k; induction l as [|a l IH]; simpl; intros k L; [lia|].
  destruct k; [reflexivity|]. apply IH. lia.
Qed.

Lemma swap_at_nth i j l k d : i < length l -> j < length l -> k < length l ->
  nth k (swap_at i j l) d = nth (if Nat.eqb k i then j else if Nat.eqb k j then i else k) l d.
Proof.
  intros Li Lj Lk. unfold swap_at.
  rewrite (nth_map_lt _ _ k d 0) by (rewrite seq_length; exact Lk).
  rewrite seq_nth by exact Lk. simpl.
  apply nth_indep. destruct (Nat.eqb k i); [exact Lj|]. destruct (Nat.eqb k j); assumption.
Qed.

Lemma swap_slots_spec i j l : i < length l -> j < length l -> swap_slots i j l = Some (swap_at i j l).
Proof.
  intros Li Lj. unfold swap_slots.
  rewrite (nth_error_nth' l 0 Lj), (nth_error_nth' l 0 Li).
  rewrite (list_set_spec i _ l Li).
  rewrite list_set_spec by (rewrite set_length; assumption).
  f_equal. apply (nth_ext _ _ 0 0).
  - rewrite set_length by (rewrite set_length; assumption). rewrite set_length by assumption.
    symmetry; apply swap_at_length.
  - intros k Lk. rewrite set_length in Lk by (rewrite set_length; assumption). rewrite set_length in Lk by assumption.
    rewrite set_nth by (rewrite set_length; assumption). rewrite set_nth by assumption.
    rewrite swap_at_nth by assumption.
    destruct (Nat.eqb_spec k j) as [EJ|NJ]; destruct (Nat.eqb_spec k i) as [EI|NI]; subst; auto.
Qed.

(** * sibling scans *)
Lemma skipn_cons_nth (L : list nat) j y r d : skipn j L = y :: r -> nth j L d = y /\ skipn (S j) L = r.
Proof.
  revert L; induction j as [|j IH]; intros [|a L]; simpl; intro H; try discriminate.
  - inversion H; auto.
  - apply IH in H. exact H.
Qed.

Lemma scan_right_spec nm t (L : list nat) : forall l' j, skipn j L = l' ->
  scan_right nm t l' j = find (fun k => Nat.eqb (nm (nth k L 0)) t) (seq j (length l')).
Proof.
  induction l' as [|y r IH]; intros j H; simpl; [reflexivity|].
  destruct (skipn_cons_nth L j y r 0 H) as [N S'].
  rewrite N. destruct (Nat.eqb (nm y) t); [reflexivity|]. apply IH. exact S'.
Qed.

Lemma scan_right_sib nm l i :
  scan_right nm (nm (nth i l 0)) (skipn (S i) l) (S i) = sib_right nm l i.
Proof.
  rewrite (scan_right_spec nm _ l _ (S i) eq_refl). rewrite skipn_length. reflexivity.
Qed.

Lemma firstn_S_nth (l : list nat) i d : i < length l -> firstn (S i) l = firstn i l ++ [nth i l d].
Proof.
  revert i; induction l as [|y r IH]; simpl; intros i L; [lia|].
  destruct i as [|i]; [reflexivity|]. simpl. f_equal. apply IH. lia.
Qed.

Lemma scan_left_spec nm t (l : list nat) i : i <= length l ->
  scan_left nm t (rev (firstn i l)) i = find (fun k => Nat.eqb (nm (nth k l 0)) t) (rev (seq 0 i)).
Proof.
  induction i as [|i IH]; intro L; [reflexivity|].
  rewrite (firstn_S_nth l i 0) by lia. rewrite rev_app_distr. simpl rev at 1. simpl app.
  rewrite seq_S, rev_app_distr. simpl.
  destruct (Nat.eqb (nm (nth i l 0)) t); [f_equal; lia|].
  rewrite Nat.sub_0_r. apply IH. lia.
Qed.

Lemma scan_left_sib nm l i : i <= length l ->
  scan_left nm (nm (nth i l 0)) (rev (firstn i l)) i = sib_left nm l i.
Proof. intro L. rewrite scan_left_spec by exact L. reflexivity. Qed.

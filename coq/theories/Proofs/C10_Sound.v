(* Proofs/C10_Sound.v — Prop readings of the decidable C10 checks of Spec/TableWf.v and
   Model/Witness.v: what a [= true] / [= list] table obligation means. Generic in the
   tables; never recompiled when the tables change. *)
From MP Require Import Common.Base.
From MP Require Import Model.Rule.
From MP Require Import Model.RuleRun.
From MP Require Import Spec.Attr.
From MP Require Import Spec.Lang.
From MP Require Import Spec.TableWf.
From MP Require Import Model.Witness.
From MP Require Import Proofs.SpecInd.

(** ** rules_exist *)
Lemma rules_exist_reading tb :
  rules_exist tb = true ->
  forall n rn, In (n, rn) (tb_node_map tb) -> exists r, assoc rn (tb_rules tb) = Some r.
Proof.
  unfold rules_exist. intros H n rn HIn.
  rewrite forallb_forall in H. specialize (H _ HIn). simpl in H.
  apply smem_In in H.
  destruct (assoc rn (tb_rules tb)) as [r|] eqn:E.
  - exists r; reflexivity.
  - apply assoc_None_keys in E. contradiction.
Qed.

(** ** wf_rule *)
Lemma le_hib_reading k hi : le_hib k hi = true <-> le_hi k hi.
Proof. destruct hi as [h|]; simpl; [apply Nat.leb_le | tauto]. Qed.

Lemma bounds_ok_sub sp :
  bounds_ok sp = true ->
  forall t, sub t sp ->
    match t with
    | El _ lo hi => le_hi lo hi
    | Cho _ lo hi => le_hi lo hi
    | Seq _ => True
    end.
Proof.
  induction sp as [n lo hi | items IH | alts lo hi IH] using spec_ind2; intros B t S.
  - inversion S; subst. simpl in B. apply le_hib_reading, B.
  - inversion S as [| ? i ? Hi St |]; subst; [exact I|].
    simpl in B. rewrite forallb_forall in B. rewrite Forall_forall in IH.
    apply (IH i Hi (B i Hi) t St).
  - simpl in B. apply andb_true_iff in B as [B1 B2].
    inversion S as [| | ? a ? ? ? Ha St]; subst.
    + apply le_hib_reading, B1.
    + rewrite forallb_forall in B2. rewrite Forall_forall in IH.
      apply (IH a Ha (B2 a Ha) t St).
Qed.

Lemma wf_rule_reading impl r :
  wf_rule impl r = true ->
  wf_attrs (rr_attrs r) = true /\
  (exists top, parse_children (rr_children r) = Some top /\
     match top with
     | None => True
     | Some sp => no_seq_in_seq sp = true /\
                  forall t, sub t sp -> match t with
                                        | El _ lo hi | Cho _ lo hi => le_hi lo hi
                                        | Seq _ => True
                                        end
     end) /\
  (forall c, In c (rr_content_rules r) -> In c impl).
Proof.
  unfold wf_rule, wf_children. intro H.
  apply andb_true_iff in H as [H H3]. apply andb_true_iff in H as [H1 H2].
  split; [exact H1|]. split.
  - destruct (parse_children (rr_children r)) as [[sp|]|]; try discriminate.
    + exists (Some sp). split; [reflexivity|].
      apply andb_true_iff in H2 as [A B]. split; [exact A|].
      apply bounds_ok_sub, B.
    + exists None. split; [reflexivity | exact I].
  - intros c Hc. rewrite forallb_forall in H3. apply smem_In, H3, Hc.
Qed.

Lemma all_rules_wf_reading impl tb :
  all_rules_wf impl tb = true ->
  forall rn r, In (rn, r) (tb_rules tb) -> wf_rule impl r = true.
Proof.
  unfold all_rules_wf. intros H rn r HIn. rewrite forallb_forall in H. apply (H _ HIn).
Qed.

(** ** gaps *)
Lemma In_insert_sorted y x l : In y (insert_sorted x l) <-> y = x \/ In y l.
Proof.
  induction l as [|z r IH]; simpl.
  - split; intros [E|[]]; auto.
  - destruct (pystr_eqb_reflect x z) as [->|NE].
    + simpl. split; [tauto|]. intros [->|H]; auto.
    + destruct (pystr_leb x z); simpl.
      * split; intros [E|H]; auto.
      * rewrite IH. split; intros [E|[E|H]]; auto.
Qed.

Lemma In_sort_set y l : In y (sort_set l) <-> In y l.
Proof.
  unfold sort_set. induction l as [|x r IH]; simpl; [tauto|].
  rewrite In_insert_sorted, IH. split; intros [E|H]; auto.
Qed.

(** [permits tb c]: some element name maps to a rule whose children section names [c] *)
Definition permits (tb : tables) (c : pystr) : Prop :=
  exists n rn r top,
    In (n, rn) (tb_node_map tb) /\ assoc rn (tb_rules tb) = Some r /\
    parse_children (rr_children r) = Some top /\ In c (names_of_top top).

Lemma permitted_children_reading tb c :
  In c (permitted_children tb) <-> permits tb c.
Proof.
  unfold permitted_children, permits. rewrite in_flat_map. split.
  - intros [[n rn] [HIn Hc]]. simpl in Hc.
    destruct (assoc rn (tb_rules tb)) as [r|] eqn:E; [|destruct Hc].
    unfold rule_child_names in Hc.
    destruct (parse_children (rr_children r)) as [top|] eqn:P; [|destruct Hc].
    exists n, rn, r, top. auto.
  - intros (n & rn & r & top & HIn & E & P & Hc).
    exists (n, rn). split; [exact HIn|]. simpl. rewrite E. unfold rule_child_names. rewrite P. exact Hc.
Qed.

(** the gap list is exactly the set of permitted child names that are not element names *)
Theorem gaps_reading tb c :
  In c (gaps tb) <-> permits tb c /\ ~ In c (keys (tb_node_map tb)).
Proof.
  unfold gaps. rewrite In_sort_set, filter_In, permitted_children_reading, negb_true_iff, smem_false.
  tauto.
Qed.

(** so: once the gap list is known, every other permitted child is a known element *)
Corollary gaps_closed tb g :
  gaps tb = g ->
  forall c, permits tb c -> ~ In c g -> In c (keys (tb_node_map tb)).
Proof.
  intros <- c Hp Hn.
  destruct (smem c (keys (tb_node_map tb))) eqn:E; [apply smem_In, E|].
  exfalso. apply Hn, gaps_reading. split; [exact Hp | apply smem_false, E].
Qed.

(** ** witness *)
Theorem witness_reading orc tb fuel :
  witness_bad orc tb fuel = [] ->
  forall n, In n (keys (tb_node_map tb)) ->
    exists t, t_name t = n /\ validate_tree orc tb t = Errs [].
Proof.
  unfold witness_bad. intros H n Hn.
  set (f := fun n : pystr => match assoc n (min_trees tb fuel) with
                     | Some t => negb (pystr_eqb (t_name t) n && res_ok (validate_tree orc tb t))
                     | None => true
                     end) in H.
  assert (F : f n = false).
  { destruct (f n) eqn:E; [|reflexivity].
    assert (In n []) as []. rewrite <- H. apply filter_In. split; assumption. }
  unfold f in F.
  destruct (assoc n (min_trees tb fuel)) as [t|]; [|discriminate].
  apply negb_false_iff, andb_true_iff in F as [F1 F2].
  exists t. split; [apply pystr_eqb_eq, F1|].
  unfold res_ok in F2. destruct (validate_tree orc tb t) as [[|e l]|]; try discriminate. reflexivity.
Qed.

(* Proofs/C09_Total.v — under the invariant, in a universe of n nodes, fuel n+1 is enough:
   get_ancestry terminates and the recursive queries see the whole tree. *)
From MP Require Import Common.Base.
From MP Require Import Model.Edits.
From MP Require Import Spec.ListModel.
From MP Require Import Proofs.C09_Lists.
From MP Require Import Proofs.C09_Refine.
From MP Require Import Proofs.C09_Inv.
From MP Require Import Proofs.C09_Queries.

(** every node that lists or is listed lies in the universe *)
Definition bounded (n : nat) (s : st) : Prop := forall p c, In c (kids s p) -> p < n /\ c < n.

Lemma nodup_bounded_length (l : list nat) n : NoDup l -> (forall x, In x l -> x < n) -> length l <= n.
Proof.
  intros N B. rewrite <- (seq_length n 0). apply NoDup_incl_length; [exact N|].
  intros x I. apply in_seq. specialize (B x I). lia.
Qed.

(** * chains of parent links *)
Inductive pchain (s : st) : nat -> list nat -> Prop :=
| pc_nil i : pchain s i []
| pc_cons i p l : parent s i = Some p -> pchain s p l -> pchain s i (p :: l).

Lemma ancestry_none s : forall fuel i acc, ancestry fuel s i acc = None ->
  exists l, pchain s i l /\ length l = fuel.
Proof.
  induction fuel as [|f IH]; intros i acc; simpl.
  - intros _. exists []. split; [constructor | reflexivity].
  - destruct (parent s i) as [p|] eqn:E; [|discriminate].
    intro H. apply IH in H as [l [C L]]. exists (p :: l). split; [econstructor; eauto | simpl; lia].
Qed.

Lemma pchain_desc s : Inv s -> forall i l, pchain s i l -> forall x, In x l -> desc s x i.
Proof.
  intros I i l C. induction C as [i | i p l E C IH]; intros x X; [contradiction|].
  apply (inv_listed s I) in E. destruct X as [<-|X].
  - apply desc_kid; exact E.
  - eapply desc_trans; [apply IH; exact X | apply desc_kid; exact E].
Qed.

Lemma pchain_nodup s : Inv s -> forall i l, pchain s i l -> NoDup l.
Proof.
  intros I i l C. induction C as [i | i p l E C IH]; constructor; [|exact IH].
  intro X. apply (pchain_desc s I p l C) in X. exact (inv_acyclic s I p X).
Qed.

Lemma pchain_bounded s n : Inv s -> bounded n s -> forall i l, pchain s i l -> forall x, In x l -> x < n.
Proof.
  intros I B i l C. induction C as [i | i p l E C IH]; intros x X; [contradiction|].
  destruct X as [<-|X]; [|apply IH; exact X].
  apply (inv_listed s I) in E. apply B in E. tauto.
Qed.

Theorem ancestry_total s n i : Inv s -> bounded n s ->
  exists l, get_ancestry (S n) s i = Some l /\ is_ancestry s i l.
Proof.
  intros I B. destruct (get_ancestry (S n) s i) as [l|] eqn:E.
  - exists l. split; [reflexivity | eapply get_ancestry_spec; eauto].
  - exfalso. unfold get_ancestry in E. apply ancestry_none in E as [l [C L]].
    assert (length l <= n).
    { apply nodup_bounded_length; [eapply pchain_nodup; eauto | eapply pchain_bounded; eauto]. }
    lia.
Qed.

(** * chains of child links *)
Inductive kchain (s : st) : nat -> list nat -> Prop :=
| kc_nil i : kchain s i []
| kc_cons i c l : In c (kids s i) -> kchain s c l -> kchain s i (c :: l).

Lemma reify_none s : forall fuel i, reify fuel s i = None -> exists l, kchain s i l /\ length l = fuel.
Proof.
  induction fuel as [|f IH]; intros i; simpl.
  - intros _. exists []. split; [constructor | reflexivity].
  - set (go := fix go (l : list nat) : option (list rtree) :=
           match l with
           | [] => Some []
           | c :: r => match reify f s c, go r with
                       | Some t, Some ts => Some (t :: ts)
                       | _, _ => None
                       end
           end).
    assert (G : forall l, go l = None -> exists c, In c l /\ reify f s c = None).
    { induction l as [|c r IHl]; simpl; [discriminate|].
      destruct (reify f s c) as [t|] eqn:R.
      - destruct (go r) as [ts|] eqn:Gr; [discriminate|]. intros _.
        destruct (IHl eq_refl) as [c' [I' R']]. exists c'. auto.
      - intros _. exists c. auto. }
    destruct (go (kids s i)) as [ks|] eqn:E; [discriminate|]. intros _.
    destruct (G _ E) as [c [Ic Rc]]. apply IH in Rc as [l [C L]].
    exists (c :: l). split; [econstructor; eauto | simpl; lia].
Qed.

Lemma kchain_desc s : forall i l, kchain s i l -> forall x, In x l -> desc s i x.
Proof.
  intros i l C. induction C as [i | i c l E C IH]; intros x X; [contradiction|].
  destruct X as [<-|X]; [apply desc_kid; exact E|].
  eapply desc_step; [exact E | apply IH; exact X].
Qed.

Lemma kchain_nodup s : Inv s -> forall i l, kchain s i l -> NoDup l.
Proof.
  intros I i l C. induction C as [i | i c l E C IH]; constructor; [|exact IH].
  intro X. apply (kchain_desc s c l C) in X. exact (inv_acyclic s I c X).
Qed.

Lemma kchain_bounded s n : bounded n s -> forall i l, kchain s i l -> forall x, In x l -> x < n.
Proof.
  intros B i l C. induction C as [i | i c l E C IH]; intros x X; [contradiction|].
  destruct X as [<-|X]; [apply B in E; tauto | apply IH; exact X].
Qed.

Theorem reify_total s n i : Inv s -> bounded n s -> exists t, reify (S n) s i = Some t /\ tree_of s i t.
Proof.
  intros I B. destruct (reify (S n) s i) as [t|] eqn:E.
  - exists t. split; [reflexivity | eapply reify_sound; eauto].
  - exfalso. apply reify_none in E as [l [C L]].
    assert (length l <= n).
    { apply nodup_bounded_length; [eapply kchain_nodup; eauto | eapply kchain_bounded; eauto]. }
    lia.
Qed.

(** * the universe bound is kept by edits whose operands lie in the universe *)
Definition op_in (n : nat) (o : op) : Prop :=
  match o with
  | AddChild p c _ | RemoveChild p c | Shift p c _ _ => p < n /\ c < n
  | ReplaceChild p old new _ => p < n /\ old < n /\ new < n
  | RemoveChildren p => p < n
  end.

Lemma incl_removed (l : list nat) i x : In x (firstn i l ++ skipn (S i) l) -> In x l.
Proof.
  intro H. apply in_app_or in H as [H|H].
  - rewrite <- (firstn_skipn i l). apply in_or_app; left; exact H.
  - rewrite <- (firstn_skipn (S i) l). apply in_or_app; right; exact H.
Qed.

Lemma incl_replaced (l : list nat) i new x : In x (firstn i l ++ [new] ++ skipn (S i) l) -> x = new \/ In x l.
Proof.
  intro H. apply in_app_or in H as [H|H].
  - right. rewrite <- (firstn_skipn i l). apply in_or_app; left; exact H.
  - destruct H as [<-|H]; [left; reflexivity|].
    right. rewrite <- (firstn_skipn (S i) l). apply in_or_app; right; exact H.
Qed.

Theorem c09_bounded fuel n o s : bounded n s -> op_in n o -> bounded n (fst (exec fuel o s)).
Proof.
  intros B O p0 c0. pose proof (c09_refines fuel o s) as R.
  destruct (step (name s) o (kids s)) as [[ks' r]|] eqn:E.
  - destruct R as [K _]. rewrite K. clear K. revert E. unfold step.
    destruct (step_list (name s) o (kids s (target o))) as [l' r'|] eqn:SL; [|discriminate].
    intros [= <- <-]. destruct (Nat.eqb_spec p0 (target o)) as [->|NP]; [|apply B].
    intro H.
    assert (G : In c0 (kids s (target o)) \/ (target o < n /\ c0 < n)).
    { destruct o as [p c idx | p c | p old new del | p c d sib | p]; simpl in *.
      - destruct idx as [z|]; inversion SL; subst; clear SL.
        + apply in_insert in H. destruct H as [->|H]; [right; tauto | left; exact H].
        + apply in_app_or in H as [H|[<-|[]]]; [left; exact H | right; tauto].
      - destruct (pos c (kids s p)); inversion SL; subst. left. eapply incl_removed; eauto.
      - destruct (Nat.eqb (name s new) (name s old)); [|discriminate].
        destruct (pos old (kids s p)); inversion SL; subst.
        apply incl_replaced in H. destruct H as [->|H]; [right; tauto | left; exact H].
      - destruct (pos c (kids s p)) as [i|] eqn:P; [|discriminate].
        rewrite <- index_of_pos in P. destruct (index_of_Some _ _ _ P) as [L _].
        fold (spec_target (name s) (kids s p) i d sib) in SL.
        destruct (spec_target (name s) (kids s p) i d sib) as [j|] eqn:T; inversion SL; subst; [|left; exact H].
        left. apply in_swap_at in H; auto. eapply spec_target_lt; eauto.
      - inversion SL; subst. contradiction. }
    destruct G as [G|G]; [apply B; exact G | exact G].
  - rewrite R. simpl. apply B.
Qed.

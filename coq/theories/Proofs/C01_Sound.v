(* Proofs/C01_Sound.v — soundness of the children matcher: if it consumes a prefix without
   emitting an error, that prefix is in the STRICT language L of the spec (hence in Llen).
   Needs only lo <= hi for rule children (used by the limit_max early return). *)
From MP Require Import Common.Base Model.Rule Spec.Lang Spec.GreedyOk Proofs.C01_Total Proofs.C01_Lang.

(** every rule child has lo <= hi *)
Fixpoint lohi_ok (sp : spec) : bool :=
  match sp with
  | El _ lo hi => le_hi_b lo hi
  | Seq items => forallb lohi_ok items
  | Cho alts _ _ => forallb lohi_ok alts
  end.

Lemma le_hi_b_spec k hi : le_hi_b k hi = true <-> le_hi k hi.
Proof.
  destruct hi as [h|]; simpl; [apply Nat.leb_le | tauto].
Qed.

Lemma shape_ok_lohi : forall sp, shape_ok sp = true -> lohi_ok sp = true.
Proof.
  induction sp as [n lo hi|items IH|alts lo hi IH] using spec_ind'; simpl; intro H.
  - apply andb_true_iff in H as [H _]. exact H.
  - apply andb_true_iff in H as [_ H]. rewrite forallb_forall in *. intros i Hi.
    specialize (H i Hi). apply andb_true_iff in H as [_ H].
    rewrite Forall_forall in IH. apply IH; assumption.
  - repeat (apply andb_true_iff in H as [H ?]).
    rewrite forallb_forall in *. intros a Ha. rewrite Forall_forall in IH. apply IH; auto.
Qed.

Definition sound_step (f : mstate -> option mstate) (Lg : list pystr -> Prop) : Prop :=
  forall w e rest, f (w, e) = Some (rest, e) -> exists u, w = u ++ rest /\ Lg u.

Lemma seq_of_sound mixed f : forall items,
  Forall (fun i => step_ok (f i) (names_of i) /\ sound_step (f i) (L mixed i)) items ->
  forall w e rest, seq_of f items (w, e) = Some (rest, e) ->
  exists ws, LSeq mixed items ws /\ w = concat ws ++ rest.
Proof.
  induction items as [|i r IH]; intros HF w e rest H.
  - simpl in H. injection H as ->. exists []. split; [constructor | reflexivity].
  - inversion HF as [|? ? [Si Hi] Hr]; subst.
    destruct (Si w e) as (u1 & rest1 & new1 & E1 & W1 & _ & _ & _).
    simpl in H. rewrite E1 in H.
    assert (Forall (fun i => step_ok (f i) (names_of i)) r) as Hr'.
    { eapply Forall_impl; [|exact Hr]. intros a [A _]. exact A. }
    destruct (seq_of_shape f r Hr' rest1 (e ++ new1)) as (u2 & rest2 & new2 & E2 & _).
    rewrite E2 in H. injection H as -> He.
    rewrite <- app_assoc in He. apply app_eq_self in He. apply app_eq_nil in He as [-> ->].
    rewrite ?app_nil_r in *.
    destruct (Hi w e rest1 E1) as (u & Wu & Lu).
    destruct (IH Hr rest1 e rest E2) as (ws & Lws & Wws).
    exists (u :: ws). split; [constructor; assumption|].
    simpl. rewrite <- app_assoc, <- Wws. exact Wu.
Qed.

Lemma pass_of_sound mixed f alts : forall l,
  incl l alts ->
  Forall (fun a => step_ok (f a) (names_of a) /\ sound_step (f a) (L mixed a)) l ->
  forall w e occ rest occ', pass_of f l (w, e) occ = Some ((rest, e), occ') ->
  exists ws, LOccs mixed alts ws /\ w = concat ws ++ rest /\ occ' = occ + length ws.
Proof.
  induction l as [|a r IH]; intros Hin HF w e occ rest occ' H.
  - simpl in H. injection H as -> ->. exists []. split; [apply LOccs_nil | split; [reflexivity | simpl; lia]].
  - inversion HF as [|? ? [Sa Ha] Hr]; subst.
    assert (incl r alts) as Hin' by (intros x Hx; apply Hin; right; exact Hx).
    simpl in H. destruct w as [|x w].
    + simpl in H. injection H as -> ->. exists []. split; [apply LOccs_nil | split; [reflexivity | simpl; lia]].
    + simpl is_nil in H. cbv iota in H.
      destruct (head_in (x :: w) (names_of a)) eqn:Hd.
      * destruct (Sa (x :: w) e) as (u1 & rest1 & new1 & E1 & W1 & P1 & _ & _).
        rewrite E1 in H.
        assert (Forall (fun a => step_ok (f a) (names_of a)) r) as Hr'.
        { eapply Forall_impl; [|exact Hr]. intros b [A _]. exact A. }
        destruct (pass_of_shape f r Hr' rest1 (e ++ new1) (S occ)) as (u2 & rest2 & new2 & c2 & E2 & _).
        rewrite E2 in H. injection H as -> He Hocc.
        rewrite <- app_assoc in He. apply app_eq_self in He. apply app_eq_nil in He as [-> ->].
        rewrite ?app_nil_r in *.
        destruct (Ha _ _ _ E1) as (u & Wu & Lu).
        assert (u <> []) as Hne.
        { rewrite W1 in Wu. apply app_inv_tail in Wu. subst u. apply P1. exact Hd. }
        destruct (IH Hin' Hr rest1 e (S occ) rest (S occ + c2) E2) as (ws & Lws & Wws & Hc).
        exists (u :: ws). split; [|split].
        -- apply LOccs_cons; [exact Hne | | exact Lws].
           eapply LAlt_in; [apply Hin; left; reflexivity | exact Lu].
        -- simpl. rewrite <- app_assoc, <- Wws. exact Wu.
        -- simpl. lia.
      * apply (IH Hin' Hr _ _ _ _ _ H).
Qed.

Lemma loop_errs_extend p ns : pass_ok p ns ->
  forall fuel w e occ rest e' occ', loop_of p ns fuel (w, e) occ = Some ((rest, e'), occ') ->
  exists new, e' = e ++ new.
Proof.
  intros HP. induction fuel as [|f IH]; intros w e occ rest e' occ' H; [discriminate|].
  simpl in H. destruct (head_in w ns).
  - destruct (HP w e occ) as (u1 & rest1 & new1 & c1 & E1 & _). rewrite E1 in H.
    destruct (IH _ _ _ _ _ _ H) as (new & ->). exists (new1 ++ new). rewrite app_assoc. reflexivity.
  - injection H as -> -> ->. exists []. rewrite app_nil_r. reflexivity.
Qed.

Lemma loop_of_sound mixed p ns alts :
  pass_ok p ns ->
  (forall w e occ rest occ', p (w, e) occ = Some ((rest, e), occ') ->
     exists ws, LOccs mixed alts ws /\ w = concat ws ++ rest /\ occ' = occ + length ws) ->
  forall fuel w e occ rest occ', loop_of p ns fuel (w, e) occ = Some ((rest, e), occ') ->
  exists ws, LOccs mixed alts ws /\ w = concat ws ++ rest /\ occ' = occ + length ws.
Proof.
  intros HP HS. induction fuel as [|f IH]; intros w e occ rest occ' H; [discriminate|].
  simpl in H. destruct (head_in w ns).
  - destruct (HP w e occ) as (u1 & rest1 & new1 & c1 & E1 & _). rewrite E1 in H.
    destruct (loop_errs_extend p ns HP _ _ _ _ _ _ _ H) as (new & He).
    rewrite <- app_assoc in He. symmetry in He. apply app_eq_self in He. apply app_eq_nil in He as [-> ->].
    rewrite ?app_nil_r in *.
    destruct (HS _ _ _ _ _ E1) as (ws1 & L1 & W1 & C1).
    destruct (IH _ _ _ _ _ H) as (ws2 & L2 & W2 & C2).
    exists (ws1 ++ ws2). split; [apply LOccs_app; assumption|]. split.
    + rewrite concat_app, <- app_assoc, <- W2. exact W1.
    + rewrite app_length. lia.
  - injection H as -> ->. exists []. split; [apply LOccs_nil | split; [reflexivity | simpl; lia]].
Qed.

Theorem m_spec_sound mixed : forall sp, lohi_ok sp = true ->
  forall lm, sound_step (m_spec mixed sp lm) (L mixed sp).
Proof.
  induction sp as [n lo hi|items IH|alts lo hi IH] using spec_ind'; intros Hok lm w e rest H.
  - rewrite m_spec_El in H. simpl in H, Hok.
    destruct (rule_child_shape n lo hi lm w 0 e) as (k & rest' & new & E & W & _ & _ & _ & S).
    rewrite E in H. injection H as -> He. apply app_eq_self in He.
    apply le_hi_b_spec in Hok.
    assert (le_hi 0 hi) as L0 by (destruct hi; simpl; [lia | exact I]).
    destruct (S He L0 Hok) as [A B]. simpl in A, B.
    exists (repeat n k). split; [exact W | apply L_El; assumption].
  - rewrite m_spec_Seq in H. simpl in Hok. rewrite forallb_forall in Hok.
    assert (Forall (fun i => step_ok (m_spec mixed i false) (names_of i) /\
                             sound_step (m_spec mixed i false) (L mixed i)) items) as HF.
    { rewrite Forall_forall in *. intros i Hi. split; [apply m_spec_shape | apply IH; auto]. }
    destruct (seq_of_sound mixed _ items HF w e rest H) as (ws & Lws & W).
    exists (concat ws). split; [exact W | apply L_Seq; exact Lws].
  - rewrite m_spec_Cho in H. simpl in Hok. rewrite forallb_forall in Hok.
    set (p := pass_of (fun a => m_spec mixed a true) alts) in *.
    assert (Forall (fun a => step_ok (m_spec mixed a true) (names_of a) /\
                             sound_step (m_spec mixed a true) (L mixed a)) alts) as HF.
    { rewrite Forall_forall in *. intros i Hi. split; [apply m_spec_shape | apply IH; auto]. }
    assert (pass_ok p (alt_names alts)) as HP.
    { apply pass_of_shape. eapply Forall_impl; [|exact HF]. intros a [A _]. exact A. }
    destruct (loop_of_shape _ _ HP (S (length w)) w e 0 (Nat.lt_succ_diag_r _))
      as (u & rest' & new & c & E & _).
    simpl fst in H. rewrite E in H. simpl in H. injection H as -> He.
    rewrite <- app_assoc in He. apply app_eq_self in He.
    apply app_eq_nil in He as [-> He]. apply app_eq_nil in He as [He1 He2].
    rewrite app_nil_r in E.
    destruct (loop_of_sound mixed p (alt_names alts) alts HP
                (pass_of_sound mixed _ alts alts (incl_refl _) HF) _ _ _ _ _ _ E)
      as (ws & Lws & W & C).
    simpl in C. subst c.
    exists (concat ws). split; [exact W|]. apply L_Cho; [exact Lws | |].
    + destruct mixed; [left; reflexivity|]. right.
      destruct (Nat.ltb (length ws) lo) eqn:X; [discriminate|]. apply Nat.ltb_ge in X. exact X.
    + destruct hi as [h|]; simpl in *; [|exact I].
      destruct (Nat.ltb h (length ws)) eqn:X; [discriminate|]. apply Nat.ltb_ge in X. exact X.
Qed.

Corollary m_spec_sound_Llen mixed sp lm : lohi_ok sp = true ->
  sound_step (m_spec mixed sp lm) (Llen mixed sp).
Proof.
  intros Hok w e rest H. destruct (m_spec_sound mixed sp Hok lm w e rest H) as (u & W & Lu).
  exists u. split; [exact W | apply L_Llen; exact Lu].
Qed.

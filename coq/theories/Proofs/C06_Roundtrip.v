(* Proofs/C06_Roundtrip.v — load (serialize t) = Ok t, the legacy codec, the upgrade. *)
From MP Require Import Common.Base Common.Tree Model.Json Spec.JsonSpec Proofs.C06_Dict.

(** * Positional access on the documents the serialisers write *)
Section Slots.
  Variables v0 v1 v2 v3 v4 v5 v6 v7 : json.
  Definition body8 : json :=
    JArr [one K_id v0; one K_nsmap v1; one K_prefix v2; one K_attributes v3; one K_extras v4;
          one K_content v5; one K_tail v6; one K_children v7].
  Lemma slot8_0 : slot body8 0 K_id = Ok v0. Proof. reflexivity. Qed.
  Lemma slot8_1 : slot body8 1 K_nsmap = Ok v1. Proof. reflexivity. Qed.
  Lemma slot8_2 : slot body8 2 K_prefix = Ok v2. Proof. reflexivity. Qed.
  Lemma slot8_3 : slot body8 3 K_attributes = Ok v3. Proof. reflexivity. Qed.
  Lemma slot8_4 : slot body8 4 K_extras = Ok v4. Proof. reflexivity. Qed.
  Lemma slot8_5 : slot body8 5 K_content = Ok v5. Proof. reflexivity. Qed.
  Lemma slot8_6 : slot body8 6 K_tail = Ok v6. Proof. reflexivity. Qed.
  Lemma slot8_7 : slot body8 7 K_children = Ok v7. Proof. reflexivity. Qed.

  Definition body4 : json :=
    JArr [one K_id v0; one K_attributes v3; one K_content v5; one K_children v7].
  Lemma slot4_0 : slot body4 0 K_id = Ok v0. Proof. reflexivity. Qed.
  Lemma slot4_1 : slot body4 1 K_attributes = Ok v3. Proof. reflexivity. Qed.
  Lemma slot4_2 : slot body4 2 K_content = Ok v5. Proof. reflexivity. Qed.
  Lemma slot4_3 : slot body4 3 K_children = Ok v7. Proof. reflexivity. Qed.
End Slots.

Lemma serialize_eq d kids :
  serialize (FT d kids) =
  JObj [(n_name d, body8 (JStr (n_id d)) (jdict (n_nsmap d)) (jopt (n_prefix d)) (jdict (n_attrs d))
                         (jdict (n_extras d)) (jopt (n_content d)) (jopt (n_tail d))
                         (JArr (map serialize kids)))].
Proof. reflexivity. Qed.

Lemma objectify_eq d kids :
  objectify (FT d kids) =
  JObj [(n_name d, body4 (JStr (n_id d)) (jdict (n_attrs d)) (jopt (n_content d)) (JArr (map objectify kids)))].
Proof. reflexivity. Qed.

(** * One level of the loaders, with the recursive call abstracted *)
Lemma load_f_step fuel name body :
  load_f (S fuel) (JObj [(name, body)]) =
  bind (slot body 0 K_id) (fun jid =>
  bind (id_field jid) (fun id =>
  let n0 := FT (new_node name id) [] in
  bind (slot body 1 K_nsmap) (fun jns =>
  bind (for_items add_namespace jns n0) (fun n1 =>
  bind (slot body 2 K_prefix) (fun jp =>
  bind (opt_str_field set_prefix jp n1) (fun n2 =>
  bind (slot body 3 K_attributes) (fun ja =>
  bind (for_items add_attribute ja n2) (fun n3 =>
  bind (slot body 4 K_extras) (fun je =>
  bind (for_items add_extras je n3) (fun n4 =>
  bind (slot body 5 K_content) (fun jc =>
  bind (content_field jc n4) (fun n5 =>
  bind (slot body 6 K_tail) (fun jt =>
  bind (opt_str_field set_tail jt n5) (fun n6 =>
  bind (slot body 7 K_children) (fun jk =>
  bind (iter_children jk) (fun kids =>
  load_kids (load_f fuel) kids n6)))))))))))))))).
Proof. reflexivity. Qed.

Lemma legacy_load_f_step fuel name body :
  legacy_load_f (S fuel) (JObj [(name, body)]) =
  bind (slot body 0 K_id) (fun jid =>
  bind (id_field jid) (fun id =>
  let n0 := FT (new_node name id) [] in
  bind (slot body 1 K_attributes) (fun ja =>
  bind (for_items add_attribute ja n0) (fun n1 =>
  bind (slot body 2 K_content) (fun jc =>
  bind (content_field jc n1) (fun n2 =>
  bind (slot body 3 K_children) (fun jk =>
  bind (iter_children jk) (fun kids =>
  load_kids (legacy_load_f fuel) kids n2)))))))).
Proof. reflexivity. Qed.

(** * The field loops on the node under construction *)
Lemma ns_loop name id m :
  NoDup (keys m) ->
  for_items add_namespace (jdict m) (FT (new_node name id) []) = Ok (FT (set_nsmap (new_node name id) m) []).
Proof.
  intro ND.
  apply (for_items_jdict add_namespace (fun done => FT (set_nsmap (new_node name id) done) []) m); [|exact ND].
  intros done k v NI. cbn [add_namespace map n_nsmap set_nsmap].
  rewrite bound_to_fresh by exact NI. rewrite dict_set_fresh by exact NI. reflexivity.
Qed.

Lemma attr_loop d kids m :
  n_attrs d = [] -> NoDup (keys m) ->
  for_items add_attribute (jdict m) (FT d kids) = Ok (FT (set_attrs d m) kids).
Proof.
  intros E ND.
  replace d with (set_attrs d []) at 1 by (destruct d; cbn in E; subst; reflexivity).
  apply (for_items_jdict add_attribute (fun done => FT (set_attrs d done) kids) m); [|exact ND].
  intros done k v NI. cbn [add_attribute on_d n_attrs set_attrs].
  rewrite dict_set_fresh by exact NI. reflexivity.
Qed.

Lemma extras_loop d kids m :
  n_extras d = [] -> NoDup (keys m) ->
  for_items add_extras (jdict m) (FT d kids) = Ok (FT (set_extras d m) kids).
Proof.
  intros E ND.
  replace d with (set_extras d []) at 1 by (destruct d; cbn in E; subst; reflexivity).
  apply (for_items_jdict add_extras (fun done => FT (set_extras d done) kids) m); [|exact ND].
  intros done k v NI. cbn [add_extras on_d n_extras set_extras].
  rewrite dict_set_fresh by exact NI. reflexivity.
Qed.

Lemma opt_field_jopt setf o d kids :
  opt_str_field setf (jopt o) (FT d kids) = Ok (FT (match o with Some x => setf d (Some x) | None => d end) kids).
Proof. destruct o; reflexivity. Qed.

Lemma content_jopt o d kids :
  content_field (jopt o) (FT d kids) = Ok (FT (match o with Some x => set_content d (Some x) | None => d end) kids).
Proof. destruct o; reflexivity. Qed.

(** * Heights *)
Lemma kid_height_le d kids fuel c :
  theight (FT d kids) <= S fuel -> In c kids -> theight c <= fuel.
Proof.
  cbn [theight]. intros H HI.
  pose proof (fold_max_ge theight kids c HI). lia.
Qed.

(** * The round trip at any sufficient fuel *)
Theorem load_f_serialize :
  forall t, tree_ok t -> ns_closed t ->
  forall fuel, theight t <= fuel -> load_f fuel (serialize t) = Ok t.
Proof.
  induction t as [d kids IH] using ftree_ind'.
  intros OK NC fuel HF.
  inversion OK as [? ? [NDa [NDe NDn]] OKk]; subst.
  inversion NC as [? ? INC NCk]; subst.
  destruct fuel as [|fuel]; [cbn [theight] in HF; lia|].
  rewrite serialize_eq, load_f_step.
  rewrite slot8_0. cbn [bind id_field].
  rewrite slot8_1. cbn [bind].
  rewrite ns_loop by exact NDn. cbn [bind].
  rewrite slot8_2. cbn [bind].
  rewrite opt_field_jopt. cbn [bind].
  rewrite slot8_3. cbn [bind].
  destruct d as [id name content tail prefix attrs extras nsmap]; cbn [n_id n_name n_content n_tail n_prefix n_attrs n_extras n_nsmap] in *.
  rewrite attr_loop by (try exact NDa; destruct prefix; reflexivity). cbn [bind].
  rewrite slot8_4. cbn [bind].
  rewrite extras_loop by (try exact NDe; destruct prefix; reflexivity). cbn [bind].
  rewrite slot8_5. cbn [bind].
  rewrite content_jopt. cbn [bind].
  rewrite slot8_6. cbn [bind].
  rewrite opt_field_jopt. cbn [bind].
  rewrite slot8_7. cbn [bind iter_children].
  match goal with |- load_kids _ _ (FT ?x []) = _ =>
    replace x with {| n_id := id; n_name := name; n_content := content; n_tail := tail; n_prefix := prefix;
                      n_attrs := attrs; n_extras := extras; n_nsmap := nsmap |}
      by (destruct prefix, content, tail; reflexivity) end.
  rewrite (load_kids_ok (load_f fuel) serialize _ kids []).
  - reflexivity.
  - rewrite Forall_forall in *. intros c HI.
    apply IH; [exact HI | apply OKk, HI | apply NCk, HI |].
    eapply kid_height_le; eassumption.
  - exact INC.
Qed.

(** enough fuel *)
Lemma jheight_one k v : jheight (one k v) = S (Nat.max (jheight v) 0).
Proof. reflexivity. Qed.

Lemma theight_le_jheight t : theight t <= jheight (serialize t).
Proof.
  induction t as [d kids IH] using ftree_ind'.
  rewrite serialize_eq. cbn [theight].
  pose proof (fold_max_map_le theight jheight serialize kids IH) as H.
  unfold body8. cbn [jheight fold_right snd]. rewrite !jheight_one. cbn [jheight]. lia.
Qed.

Theorem roundtrip t : tree_ok t -> ns_closed t -> load (serialize t) = Ok t.
Proof.
  intros OK NC. unfold load. apply load_f_serialize; [assumption | assumption | apply theight_le_jheight].
Qed.

Corollary reserialize t :
  tree_ok t -> ns_closed t ->
  exists t', load (serialize t) = Ok t' /\ serialize t' = serialize t.
Proof. intros OK NC. exists t. split; [apply roundtrip; assumption | reflexivity]. Qed.

(** * Legacy codec *)
Lemma legacy_view_d d kids :
  legacy_view (FT d kids) =
  FT {| n_id := n_id d; n_name := n_name d; n_content := n_content d; n_tail := None;
        n_prefix := None; n_attrs := n_attrs d; n_extras := []; n_nsmap := [] |} (map legacy_view kids).
Proof. reflexivity. Qed.

Lemma load_kids_legacy (ld : json -> result ftree) d :
  n_nsmap d = [] ->
  forall todo done,
    Forall (fun c => ld (objectify c) = Ok (legacy_view c)) todo ->
    load_kids ld (map objectify todo) (FT d done) = Ok (FT d (done ++ map legacy_view todo)).
Proof.
  intros Hd. induction todo as [|c r IH]; intros done HL; cbn [map load_kids].
  - rewrite app_nil_r. reflexivity.
  - inversion HL as [|? ? Hc HL']; subst.
    rewrite Hc. cbn [bind]. rewrite add_child_closed.
    + rewrite IH by assumption. rewrite <- app_assoc. reflexivity.
    + rewrite Hd. intros x [].
Qed.

Theorem legacy_load_f_objectify :
  forall t, tree_ok t ->
  forall fuel, theight t <= fuel -> legacy_load_f fuel (objectify t) = Ok (legacy_view t).
Proof.
  induction t as [d kids IH] using ftree_ind'.
  intros OK fuel HF.
  inversion OK as [? ? [NDa [NDe NDn]] OKk]; subst.
  destruct fuel as [|fuel]; [cbn [theight] in HF; lia|].
  rewrite objectify_eq, legacy_load_f_step, legacy_view_d.
  rewrite slot4_0. cbn [bind id_field].
  rewrite slot4_1. cbn [bind].
  destruct d as [id name content tail prefix attrs extras nsmap]; cbn [n_id n_name n_content n_tail n_prefix n_attrs n_extras n_nsmap] in *.
  rewrite attr_loop by (try exact NDa; reflexivity). cbn [bind].
  rewrite slot4_2. cbn [bind].
  rewrite content_jopt. cbn [bind].
  rewrite slot4_3. cbn [bind iter_children].
  match goal with |- load_kids _ _ (FT ?x []) = _ =>
    replace x with {| n_id := id; n_name := name; n_content := content; n_tail := None; n_prefix := None;
                      n_attrs := attrs; n_extras := []; n_nsmap := [] |}
      by (destruct content; reflexivity) end.
  rewrite load_kids_legacy.
  - reflexivity.
  - reflexivity.
  - rewrite Forall_forall in *. intros c HI.
    apply IH; [exact HI | apply OKk, HI |].
    eapply kid_height_le; eassumption.
Qed.

Lemma theight_le_jheight_obj t : theight t <= jheight (objectify t).
Proof.
  induction t as [d kids IH] using ftree_ind'.
  rewrite objectify_eq. cbn [theight].
  pose proof (fold_max_map_le theight jheight objectify kids IH) as H.
  unfold body4. cbn [jheight fold_right snd]. rewrite !jheight_one. cbn [jheight]. lia.
Qed.

Theorem legacy_roundtrip t : tree_ok t -> legacy_load (objectify t) = Ok (legacy_view t).
Proof.
  intro OK. unfold legacy_load. apply legacy_load_f_objectify; [assumption | apply theight_le_jheight_obj].
Qed.

(** * Upgrade: to_20210209 turns the legacy document of t into the current document of
    t's legacy view *)
Lemma map_result_ok {A B C} (f : B -> result C) (h : A -> B) (g : A -> C) l :
  Forall (fun x => f (h x) = Ok (g x)) l -> map_result f (map h l) = Ok (map g l).
Proof.
  induction 1 as [|x r Hx _ IH]; cbn [map_result map]; [reflexivity|].
  rewrite Hx. cbn [bind]. rewrite IH. reflexivity.
Qed.

Lemma upgrade_f_step fuel name v0 v3 v5 kids :
  upgrade_f (S fuel) (JObj [(name, body4 v0 v3 v5 (JArr kids))]) =
  bind (map_result (upgrade_f fuel) kids) (fun kids' =>
  Ok (JObj [(name, body8 v0 (JObj []) JNull v3 (JObj []) v5 JNull (JArr kids'))])).
Proof.
  cbn [upgrade_f map_result snd fst]. unfold body4.
  cbn [insert_at firstn skipn app].
  change (py_index (JArr [one K_id v0; one K_nsmap (JObj []); one K_prefix JNull; one K_attributes v3;
                          one K_extras (JObj []); one K_content v5; one K_tail JNull; one K_children (JArr kids)]) 7)
    with (Ok (one K_children (JArr kids))).
  cbn [bind].
  change (py_key (one K_children (JArr kids)) K_children) with (Ok (JArr kids)).
  cbn [bind].
  destruct (map_result (upgrade_f fuel) kids) as [kids'| | |]; reflexivity.
Qed.

Theorem upgrade_f_objectify :
  forall t fuel, theight t <= fuel ->
  upgrade_f fuel (objectify t) = Ok (serialize (legacy_view t)).
Proof.
  induction t as [d kids IH] using ftree_ind'.
  intros fuel HF.
  destruct fuel as [|fuel]; [cbn [theight] in HF; lia|].
  rewrite objectify_eq, legacy_view_d, serialize_eq, upgrade_f_step.
  rewrite (map_result_ok (upgrade_f fuel) objectify (fun c => serialize (legacy_view c)) kids).
  - cbn [bind]. rewrite !map_map. reflexivity.
  - rewrite Forall_forall in *. intros c HI.
    apply IH; [exact HI|].
    eapply kid_height_le; eassumption.
Qed.

Theorem upgrade_objectify t : upgrade (objectify t) = Ok (serialize (legacy_view t)).
Proof. unfold upgrade. apply upgrade_f_objectify, theight_le_jheight_obj. Qed.

(** the legacy view of any tree satisfies the round trip's preconditions *)
Lemma legacy_view_ok t : tree_ok t -> tree_ok (legacy_view t).
Proof.
  induction t as [d kids IH] using ftree_ind'. intro OK.
  inversion OK as [? ? [NDa [NDe NDn]] OKk]; subst.
  rewrite legacy_view_d. constructor.
  - repeat split; cbn; try constructor. exact NDa.
  - rewrite Forall_forall in *. intros c HC. apply in_map_iff in HC as [c0 [<- HI]]. apply IH; [exact HI | apply OKk, HI].
Qed.

Lemma legacy_view_closed t : ns_closed (legacy_view t).
Proof.
  induction t as [d kids IH] using ftree_ind'.
  rewrite legacy_view_d. constructor.
  - rewrite Forall_forall. intros c _ x [].
  - rewrite Forall_forall in *. intros c HC. apply in_map_iff in HC as [c0 [<- HI]]. apply IH, HI.
Qed.

Theorem upgrade_roundtrip t :
  tree_ok t ->
  exists j, upgrade (objectify t) = Ok j /\ load j = Ok (legacy_view t).
Proof.
  intro OK. exists (serialize (legacy_view t)). split.
  - apply upgrade_objectify.
  - apply roundtrip; [apply legacy_view_ok, OK | apply legacy_view_closed].
Qed.

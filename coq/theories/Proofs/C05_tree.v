(* Proofs/C05_tree.v — validate.tree (Model/Rule.v: validate_tree) is the in-order
   combination of the per-node validations over the visible pre-order; nothing below a
   metadata element is looked at. Structural induction on rose trees. *)
From MP Require Import Common.Base Model.Rule Spec.TreeVal.

(** * Induction principle for the nested type [tree] *)
Section TreeInd.
  Variable P : tree -> Prop.
  Hypothesis H : forall n c a kids, Forall P kids -> P (T n c a kids).
  Fixpoint tree_ind' (t : tree) : P t :=
    match t with
    | T n c a kids =>
        H n c a kids ((fix go (l : list tree) : Forall P l :=
                         match l with
                         | [] => Forall_nil P
                         | x :: r => Forall_cons x (tree_ind' x) (go r)
                         end) kids)
    end.
End TreeInd.

(** * [res_app] is a monoid; combining a list of results *)
Lemma res_app_nil_l r : res_app (Errs []) r = r.
Proof. destruct r; reflexivity. Qed.

Lemma res_app_nil_r r : res_app r (Errs []) = r.
Proof. destruct r; simpl; [rewrite app_nil_r|]; reflexivity. Qed.

Lemma res_app_assoc a b c : res_app (res_app a b) c = res_app a (res_app b c).
Proof. destruct a, b, c; simpl; rewrite ?app_assoc; reflexivity. Qed.

Definition res_concat (l : list res) : res := fold_right res_app (Errs []) l.

Lemma res_concat_app l1 l2 : res_concat (l1 ++ l2) = res_app (res_concat l1) (res_concat l2).
Proof.
  unfold res_concat. induction l1 as [|x l1 IH]; cbn [app fold_right].
  - symmetry. apply res_app_nil_l.
  - rewrite IH, res_app_assoc. reflexivity.
Qed.

Lemma fold_left_res_app {A} (f : A -> res) kids acc :
  fold_left (fun acc k => res_app acc (f k)) kids acc = res_app acc (res_concat (map f kids)).
Proof.
  unfold res_concat. revert acc. induction kids as [|k kids IH]; intro acc; cbn [fold_left map fold_right].
  - symmetry. apply res_app_nil_r.
  - rewrite IH, res_app_assoc. reflexivity.
Qed.

Definition errs_of (r : res) : list verr := match r with Errs l => l | Crash p _ => p end.
Definition no_crash (r : res) : Prop := exists l, r = Errs l.

Lemma res_concat_no_crash rs : Forall no_crash rs -> res_concat rs = Errs (concat (map errs_of rs)).
Proof.
  induction 1 as [|r rs [l ->] _ IH]; simpl; [reflexivity|]. rewrite IH. reflexivity.
Qed.

Lemma ff_of_res_app a b : ff_of (res_app a b) = match ff_of a with FOk => ff_of b | x => x end.
Proof.
  destruct a as [[|e l]|[|e p] k]; simpl; try reflexivity; destruct b as [l'|p' k']; reflexivity.
Qed.

Lemma ff_of_res_concat rs : ff_of (res_concat rs) = first_failure (map ff_of rs).
Proof.
  induction rs as [|r rs IH]; simpl; [reflexivity|].
  rewrite ff_of_res_app, IH. destruct (ff_of r); reflexivity.
Qed.

Lemma res_app_ok_iff a b : res_app a b = Errs [] <-> a = Errs [] /\ b = Errs [].
Proof.
  split.
  - destruct a as [l|p k]; [|discriminate]. destruct b as [l'|p' k']; simpl; [|discriminate].
    intros [= E]. apply app_eq_nil in E as [-> ->]. split; reflexivity.
  - intros [-> ->]. reflexivity.
Qed.

Lemma res_concat_ok_iff rs : res_concat rs = Errs [] <-> Forall (fun r => r = Errs []) rs.
Proof.
  induction rs as [|r rs IH]; simpl.
  - split; [constructor | reflexivity].
  - rewrite res_app_ok_iff, IH. split.
    + intros [H1 H2]; constructor; assumption.
    + intro H; inversion H; subst; split; [reflexivity | assumption].
Qed.

Lemma ff_ok_iff r : ff_of r = FOk <-> r = Errs [].
Proof. destruct r as [[|e l]|[|e p] k]; simpl; split; intro H; try reflexivity; discriminate. Qed.

Section Tree.
  Variable orc : pystr -> oans.
  Variable tb : tables.

  Lemma validate_tree_eq n c a kids :
    validate_tree orc tb (T n c a kids) =
    if is_metadata n then validate_node orc tb n c a (map t_name kids)
    else fold_left (fun acc k => res_app acc (validate_tree orc tb k)) kids
                   (validate_node orc tb n c a (map t_name kids)).
  Proof. reflexivity. Qed.

  Lemma visible_preorder_eq n c a kids :
    visible_preorder (T n c a kids) =
    T n c a kids :: (if is_metadata n then [] else flat_map visible_preorder kids).
  Proof. reflexivity. Qed.

  (** validating a node on its own depends on its [node_view] only *)
  Lemma node_of_view t t' : node_view t = node_view t' -> node_of orc tb t = node_of orc tb t'.
  Proof. unfold node_view, node_of. intros [= -> -> -> ->]. reflexivity. Qed.

  (** validate.tree = the per-node results combined in document order over the visible
      pre-order (whatever the tables: a crash stops the walk in both readings) *)
  Theorem validate_tree_concat t :
    validate_tree orc tb t = res_concat (map (node_of orc tb) (visible_preorder t)).
  Proof.
    induction t as [n c a kids IH] using tree_ind'.
    rewrite validate_tree_eq, visible_preorder_eq. cbn [map res_concat fold_right].
    change (node_of orc tb (T n c a kids)) with (validate_node orc tb n c a (map t_name kids)).
    destruct (is_metadata n).
    - cbn [map fold_right]. rewrite res_app_nil_r. reflexivity.
    - rewrite fold_left_res_app. f_equal.
      induction IH as [|k kids Hk _ IHk]; [reflexivity|].
      cbn [map flat_map fold_right]. rewrite map_app.
      change (fold_right res_app (Errs [])) with res_concat in *.
      rewrite res_concat_app, <- Hk, <- IHk. reflexivity.
  Qed.

  Theorem validate_tree_collect t :
    Forall (fun n => no_crash (node_of orc tb n)) (visible_preorder t) ->
    validate_tree orc tb t = Errs (concat (map (fun n => errs_of (node_of orc tb n)) (visible_preorder t))).
  Proof.
    intro H. rewrite validate_tree_concat, res_concat_no_crash.
    - rewrite map_map. reflexivity.
    - apply Forall_map. exact H.
  Qed.

  Theorem validate_tree_failfast t :
    ff_of (validate_tree orc tb t) = first_failure (map (fun n => ff_of (node_of orc tb n)) (visible_preorder t)).
  Proof. rewrite validate_tree_concat, ff_of_res_concat, map_map. reflexivity. Qed.

  Theorem validate_tree_ok_iff t :
    validate_tree orc tb t = Errs [] <-> Forall (fun n => node_of orc tb n = Errs []) (visible_preorder t).
  Proof. rewrite validate_tree_concat, res_concat_ok_iff, Forall_map. reflexivity. Qed.

  Theorem validate_tree_failfast_ok_iff t :
    ff_of (validate_tree orc tb t) = FOk <-> Forall (fun n => ff_of (node_of orc tb n) = FOk) (visible_preorder t).
  Proof.
    rewrite ff_ok_iff, validate_tree_ok_iff. split; apply Forall_impl; intros n H; apply ff_ok_iff, H.
  Qed.

  (** * Opacity of metadata *)
  Lemma content_rule_nkids rg mixed c n1 n2 cr :
    Nat.eqb n1 0 = Nat.eqb n2 0 -> content_rule orc rg mixed c n1 cr = content_rule orc rg mixed c n2 cr.
  Proof. intro E. unfold content_rule. rewrite E. reflexivity. Qed.

  Lemma validate_content_nkids rg mixed crs enum c n1 n2 :
    Nat.eqb n1 0 = Nat.eqb n2 0 ->
    validate_content orc rg mixed crs enum c n1 = validate_content orc rg mixed crs enum c n2.
  Proof.
    intro E. unfold validate_content. f_equal.
    apply flat_map_ext. intro cr. apply content_rule_nkids, E.
  Qed.

  (** a metadata element's own validation sees of its children only whether there are
      none, one, or more than one *)
  Lemma metadata_node_kids n c a w1 w2 :
    is_metadata n = true -> Nat.min 2 (length w1) = Nat.min 2 (length w2) ->
    validate_node orc tb n c a w1 = validate_node orc tb n c a w2.
  Proof.
    intros M E.
    assert (E0 : Nat.eqb (length w1) 0 = Nat.eqb (length w2) 0).
    { destruct (Nat.eqb_spec (length w1) 0), (Nat.eqb_spec (length w2) 0); try reflexivity; lia. }
    assert (E1 : Nat.ltb 1 (length w1) = Nat.ltb 1 (length w2)).
    { destruct (Nat.ltb_spec 1 (length w1)), (Nat.ltb_spec 1 (length w2)); try reflexivity; lia. }
    unfold validate_node. destruct (assoc n (tb_node_map tb)) as [rn|]; [|reflexivity].
    destruct (assoc rn (tb_rules tb)) as [r|]; [|reflexivity].
    unfold validate_rule. destruct (parse_children (rr_children r)) as [top|]; [|reflexivity].
    destruct (negb _); [reflexivity|].
    rewrite (validate_content_nkids _ _ _ _ _ _ _ E0).
    unfold validate_children. unfold is_metadata in M. change (s "metadata") with METADATA in M.
    rewrite M, E1. reflexivity.
  Qed.

  Lemma som_name t t' : same_outside_metadata t t' -> t_name t = t_name t'.
  Proof. intro H; inversion H; reflexivity. Qed.

  Theorem validate_tree_opaque t : forall t', same_outside_metadata t t' ->
    validate_tree orc tb t = validate_tree orc tb t'.
  Proof.
    induction t as [n c a kids IH] using tree_ind'. intros t' S.
    inversion S as [n0 c0 a0 k0 k' M L | n0 c0 a0 k0 k' M F]; subst; rewrite !validate_tree_eq, M.
    - apply metadata_node_kids; [exact M | rewrite !map_length; exact L].
    - rewrite !fold_left_res_app.
      assert (En : map t_name kids = map t_name k').
      { clear IH S. induction F as [|x y l l' Hxy _ IHF]; [reflexivity|]. simpl. rewrite (som_name _ _ Hxy), IHF. reflexivity. }
      assert (Ev : map (validate_tree orc tb) kids = map (validate_tree orc tb) k').
      { clear S En. induction F as [|x y l l' Hxy _ IHF]; [reflexivity|].
        inversion IH as [|? ? Hx Hl]; subst. simpl. rewrite (Hx y Hxy), (IHF Hl). reflexivity. }
      rewrite En, Ev. reflexivity.
  Qed.

  (** a metadata element with valid content/attributes accepts <-> it has at most one child
      (stated for any table in which "metadata" maps to a rule with no children section) *)
  Lemma metadata_node_children n c a w r rn :
    is_metadata n = true -> assoc n (tb_node_map tb) = Some rn -> assoc rn (tb_rules tb) = Some r ->
    rr_children r = [] ->
    validate_node orc tb n c a w =
    res_app (res_app (Errs (validate_content orc (tb_ranges tb) (smem rn (tb_mixed tb)) (rr_content_rules r)
                                             (rr_content_enum r) c (length w)))
                     (validate_attrs (rr_attrs r) a))
            (Errs (if Nat.ltb 1 (length w) then [EMetadataMax] else [])).
  Proof.
    intros M E1 E2 E3. unfold validate_node. rewrite E1, E2. unfold validate_rule. rewrite E3. simpl parse_children.
    cbn [negb]. unfold validate_children. unfold is_metadata in M. change (s "metadata") with METADATA in M.
    rewrite M. reflexivity.
  Qed.
End Tree.

(** * Non-vacuity *)
Definition ex_t1 : tree :=
  T (s "additionalMetadata") None [] [T (s "metadata") None [] [T (s "foo") (Some (s "x")) [] [T (s "bar") None [] []]]].
Definition ex_t2 : tree :=
  T (s "additionalMetadata") None [] [T (s "metadata") None [] [T (s "other") None [(s "k", s "v")] []]].

Example ex_som : same_outside_metadata ex_t1 ex_t2.
Proof.
  apply som_node; [reflexivity|]. constructor; [|constructor].
  apply som_meta; reflexivity.
Qed.

Example ex_visible : map t_name (visible_preorder ex_t1) = [s "additionalMetadata"; s "metadata"].
Proof. reflexivity. Qed.

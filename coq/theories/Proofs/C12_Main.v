(* Proofs/C12_Main.v — the clauses of C12 about the copy itself, read off [CopyPost]:
   equal (ids excepted), fresh + registered ids, parent links inside the copy, disjointness. *)
From MP Require Import Common.Base Common.Tree Model.Heap Model.Registry Model.Copy Spec.CopySpec
     Proofs.HeapInv Proofs.DictFacts Proofs.C12_Base Proofs.C12_Copy.

Section CopyMain.
  Variable uuid : nat -> pystr.
  Hypothesis uuid_inj : forall a b, uuid a = uuid b -> a = b.

  Notation CopyPost := (CopyPost uuid).
  Notation new_node_ok := (new_node_ok uuid).

  (** copy() with the standard fuel on a node of a forest *)
  Theorem copy_op_ok h n :
    Forest h -> HeapWf h -> alive h n ->
    exists h' n', copy_op uuid h n = Ok (h', n') /\ CopyPost h n h' n'.
  Proof.
    intros Fo W Al. unfold copy_op. apply copy_node_ok; auto. apply fuel_ok; assumption.
  Qed.

  Section Post.
    Variables (h : heap) (n : nat) (h' : heap) (n' : nat).
    Hypothesis W : HeapWf h.
    Hypothesis P : CopyPost h n h' n'.

    Let B := next_id h.
    Let L := next_loc h.

    Lemma range_kids a : B <= a < next_id h' ->
      exists ra, nget h' a = Some ra /\ forall c, In c (kids ra) -> a < c < next_id h'.
    Proof.
      intro Ha. destruct (cp_new _ _ _ _ _ P a Ha) as (ra & Hra & _ & _ & _ & _ & _ & Ka & _). eauto.
    Qed.

    (** the nodes of the copy are exactly the node objects created by the call *)
    Lemma copy_nodes_range m : desc h' n' m -> B <= m < next_id h'.
    Proof.
      intro Hd. rewrite (cp_root _ _ _ _ _ P) in Hd. fold B in Hd.
      pose proof (cp_ids _ _ _ _ _ P). fold B in H.
      pose proof (desc_range h' B (next_id h') B m range_kids ltac:(lia) Hd). lia.
    Qed.

    Lemma range_copy_nodes : forall m, B <= m < next_id h' -> desc h' n' m.
    Proof.
      intro m. induction m as [m IH] using lt_wf_ind. intro Hm.
      pose proof (cp_root _ _ _ _ _ P) as E. fold B in E.
      destruct (Nat.eq_dec m B) as [->|Nm]; [rewrite E; apply desc_refl|].
      destruct (cp_new _ _ _ _ _ P m Hm) as (r & Hr & _ & _ & _ & _ & _ & _ & Pm).
      destruct (Pm Nm) as (p & _ & Rp & Ip). fold B in Rp.
      eapply desc_step; [|exact Ip]. apply IH; lia.
    Qed.

    (** the original tree is untouched *)
    Lemma orig_desc m : (forall x, desc h n x -> alive h x) -> desc h' n m -> desc h n m.
    Proof.
      intros Al. induction 1 as [|p m Hd IH Hin]; [apply desc_refl|].
      eapply desc_step; [exact IH|]. destruct (Al p IH) as [rp Hrp].
      pose proof (hw_ids _ W _ _ Hrp) as Hlt. unfold kids_of in *.
      rewrite (cp_old_nodes _ _ _ _ _ P) in Hin by exact Hlt. exact Hin.
    Qed.

    Theorem copy_equal :
      forall g t, reify g h n = Some t ->
                  exists t', reify g h' n' = Some t' /\ equal_up_to_ids t' t.
    Proof. exact (cp_reify _ _ _ _ _ P). Qed.

    Theorem copy_keeps_original :
      (forall x, desc h n x -> alive h x) -> forall g, reify g h' n = reify g h n.
    Proof.
      intros Al g. apply reify_ext. eapply same_below_frame with (B := B) (L := L); eauto.
      - apply (cp_old_nodes _ _ _ _ _ P).
      - apply (cp_old_dicts _ _ _ _ _ P).
    Qed.

    (** ids: every node of the copy carries the uuid handed out for its (new) object, is
        registered under it, and these ids are pairwise distinct *)
    Theorem copy_fresh m :
      desc h' n' m ->
      exists r, nget h' m = Some r /\ idstr r = uuid m /\ next_id h <= m /\
                get_node_instance h' (idstr r) = Some m.
    Proof.
      intro Hd. pose proof (copy_nodes_range m Hd) as Hm.
      destruct (cp_new _ _ _ _ _ P m Hm) as (r & Hr & Ir & Sr & _).
      exists r. repeat split; auto; [fold B; lia|]. unfold get_node_instance. rewrite Ir. exact Sr.
    Qed.

    Theorem copy_ids_distinct m1 m2 r1 r2 :
      desc h' n' m1 -> desc h' n' m2 -> nget h' m1 = Some r1 -> nget h' m2 = Some r2 ->
      m1 <> m2 -> idstr r1 <> idstr r2.
    Proof.
      intros D1 D2 H1 H2 Ne E.
      destruct (copy_fresh m1 D1) as (r1' & H1' & I1 & _). destruct (copy_fresh m2 D2) as (r2' & H2' & I2 & _).
      rewrite H1 in H1'; injection H1' as <-. rewrite H2 in H2'; injection H2' as <-.
      apply Ne, uuid_inj. congruence.
    Qed.

    (** under the oracle assumption (uuid1 never returns an id already in use) the ids of
        the copy differ from the id of every node object that existed before *)
    Theorem copy_ids_unused m r m0 r0 :
      (forall k, next_id h <= k -> forall x rx, nget h x = Some rx -> idstr rx <> uuid k) ->
      desc h' n' m -> nget h' m = Some r -> nget h m0 = Some r0 -> idstr r <> idstr r0.
    Proof.
      intros Fresh D Hr H0 E. destruct (copy_fresh m D) as (r' & Hr' & I & Ge & _).
      rewrite Hr in Hr'; injection Hr' as <-. apply (Fresh m Ge m0 r0 H0). congruence.
    Qed.

    (** parent links below the copy's root point inside the copy, at the holder of the child *)
    Theorem copy_parents m :
      desc h' n' m -> m <> n' ->
      exists r p, nget h' m = Some r /\ parent r = Some p /\ desc h' n' p /\ In m (kids_of h' p).
    Proof.
      intros Hd Nm. pose proof (copy_nodes_range m Hd) as Hm.
      destruct (cp_new _ _ _ _ _ P m Hm) as (r & Hr & _ & _ & _ & _ & _ & _ & Pm).
      rewrite (cp_root _ _ _ _ _ P) in Nm. destruct (Pm Nm) as (p & Pp & Rp & Ip).
      exists r, p. repeat split; auto. apply range_copy_nodes. fold B in Rp. lia.
    Qed.

    (** the copy is a detached tree: its root has no parent *)
    Theorem copy_root_parent : exists r', nget h' n' = Some r' /\ parent r' = None.
    Proof. exact (cp_parent _ _ _ _ _ P). Qed.

    (** node objects and dict objects reachable from the copy are disjoint from those
        reachable from the original *)
    Theorem copy_disjoint m m' r r' :
      (forall x, desc h n x -> alive h x) ->
      desc h' n' m -> desc h' n m' -> nget h' m = Some r -> nget h' m' = Some r' ->
      m <> m' /\
      (forall l l', In l [attrs_loc r; extras_loc r; ns_loc r] ->
                    In l' [attrs_loc r'; extras_loc r'; ns_loc r'] -> l <> l').
    Proof.
      intros Al D D' Hr Hr'. pose proof (copy_nodes_range m D) as Hm.
      apply (orig_desc m' Al) in D'. destruct (Al m' D') as [r0 Hr0].
      pose proof (hw_ids _ W _ _ Hr0) as Hlt. fold B in Hlt.
      rewrite (cp_old_nodes _ _ _ _ _ P) in Hr' by exact Hlt. rewrite Hr0 in Hr'; injection Hr' as <-.
      destruct (hw_locs _ W _ _ Hr0) as (A1 & A2 & A3). fold L in A1, A2, A3.
      destruct (cp_new _ _ _ _ _ P m Hm) as (r1 & Hr1 & _ & _ & C1 & C2 & C3 & _).
      rewrite Hr in Hr1; injection Hr1 as <-. fold L in C1, C2, C3.
      split; [lia|]. intros l l' Hl Hl'. simpl in Hl, Hl'.
      destruct Hl as [<-|[<-|[<-|[]]]]; destruct Hl' as [<-|[<-|[<-|[]]]]; lia.
    Qed.
  End Post.
End CopyMain.

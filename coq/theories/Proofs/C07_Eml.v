(* Proofs/C07_Eml.v — stage 4 of C07: the EML exporter (metapype.eml.export.to_xml).
   For trees of its class the output is accepted by the specification parser and parses
   back to the same names, attributes, child order and text (up to surrounding white
   space).  Same method as for the general exporter: the exact parse result [elayout]. *)
From MP Require Import Common.Base Common.Tree Common.XStr Spec.Xml Spec.XmlSim Model.XmlOut
  Proofs.C07_Escape Proofs.C07_Lex Proofs.C07_Parse Proofs.C07_Top Proofs.C07_Ns Proofs.C07_General.
Local Open Scope N_scope.

(** * The attributes of a tag *)
Definition boiler_attrs : list (pystr * pystr) :=
  [(s "xmlns:eml", s "https://eml.ecoinformatics.org/eml-2.2.0");
   (s "xmlns:stmml", s "http://www.xml-cml.org/schema/stmml-1.2");
   (s "xmlns:xsi", s "http://www.w3.org/2001/XMLSchema-instance");
   (s "xsi:schemaLocation",
    s "https://eml.ecoinformatics.org/eml-2.2.0 https://nis.lternet.edu/schemas/EML/eml-2.2.0/xsd/eml.xsd")].

Lemma boiler_eq : sp ++ boiler = flat_map fmt_sp boiler_attrs.
Proof. vm_compute. reflexivity. Qed.

Definition root_eml (level : nat) (d : nd) : bool := Nat.eqb level 0 && pystr_eqb (n_name d) (s "eml").

Definition ename (level : nat) (d : nd) : pystr :=
  if root_eml level d then n_name d ++ [58] ++ n_name d else n_name d.

Definition eattrs (level : nat) (d : nd) : list (pystr * pystr) :=
  if root_eml level d then n_attrs d ++ boiler_attrs else n_attrs d.

Definition eindent (level : nat) : pystr := spaces (4 * level).

(** * The exact parse result *)
Definition elayout_text (level : nat) (d : nd) (kids : list ftree) : pystr :=
  match n_content d with
  | Some c => c
  | None => if is_nil kids then [] else nl ++ eindent (S level)
  end.

Definition ekid_tail (level : nat) (last : bool) : pystr :=
  nl ++ (if last then eindent level else eindent (S level)).

Fixpoint elayout (level : nat) (t : ftree) (tl : pystr) {struct t} : xnode :=
  let 'FT d kids := t in
  XN KElem (ename level d) (eattrs level d) (elayout_text level d kids)
     (match n_content d with
      | Some _ => []
      | None =>
          (fix go (ks : list ftree) : list xnode :=
             match ks with
             | [] => []
             | k :: r => elayout (S level) k (ekid_tail level (is_nil r)) :: go r
             end) kids
      end) tl.

Fixpoint elayout_kids (level : nat) (ks : list ftree) : list xnode :=
  match ks with
  | [] => []
  | k :: r => elayout (S level) k (ekid_tail level (is_nil r)) :: elayout_kids level r
  end.

Lemma elayout_eq level d kids tl :
  elayout level (FT d kids) tl =
  XN KElem (ename level d) (eattrs level d) (elayout_text level d kids)
     (elayout_kids level (match n_content d with Some _ => [] | None => kids end)) tl.
Proof.
  cbn [elayout]. f_equal. destruct (n_content d); [reflexivity|].
  induction kids as [|k r IH]; [reflexivity|].
  cbn [elayout_kids]. rewrite <- IH. reflexivity.
Qed.

Lemma set_tail_elayout level t tl : set_tail (elayout level t []) tl = elayout level t tl.
Proof. destruct t as [d kids]. rewrite !elayout_eq. reflexivity. Qed.

(** * The printed element *)
Definition ecore (level : nat) (t : ftree) : pystr :=
  let 'FT d kids := t in
  ename level d ++ flat_map fmt_sp (eattrs level d) ++ [62] ++
  match n_content d with
  | Some c => escape_text c
  | None => if is_nil kids then []
            else nl ++ flat_map (eml_to_xml (S level)) kids ++ eindent level
  end ++ s "</" ++ ename level d ++ [62].

(** side conditions of one node (from [eml_node_ok]) *)
Record enode_ok (d : nd) (kids : list ftree) : Prop := {
  en_name : is_ncname (n_name d) = true;
  en_attrs : Forall (fun kv => attr_name_ok (fst kv) = true /\ value_ok (snd kv) = true) (n_attrs d);
  en_nodup : NoDup (keys (n_attrs d));
  en_content : match n_content d with
               | None => True
               | Some c => text_ok c = true /\ eml_content c = escape_text c /\ kids = []
               end
}.

Inductive etree_ok : ftree -> Prop :=
| ET d kids : enode_ok d kids -> Forall etree_ok kids -> etree_ok (FT d kids).

Lemma etree_inv d kids : etree_ok (FT d kids) -> enode_ok d kids /\ Forall etree_ok kids.
Proof. intro H. inversion H; subst. split; assumption. Qed.

Lemma flat_map_fmt_sp_app a b : flat_map fmt_sp (a ++ b) = flat_map fmt_sp a ++ flat_map fmt_sp b.
Proof. apply flat_map_app. Qed.

Lemma eml_to_xml_core level t :
  etree_ok t -> eml_to_xml level t = eindent level ++ [60] ++ ecore level t ++ nl.
Proof.
  destruct t as [d kids]. intro H. destruct (etree_inv _ _ H) as [E _].
  cbn [eml_to_xml ecore]. fold (root_eml level d). unfold ename, eattrs. fold (eindent level).
  assert (HA : (if root_eml level d then flat_map (fun kv => sp ++ fmt_attr kv) (n_attrs d) ++ sp ++ boiler
                else flat_map (fun kv => sp ++ fmt_attr kv) (n_attrs d))
               = flat_map fmt_sp (if root_eml level d then n_attrs d ++ boiler_attrs else n_attrs d)).
  { destruct (root_eml level d); [|reflexivity]. rewrite flat_map_fmt_sp_app, <- boiler_eq. reflexivity. }
  rewrite HA. clear HA.
  pose proof (en_content d kids E) as Hc.
  destruct (n_content d) as [c|].
  - destruct Hc as (_ & -> & ->). cbn [flat_map]. norm. rewrite ?app_nil_r. reflexivity.
  - destruct kids as [|k r]; cbn [nonempty is_nil negb flat_map]; norm; reflexivity.
Qed.

(** * Children *)
Fixpoint ek_str (level : nat) (ks : list ftree) : pystr :=
  match ks with
  | [] => []
  | k :: r => [60] ++ ecore (S level) k ++ escape_text (ekid_tail level (is_nil r)) ++ ek_str level r
  end.

Lemma escape_eindent n : escape_text (eindent n) = eindent n.
Proof. apply escape_text_plain, spaces_plain. Qed.

Lemma escape_ekid_tail level last : escape_text (ekid_tail level last) = ekid_tail level last.
Proof.
  unfold ekid_tail. rewrite escape_text_app, escape_nl. destruct last; rewrite escape_eindent; reflexivity.
Qed.

Lemma ekids_flat level ks X :
  ks <> [] -> Forall etree_ok ks ->
  flat_map (eml_to_xml (S level)) ks ++ eindent level ++ X = eindent (S level) ++ ek_str level ks ++ X.
Proof.
  induction ks as [|k r IH]; [congruence|]. intros _ HF. inversion HF as [|? ? Hk Hr]; subst.
  cbn [flat_map ek_str]. rewrite (eml_to_xml_core (S level) k Hk), escape_ekid_tail. unfold ekid_tail.
  destruct r as [|k2 r2].
  - cbn [flat_map ek_str is_nil]. norm. reflexivity.
  - cbn [is_nil]. norm. rewrite IH by (discriminate || exact Hr). norm. reflexivity.
Qed.

(** * Start tags *)
Lemma ptag_generic name al close rest sc :
  lex_name name -> Forall (fun a => lex_name (fst a)) al -> nodup_keys (map fst al) = true ->
  (close = [62] /\ sc = false \/ close = [47; 62] /\ sc = true) ->
  ptag (name ++ flat_map fmt_sp al ++ close ++ rest) = Some (name, al, sc, rest).
Proof.
  intros Hn Hal Hnd Hclose. unfold ptag.
  assert (Hnext : exists x r, flat_map fmt_sp al ++ close ++ rest = x :: r /\ is_qname_char x = false).
  { destruct al as [|a al'].
    - cbn [flat_map app]. destruct Hclose as [[-> _]|[-> _]]; cbn [app]; eexists _, _; split; reflexivity.
    - cbn [flat_map]. unfold fmt_sp at 1. unfold sp. cbn [app]. eexists _, _; split; reflexivity. }
  destruct Hnext as (x & r & Er & Hx).
  rewrite Er, (take_qname_ok name x r Hn Hx), <- Er.
  rewrite (pattrs_print al close rest sc Hal Hclose).
  - rewrite Hnd. reflexivity.
  - rewrite !app_length. destruct Hclose as [[-> _]|[-> _]]; simpl;
      (assert (Hlen : (length al <= length (flat_map fmt_sp al))%nat);
       [clear; induction al as [|a al IH]; simpl; [lia|]; rewrite app_length; simpl; lia | lia]).
Qed.

Lemma ename_lex level d kids : enode_ok d kids -> lex_name (ename level d).
Proof.
  intro E. unfold ename. pose proof (en_name d kids E) as Hn.
  destruct (root_eml level d); [apply lex_name_pfx; exact Hn | apply lex_name_plain, Hn].
Qed.

Lemma boiler_lex : Forall (fun a : pystr * pystr => lex_name (fst a)) boiler_attrs.
Proof.
  repeat constructor; cbn [fst].
  - apply (lex_name_pfx (s "xmlns") (s "eml")); reflexivity.
  - apply (lex_name_pfx (s "xmlns") (s "stmml")); reflexivity.
  - apply (lex_name_pfx (s "xmlns") (s "xsi")); reflexivity.
  - apply (lex_name_pfx (s "xsi") (s "schemaLocation")); reflexivity.
Qed.

Lemma eattrs_lex level d kids : enode_ok d kids -> Forall (fun a => lex_name (fst a)) (eattrs level d).
Proof.
  intro E. unfold eattrs.
  assert (HA : Forall (fun a : pystr * pystr => lex_name (fst a)) (n_attrs d)).
  { eapply Forall_impl; [|exact (en_attrs d kids E)]. intros [k v] [H _]. cbn [fst] in *.
    unfold attr_name_ok in H. apply andb_true_iff in H as [H _]. apply lex_name_plain, xml_name_ncname, H. }
  destruct (root_eml level d); [|exact HA]. apply Forall_app. split; [exact HA | exact boiler_lex].
Qed.

Lemma attr_key_plain d kids k : enode_ok d kids -> In k (keys (n_attrs d)) -> split_colon k = (None, k).
Proof.
  intros E Hin. unfold keys in Hin. apply in_map_iff in Hin as ([k' v] & <- & Hin). cbn [fst].
  pose proof (en_attrs d kids E) as H. rewrite Forall_forall in H. destruct (H _ Hin) as [H1 _]. cbn [fst] in H1.
  unfold attr_name_ok in H1. apply andb_true_iff in H1 as [H1 _]. apply split_colon_plain, xml_name_ncname, H1.
Qed.

Lemma eattrs_nodup level d kids : enode_ok d kids -> nodup_keys (map fst (eattrs level d)) = true.
Proof.
  intro E. apply nodup_keys_NoDup. unfold eattrs. destruct (root_eml level d); [|exact (en_nodup d kids E)].
  rewrite map_app. apply NoDup_app'.
  - exact (en_nodup d kids E).
  - apply nodup_keys_NoDup. vm_compute. reflexivity.
  - intros k Hk Hb. pose proof (attr_key_plain d kids k E Hk) as Hs.
    cbn [map fst boiler_attrs] in Hb.
    destruct Hb as [<-|[<-|[<-|[<-|[]]]]]; vm_compute in Hs; discriminate.
Qed.

Lemma eptag level d kids close rest sc :
  enode_ok d kids ->
  (close = [62] /\ sc = false \/ close = [47; 62] /\ sc = true) ->
  ptag (ename level d ++ flat_map fmt_sp (eattrs level d) ++ close ++ rest)
  = Some (ename level d, eattrs level d, sc, rest).
Proof.
  intros E Hc. apply ptag_generic; [exact (ename_lex level d kids E) | exact (eattrs_lex level d kids E)
                                    | exact (eattrs_nodup level d kids E) | exact Hc].
Qed.

Lemma eptag_gt level d kids rest :
  enode_ok d kids ->
  ptag (ename level d ++ flat_map fmt_sp (eattrs level d) ++ 62 :: rest)
  = Some (ename level d, eattrs level d, false, rest).
Proof. intro E. apply (eptag level d kids [62] rest false E). auto. Qed.

Lemma ecore_head level d kids :
  enode_ok d kids -> exists c r, ecore level (FT d kids) = c :: r /\ is_name_start c = true.
Proof.
  intro E. destruct (ename_lex level d kids E) as (_ & _ & c & r & Ec & Hc).
  cbn [ecore]. rewrite Ec. cbn [app]. eauto.
Qed.

(** * Elements *)
Definition enode_parses (t : ftree) : Prop :=
  forall level rest fuel, (need t <= fuel)%nat ->
    pnode fuel (ecore level t ++ rest) = Some (elayout level t [], rest).

Lemma ek_str_head level ks Y :
  ks <> [] -> Forall etree_ok ks -> exists c2 r2, ek_str level ks ++ Y = 60 :: c2 :: r2 /\ c2 <> 33.
Proof.
  intros Hne HL. destruct ks as [|[dk kk] r]; [congruence|].
  inversion HL as [|? ? HLk0 _]; subst. destruct (etree_inv _ _ HLk0) as [Lk _].
  destruct (ecore_head (S level) dk kk Lk) as (c2 & cr2 & Ec2 & Hc2).
  cbn [ek_str]. rewrite Ec2. norm. eexists c2, _. split; [reflexivity|].
  apply name_start_bounds in Hc2. lia.
Qed.

Lemma epkids_print level ks rest :
  Forall etree_ok ks -> Forall enode_parses ks ->
  forall fuel, (needs ks <= fuel)%nat ->
  pkids fuel (ek_str level ks ++ s "</" ++ rest) = Some (elayout_kids level ks, rest).
Proof.
  intros HL HP. induction ks as [|k r IH]; intros fuel Hf.
  - destruct fuel as [|f]; [inversion Hf|]. cbn [ek_str elayout_kids app]. apply pkids_end.
  - inversion HL as [|? ? HLk HLr]; subst. inversion HP as [|? ? HPk HPr]; subst.
    destruct fuel as [|f]; [inversion Hf|]. cbn [needs] in Hf.
    destruct k as [dk kk]. destruct (etree_inv _ _ HLk) as [Lk _].
    destruct (ecore_head (S level) dk kk Lk) as (c & cr & Ec & Hc).
    cbn [ek_str elayout_kids]. rewrite <- !app_assoc. cbn [app].
    set (K := FT dk kk) in *.
    assert (Hnext : exists c2 r2, ek_str level r ++ s "</" ++ rest = 60 :: c2 :: r2 /\ c2 <> 33).
    { destruct r as [|k2 r'].
      - cbn [ek_str app]. exists 47, rest. split; [reflexivity | lia].
      - apply ek_str_head; [discriminate | exact HLr]. }
    destruct Hnext as (c2 & r2 & En & Hc2).
    rewrite Ec. cbn [app]. rewrite (pkids_elem f c _ Hc).
    change (c :: cr ++ escape_text (ekid_tail level (is_nil r)) ++ ek_str level r ++ s "</" ++ rest)
      with ((c :: cr) ++ escape_text (ekid_tail level (is_nil r)) ++ ek_str level r ++ s "</" ++ rest).
    rewrite <- Ec. rewrite (HPk (S level) _ f) by lia.
    rewrite En, (ptext_run _ c2 r2 Hc2), <- En.
    rewrite (IH HLr HPr f) by lia.
    rewrite set_tail_elayout. reflexivity.
Qed.

Lemma enode_parses_all t : etree_ok t -> enode_parses t.
Proof.
  induction t as [d kids IH] using ftree_ind2. intro HL.
  destruct (etree_inv _ _ HL) as [L HLk].
  assert (HP : Forall enode_parses kids).
  { rewrite Forall_forall in *. intros k Hk. apply IH; [exact Hk | apply HLk, Hk]. }
  intros level rest fuel Hf. rewrite need_eq in Hf. destruct fuel as [|f]; [inversion Hf|].
  rewrite pnode_eq, elayout_eq. cbn [ecore]. unfold elayout_text.
  pose proof (en_content d kids L) as Hc.
  norm. rewrite (eptag_gt level d kids _ L). cbv iota.
  set (X := ename level d ++ 62 :: rest).
  destruct (n_content d) as [c|] eqn:Ec.
  - destruct Hc as (_ & _ & ->). cbn [elayout_kids].
    rewrite ptext_run_end.
    destruct f as [|f']; [cbn [needs] in Hf; lia|]. rewrite pkids_end.
    subst X. rewrite pendtag_ok. reflexivity.
  - destruct kids as [|k0 r0] eqn:Ek.
    + cbn [is_nil app elayout_kids].
      rewrite <- (app_nil_l (s "</" ++ X)). rewrite <- escape_text_nil. rewrite ptext_run_end.
      destruct f as [|f']; [cbn [needs] in Hf; lia|]. rewrite pkids_end.
      subst X. rewrite pendtag_ok. reflexivity.
    + rewrite <- Ek in *. assert (Hne : kids <> []) by (rewrite Ek; discriminate).
      replace (is_nil kids) with false by (rewrite Ek; reflexivity).
      norm. rewrite (ekids_flat level kids (s "</" ++ X) Hne HLk).
      destruct (ek_str_head level kids (s "</" ++ X) Hne HLk) as (c2 & r2 & Eh & Hc2).
      rewrite <- (escape_eindent (S level)), <- escape_nl, app_assoc, <- escape_text_app.
      rewrite Eh, (ptext_run _ c2 r2 Hc2), <- Eh.
      rewrite (epkids_print level kids X HLk HP f) by lia.
      subst X. rewrite pendtag_ok. rewrite ?escape_text_app, ?escape_eindent, ?escape_nl. reflexivity.
Qed.

(** * Characters *)
Lemma docs_eattrs level d kids : enode_ok d kids -> docs (flat_map fmt_sp (eattrs level d)).
Proof.
  intro E. apply docs_flat_map. intros [k v] Hin.
  assert (Hl : lex_name k).
  { pose proof (eattrs_lex level d kids E) as H. rewrite Forall_forall in H. exact (H _ Hin). }
  assert (Hv : value_ok v = true).
  { unfold eattrs in Hin. pose proof (en_attrs d kids E) as HA. rewrite Forall_forall in HA.
    destruct (root_eml level d); [apply in_app_or in Hin as [Hin|Hin]|].
    - exact (proj2 (HA _ Hin)).
    - cbn [boiler_attrs] in Hin. destruct Hin as [[= <- <-]|[[= <- <-]|[[= <- <-]|[[= <- <-]|[]]]]]; vm_compute; reflexivity.
    - exact (proj2 (HA _ Hin)). }
  unfold fmt_sp, fmt_attr. cbn [fst snd]. rewrite !docs_app. repeat split; try reflexivity.
  - apply docs_name, Hl.
  - apply docs_escape_attr, Hv.
Qed.

Lemma edocs t : etree_ok t -> forall level, docs (eml_to_xml level t).
Proof.
  induction t as [d kids IH] using ftree_ind2. intros HL level.
  destruct (etree_inv _ _ HL) as [L HLk].
  assert (Hk : forall l, docs (flat_map (eml_to_xml l) kids)).
  { intros l. apply docs_flat_map. intros k Hk. rewrite Forall_forall in IH, HLk. apply IH; auto. }
  assert (Hn : docs (ename level d)) by (apply docs_name, (ename_lex level d kids L)).
  rewrite (eml_to_xml_core level _ HL). cbn [ecore]. unfold eindent.
  rewrite !docs_app. repeat split; try reflexivity; try assumption.
  - apply docs_spaces.
  - apply (docs_eattrs level d kids L).
  - pose proof (en_content d kids L) as Hc. destruct (n_content d) as [c|].
    + destruct Hc as (Hc & _). apply docs_escape, Hc.
    + destruct (is_nil kids); [reflexivity|]. rewrite !docs_app. repeat split; try reflexivity; [apply Hk | apply docs_spaces].
Qed.

(** * Namespaces: only the eml root declares and uses prefixes *)
Lemma own_decls_plain d kids : enode_ok d kids -> own_decls (n_attrs d) = [].
Proof.
  intro E. unfold own_decls. apply flat_map_nil. intros [k v] Hin.
  pose proof (en_attrs d kids E) as H. rewrite Forall_forall in H. destruct (H _ Hin) as [H1 _]. cbn [fst] in H1.
  unfold attr_name_ok in H1. apply andb_true_iff in H1 as [H1 _].
  rewrite decl_of_plain by (apply xml_name_ncname, H1). reflexivity.
Qed.

Lemma scope_ext_nil sc : scope_ext [] sc = sc.
Proof. unfold scope_ext. cbn [app keys map]. apply filter_all. intros; reflexivity. Qed.

Lemma plain_attr_facts d kids a : enode_ok d kids -> In a (n_attrs d) ->
  split_colon (fst a) = (None, fst a) /\ decl_of a = None /\ is_default_decl a = false.
Proof.
  intros E Hin. pose proof (en_attrs d kids E) as H. rewrite Forall_forall in H. destruct (H _ Hin) as [H1 _].
  unfold attr_name_ok in H1. apply andb_true_iff in H1 as [H1 H2]. apply xml_name_ncname in H1.
  destruct a as [k v]. cbn [fst] in *. repeat split.
  - apply split_colon_plain, H1.
  - apply decl_of_plain, H1.
  - unfold is_default_decl. cbn [fst]. apply negb_true_iff in H2. exact H2.
Qed.

Lemma plain_attrs_ns d kids sc : enode_ok d kids ->
  existsb is_default_decl (n_attrs d) = false
  /\ forallb (fun a => is_decl a || qname_bound sc (fst a)) (n_attrs d) = true
  /\ expanded sc (n_attrs d) = [].
Proof.
  intro E. repeat split.
  - destruct (existsb is_default_decl (n_attrs d)) eqn:Ex; [|reflexivity].
    apply existsb_exists in Ex as (a & Hin & Ha). destruct (plain_attr_facts d kids a E Hin) as (_ & _ & H). congruence.
  - apply forallb_forall. intros a Hin. destruct (plain_attr_facts d kids a E Hin) as (H & _).
    unfold qname_bound. rewrite H. apply orb_true_r.
  - unfold expanded. apply flat_map_nil. intros a Hin. destruct (plain_attr_facts d kids a E Hin) as (H1 & H2 & _).
    unfold is_decl. rewrite H2, H1. reflexivity.
Qed.

Definition boiler_decls : list (pystr * pystr) := own_decls boiler_attrs.

Lemma own_decls_app a b : own_decls (a ++ b) = own_decls a ++ own_decls b.
Proof. apply flat_map_app. Qed.

Definition b1 : pystr * pystr := (s "xmlns:eml", s "https://eml.ecoinformatics.org/eml-2.2.0").
Definition b2 : pystr * pystr := (s "xmlns:stmml", s "http://www.xml-cml.org/schema/stmml-1.2").
Definition b3 : pystr * pystr := (s "xmlns:xsi", s "http://www.w3.org/2001/XMLSchema-instance").
Definition b4 : pystr * pystr :=
  (s "xsi:schemaLocation",
   s "https://eml.ecoinformatics.org/eml-2.2.0 https://nis.lternet.edu/schemas/EML/eml-2.2.0/xsd/eml.xsd").

Lemma boiler_list : boiler_attrs = [b1; b2; b3; b4].
Proof. reflexivity. Qed.

Lemma boiler_bound sc' :
  uri_of sc' (s "xsi") <> None ->
  forallb (fun a => is_decl a || qname_bound sc' (fst a)) boiler_attrs = true.
Proof.
  intro H. rewrite boiler_list. cbn [forallb].
  change (is_decl b1) with true. change (is_decl b2) with true. change (is_decl b3) with true.
  change (is_decl b4) with false. cbn [orb andb]. unfold qname_bound.
  change (split_colon (fst b4)) with (Some (s "xsi"), s "schemaLocation"). cbv beta iota.
  destruct (uri_of sc' (s "xsi")); [reflexivity | congruence].
Qed.

Lemma boiler_expanded sc' :
  nodup_keys (expanded sc' boiler_attrs) = true.
Proof.
  rewrite boiler_list. unfold expanded. cbn [flat_map].
  change (is_decl b1) with true. change (is_decl b2) with true. change (is_decl b3) with true.
  change (is_decl b4) with false. cbv iota. cbn [app].
  change (split_colon (fst b4)) with (Some (s "xsi"), s "schemaLocation"). cbv beta iota.
  destruct (uri_of sc' (s "xsi")); reflexivity.
Qed.

Lemma ens_ok t : etree_ok t -> forall level sc tl, ns_ok sc (elayout level t tl) = true.
Proof.
  induction t as [d kids IH] using ftree_ind2. intros HL level sc tl.
  destruct (etree_inv _ _ HL) as [L HLk]. rewrite elayout_eq. cbn [ns_ok].
  destruct (plain_attrs_ns d kids (scope_ext (own_decls (eattrs level d)) sc) L) as (P1 & P2 & P3).
  assert (HK : forall sc', forallb (ns_ok sc')
                 (elayout_kids level (match n_content d with Some _ => [] | None => kids end)) = true).
  { intro sc'. destruct (n_content d); [reflexivity|]. clear P1 P2 P3 L HL.
    induction kids as [|k r IHr]; [reflexivity|]. inversion IH as [|? ? IHk IHr']; subst.
    inversion HLk as [|? ? HLk0 HLr]; subst. cbn [elayout_kids forallb].
    rewrite (IHk HLk0), (IHr IHr' HLr). reflexivity. }
  rewrite HK. unfold eattrs, ename in *. destruct (root_eml level d) eqn:Er.
  - (* the eml root: boilerplate declarations bind eml and xsi *)
    rewrite own_decls_app, (own_decls_plain d kids L) in *. cbn [app] in *. fold boiler_decls in *.
    set (sc' := scope_ext boiler_decls sc) in *.
    rewrite existsb_app, forallb_app. rewrite P1, P2.
    unfold root_eml in Er. apply andb_true_iff in Er as [_ En]. apply pystr_eqb_eq in En. rewrite En.
    assert (Hx : expanded sc' (n_attrs d ++ boiler_attrs) = expanded sc' boiler_attrs).
    { unfold expanded at 1. rewrite flat_map_app. fold (expanded sc' (n_attrs d)).
      rewrite P3. reflexivity. }
    rewrite Hx, boiler_expanded.
    assert (U1 : forall p, In p (keys boiler_decls) -> uri_of sc' p = uri_of boiler_decls p).
    { intros p Hp. unfold uri_of. destruct (pystr_eqb p xml_str); [reflexivity|].
      subst sc'. rewrite assoc_scope_ext. destruct (assoc p boiler_decls) eqn:Ea; [reflexivity|].
      apply assoc_None_keys in Ea. contradiction. }
    assert (Ue : uri_of sc' (s "eml") = Some (s "https://eml.ecoinformatics.org/eml-2.2.0"))
      by (rewrite U1; [reflexivity | vm_compute; auto]).
    assert (Ux : uri_of sc' (s "xsi") <> None)
      by (rewrite U1; [vm_compute; discriminate | vm_compute; auto 10]).
    rewrite (boiler_bound sc' Ux).
    change (existsb is_default_decl boiler_attrs) with false.
    change (forallb decl_legal boiler_decls) with true.
    unfold qname_bound.
    change (split_colon (s "eml" ++ 58 :: s "eml")) with (Some (s "eml"), s "eml"). cbv beta iota.
    rewrite Ue. reflexivity.
  - rewrite (own_decls_plain d kids L) in *. rewrite scope_ext_nil in *.
    rewrite P1, P2, P3. cbn [negb forallb andb nodup_keys].
    unfold qname_bound. rewrite (split_colon_plain _ (en_name d kids L)). reflexivity.
Qed.

(** * The para workaround does nothing on content without para tags *)
Lemma replace_go_absent old new l : contains old l = false -> replace_go old new 0 l = l.
Proof.
  induction l as [|c r IH]; [reflexivity|]. cbn [contains]. intro H.
  apply orb_false_iff in H as [H1 H2]. cbn [replace_go]. rewrite H1, (IH H2). reflexivity.
Qed.

Lemma replace_absent old new l : contains old l = false -> replace old new l = l.
Proof. apply replace_go_absent. Qed.

Lemma starts_with_app_same l X Y : starts_with (l ++ X) (l ++ Y) = starts_with X Y.
Proof. induction l as [|c l IH]; [reflexivity|]. cbn [app starts_with]. rewrite N.eqb_refl. exact IH. Qed.

Lemma esc_plain a : a <> 38 -> a <> 62 -> a <> 60 -> a <> 13 -> esc_text_char a = [a].
Proof. intros. unfold esc_text_char, esc_char. neqb. reflexivity. Qed.

Lemma sw_esc a b X Y :
  starts_with (esc_text_char a ++ X) (esc_text_char b ++ Y) = (a =? b) && starts_with X Y.
Proof.
  destruct (N.eq_dec a b) as [->|NE].
  - rewrite N.eqb_refl. apply starts_with_app_same.
  - rewrite (eqb_false_of a b NE). cbn [andb].
    destruct (tcases a) as [->|[->|[->|[->|(A1 & A2 & A3 & A4)]]]];
      destruct (tcases b) as [->|[->|[->|[->|(B1 & B2 & B3 & B4)]]]];
      try congruence; try reflexivity.
    + rewrite (esc_plain b B1 B2 B3 B4). change (esc_text_char 38) with (38 :: s "amp;"). cbn [app].
      rewrite starts_with_cons, (neq_sym_eqb 38 b B1). reflexivity.
    + rewrite (esc_plain b B1 B2 B3 B4). change (esc_text_char 62) with (38 :: s "gt;"). cbn [app].
      rewrite starts_with_cons, (neq_sym_eqb 38 b B1). reflexivity.
    + rewrite (esc_plain b B1 B2 B3 B4). change (esc_text_char 60) with (38 :: s "lt;"). cbn [app].
      rewrite starts_with_cons, (neq_sym_eqb 38 b B1). reflexivity.
    + rewrite (esc_plain b B1 B2 B3 B4). change (esc_text_char 13) with (38 :: s "#13;"). cbn [app].
      rewrite starts_with_cons, (neq_sym_eqb 38 b B1). reflexivity.
    + rewrite (esc_plain a A1 A2 A3 A4). change (esc_text_char 38) with (38 :: s "amp;"). cbn [app].
      rewrite starts_with_cons, (eqb_false_of a 38 A1). reflexivity.
    + rewrite (esc_plain a A1 A2 A3 A4). change (esc_text_char 62) with (38 :: s "gt;"). cbn [app].
      rewrite starts_with_cons, (eqb_false_of a 38 A1). reflexivity.
    + rewrite (esc_plain a A1 A2 A3 A4). change (esc_text_char 60) with (38 :: s "lt;"). cbn [app].
      rewrite starts_with_cons, (eqb_false_of a 38 A1). reflexivity.
    + rewrite (esc_plain a A1 A2 A3 A4). change (esc_text_char 13) with (38 :: s "#13;"). cbn [app].
      rewrite starts_with_cons, (eqb_false_of a 38 A1). reflexivity.
    + rewrite (esc_plain a A1 A2 A3 A4), (esc_plain b B1 B2 B3 B4). cbn [app].
      rewrite starts_with_cons, (eqb_false_of a b NE). reflexivity.
Qed.

Lemma starts_with_escape p c : starts_with (escape_text p) (escape_text c) = starts_with p c.
Proof.
  revert c. induction p as [|a p IH]; intro c; [reflexivity|].
  destruct c as [|b c].
  - rewrite escape_text_cons. cbn [starts_with escape_text escape replace1 flat_map]. unfold esc_text_char, esc_char.
    destruct (a =? 13); [reflexivity|]. destruct (a =? 38); [reflexivity|].
    destruct (a =? 62); [reflexivity|]. destruct (a =? 60); reflexivity.
  - rewrite !escape_text_cons, sw_esc, IH. reflexivity.
Qed.

(** a pattern that starts with a special character can only match at a character boundary *)
Lemma contains_esc_step P b Y :
  (exists P', P = 38 :: P') ->
  contains P (esc_text_char b ++ Y) = starts_with P (esc_text_char b ++ Y) || contains P Y.
Proof.
  intros [P' ->].
  destruct (tcases b) as [->|[->|[->|[->|(B1 & B2 & B3 & B4)]]]].
  - change (esc_text_char 38) with (s "&amp;"). reflexivity.
  - change (esc_text_char 62) with (s "&gt;"). reflexivity.
  - change (esc_text_char 60) with (s "&lt;"). reflexivity.
  - change (esc_text_char 13) with (s "&#13;"). reflexivity.
  - rewrite (esc_plain b B1 B2 B3 B4). reflexivity.
Qed.

Lemma contains_escape p c :
  (exists a p', p = a :: p' /\ (a = 38 \/ a = 62 \/ a = 60)) ->
  contains (escape_text p) (escape_text c) = contains p c.
Proof.
  intros (a & p' & -> & Ha).
  assert (HP : exists P', escape_text (a :: p') = 38 :: P').
  { rewrite escape_text_cons. destruct Ha as [->|[->| ->]]; cbn; eauto. }
  induction c as [|b c IH].
  - cbn [contains escape_text escape replace1 flat_map]. rewrite <- (starts_with_escape (a :: p') []). cbn.
    destruct (starts_with (escape_text (a :: p')) []); reflexivity.
  - rewrite (escape_text_cons b c), (contains_esc_step _ b (escape_text c) HP), IH.
    rewrite <- (escape_text_cons b c), starts_with_escape. reflexivity.
Qed.

(** * From the property's class to the side conditions *)
Lemma eml_content_escape c : eml_content_ok c = true -> text_ok c = true /\ eml_content c = escape_text c.
Proof.
  unfold eml_content_ok. intro H.
  apply andb_true_iff in H as [H H6]. apply andb_true_iff in H as [H H5].
  apply andb_true_iff in H as [H H4]. apply andb_true_iff in H as [H H3].
  apply andb_true_iff in H as [H1 H2].
  apply negb_true_iff in H2, H3, H4, H5, H6. split; [exact H1|].
  unfold eml_content, preescaped. rewrite H2, H3, H4. cbn [orb].
  assert (E1 : contains (s "&lt;para&gt;") (escape_text c) = false).
  { change (s "&lt;para&gt;") with (escape_text para_open).
    rewrite contains_escape; [exact H5|]. exists 60, (s "para>"). split; [reflexivity|auto]. }
  rewrite (replace_absent _ _ _ E1).
  assert (E2 : contains (s "&lt;/para&gt;") (escape_text c) = false).
  { change (s "&lt;/para&gt;") with (escape_text para_close).
    rewrite contains_escape; [exact H6|]. exists 60, (s "/para>"). split; [reflexivity|auto]. }
  apply (replace_absent _ _ _ E2).
Qed.

Lemma etree_of t : eml_class t -> etree_ok t.
Proof.
  unfold eml_class. induction t as [d kids IH] using ftree_ind2. cbn [eml_class_b]. intro H.
  apply andb_true_iff in H as [Hn Hk]. rewrite forallb_forall in Hk.
  constructor; [|rewrite Forall_forall in *; intros k Hin; apply IH; auto].
  unfold eml_node_ok in Hn.
  apply andb_true_iff in Hn as [Hn H4]. apply andb_true_iff in Hn as [Hn H3]. apply andb_true_iff in Hn as [H1 H2].
  constructor.
  - exact H1.
  - rewrite forallb_forall in H2. apply Forall_forall. intros kv Hin. specialize (H2 kv Hin).
    apply andb_true_iff in H2. exact H2.
  - apply nodup_keys_NoDup, H3.
  - destruct (n_content d) as [c|]; [|exact I]. apply andb_true_iff in H4 as [Hc Hnil].
    destruct (eml_content_escape c Hc) as [T E]. repeat split; try assumption.
    destruct kids; [reflexivity|discriminate].
Qed.

(** * The relation *)
Lemma all_space_eindent n : all_space (eindent n).
Proof. unfold all_space, eindent, spaces. induction (4 * n)%nat; [reflexivity|exact IHn0]. Qed.

Lemma strip_ekid_tail level last : strip (ekid_tail level last) = [].
Proof.
  apply strip_space. unfold ekid_tail. apply all_space_app; [apply all_space_nl|].
  destruct last; apply all_space_eindent.
Qed.

Lemma eesim t : etree_ok t -> forall level tl, strip tl = [] -> esim (elayout level t tl) t.
Proof.
  induction t as [d kids IH] using ftree_ind2. intros HL level tl Htl.
  destruct (etree_inv _ _ HL) as [L HLk]. rewrite elayout_eq. cbn [esim].
  unfold x_local, x_plain. cbn [x_name x_attrs].
  assert (Hloc : snd (split_colon (ename level d)) = n_name d).
  { unfold ename. pose proof (en_name d kids L) as Hn. destruct (root_eml level d).
    - change (n_name d ++ [58] ++ n_name d) with (n_name d ++ 58 :: n_name d).
      rewrite (split_colon_pfx _ _ Hn). reflexivity.
    - rewrite (split_colon_plain _ Hn). reflexivity. }
  assert (Hpl : filter (fun a : pystr * pystr => match split_colon (fst a) with (None, _) => true | _ => false end)
                       (eattrs level d) = n_attrs d).
  { assert (HA : filter (fun a : pystr * pystr => match split_colon (fst a) with (None, _) => true | _ => false end)
                        (n_attrs d) = n_attrs d).
    { apply filter_all. intros a Hin. destruct (plain_attr_facts d kids a L Hin) as (E & _). rewrite E. reflexivity. }
    unfold eattrs. destruct (root_eml level d); [|exact HA].
    rewrite filter_app, HA. change (filter _ boiler_attrs) with (@nil (pystr * pystr)). apply app_nil_r. }
  pose proof (en_content d kids L) as Hc.
  repeat split; try assumption.
  - unfold ws_eq, elayout_text. destruct (n_content d) as [c|]; cbn [otext]; [reflexivity|].
    destruct (is_nil kids); [reflexivity|].
    apply strip_space, all_space_app; [apply all_space_nl | apply all_space_eindent].
  - destruct (n_content d) as [c|].
    + destruct Hc as (_ & _ & ->). exact I.
    + clear Hc Hpl Hloc L HL. induction kids as [|k r IHr]; [exact I|].
      inversion IH as [|? ? IHk IHr']; subst. inversion HLk as [|? ? HLk0 HLr]; subst.
      cbn [elayout_kids]. split; [apply IHk; [exact HLk0 | apply strip_ekid_tail] | exact (IHr IHr' HLr)].
Qed.

(** * The theorem *)
Lemma need_le_ecore t : etree_ok t -> forall level, (need t <= length (ecore level t))%nat.
Proof.
  induction t as [d kids IH] using ftree_ind2. intros HL level.
  destruct (etree_inv _ _ HL) as [L HLk]. rewrite need_eq.
  assert (Hk : forall l, (needs kids <= 1 + length (flat_map (eml_to_xml l) kids))%nat).
  { intros l. clear L HL. induction kids as [|k r IHr]; [simpl; lia|].
    inversion IH as [|? ? IHk IHr']; subst. inversion HLk as [|? ? HLk0 HLr]; subst.
    cbn [needs flat_map]. rewrite app_length, (eml_to_xml_core l k HLk0), !app_length.
    pose proof (IHk HLk0 l). pose proof (IHr IHr' HLr). cbn [length]. lia. }
  cbn [ecore]. pose proof (en_content d kids L) as Hc.
  destruct (n_content d) as [c|]; [destruct Hc as (_ & _ & ->)|destruct kids as [|k0 r0]].
  - rewrite !app_length. change (length (s "</")) with 2%nat. cbn [length needs]. lia.
  - cbn [is_nil]. rewrite !app_length. change (length (s "</")) with 2%nat. cbn [length needs]. lia.
  - cbn [is_nil]. rewrite !app_length. specialize (Hk (S level)).
    change (length (s "</")) with 2%nat. cbn [length]. lia.
Qed.

Lemma pmisc_nl f : pmisc (S f) nl = Some [].
Proof. reflexivity. Qed.

Theorem C07_eml_proof t :
  eml_class t -> exists x, xparse (eml_to_xml_top t) = Some x /\ esim x t.
Proof.
  intro Hc. pose proof (etree_of t Hc) as HL.
  exists (elayout 0%nat t []). split; [|apply eesim; [exact HL | reflexivity]].
  unfold xparse, xparse_raw, eml_to_xml_top.
  pose proof (edocs t HL 0%nat) as Hd. unfold docs in Hd. rewrite Hd. cbn [negb].
  pose proof (need_le_ecore t HL 0%nat) as Hneed.
  rewrite (eml_to_xml_core 0%nat t HL) in *. change (eindent 0) with (@nil N) in *. cbn [app] in *.
  destruct t as [d kids]. destruct (etree_inv _ _ HL) as [L _].
  destruct (ecore_head 0%nat d kids L) as (c & r & Ec & Hcs).
  set (K := ecore 0%nat (FT d kids)) in *.
  rewrite Ec at 1. cbn [app]. rewrite (skip_decl_elem c _ Hcs).
  rewrite (pmisc_elem _ c _ Hcs). change (60 =? 60) with true. cbv iota.
  change (c :: r ++ nl) with ((c :: r) ++ nl). rewrite <- Ec.
  rewrite (enode_parses_all (FT d kids) HL 0%nat nl) by (cbn [length]; rewrite app_length; cbn [length]; lia).
  rewrite pmisc_nl.
  rewrite (ens_ok (FT d kids) HL 0%nat [] []). reflexivity.
Qed.

(** non-vacuity: an eml root with the boilerplate, attributes with special characters,
    escaped content, nested children *)
Definition ewitness : ftree :=
  FT (mk (s "eml") None None None [(s "packageId", s "a&b<""c""> "); (s "system", [9; 233])] [] [])
     [FT (mk (s "dataset") None None None [] [] [])
         [FT (mk (s "title") (Some (s " a < b & c ]]> ")) None None [(s "id", s "1")] [] []) [];
          FT (mk [233; 116; 233] None None None [] [] []) []]].

Example ewitness_in_class : eml_class ewitness.
Proof. vm_compute. reflexivity. Qed.

Example ewitness_parses : xparse (eml_to_xml_top ewitness) <> None.
Proof. vm_compute. discriminate. Qed.

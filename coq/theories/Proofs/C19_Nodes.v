(* Proofs/C19_Nodes.v — each evaluator of Model/Evaluate.v reports exactly the unmet rows of
   its element in Spec/Recommend.v (under the single-valued-children hypothesis), and
   reports only codes of [model_codes]. *)
From MP Require Import Common.Base.
From MP Require Import Common.Tree.
From MP Require Import Model.PyString.
From MP Require Import Model.Normalize.
From MP Require Import Model.Evaluate.
From MP Require Import Spec.Recommend.
From MP Require Import Proofs.C20_PyString.
From MP Require Import Proofs.C20_Text.
From MP Require Import Proofs.C19_Lemmas.

Definition codes_of (o : option (list pystr)) : list pystr := match o with Some l => l | None => [] end.
Definition unmet_rows (rows : list row) (parent : option pystr) (t : ftree) : list pystr :=
  map fst (filter (fun r : row => snd r parent t) rows).

Lemma unmet_cons c p rows parent t :
  unmet_rows ((c, p) :: rows) parent t = (if p parent t then [c] else []) ++ unmet_rows rows parent t.
Proof. unfold unmet_rows. simpl. destruct (p parent t); reflexivity. Qed.

Lemma unmet_nil parent t : unmet_rows [] parent t = [].
Proof. reflexivity. Qed.

Lemma if_negb {A} (b : bool) (x y : A) : (if negb b then x else y) = (if b then y else x).
Proof. destruct b; reflexivity. Qed.

Lemma existsb_ext {A} (f g : A -> bool) l : (forall x, f x = g x) -> existsb f l = existsb g l.
Proof. intro H. induction l as [|x l IH]; [reflexivity|]. simpl. rewrite H, IH. reflexivity. Qed.

Lemma forallb_ext_eq {A} (f g : A -> bool) l : (forall x, f x = g x) -> forallb f l = forallb g l.
Proof. intro H. induction l as [|x l IH]; [reflexivity|]. simpl. rewrite H, IH. reflexivity. Qed.

(** * bridges between the vocabulary of the spec and of the model *)
Lemma has_text_eq t : has_text t = has_content t.
Proof. unfold has_text, text_of, has_content, content_of, truthy. destruct (n_content (ft_d t)) as [[|? ?]|]; reflexivity. Qed.

Lemma text_of_eq t : text_of t = str_or_empty (content_of t).
Proof. unfold text_of, str_or_empty, content_of. destruct (n_content (ft_d t)) as [[|? ?]|]; reflexivity. Qed.

Lemma no_text_eq t : no_text t = negb (nonempty (get_text_content t)).
Proof.
  rewrite get_text_content_nonempty, negb_involutive. unfold no_text. rewrite has_text_eq. reflexivity.
Qed.

Lemma word_count_eq t : word_count t = length (py_split_ws (get_text_content t)).
Proof.
  rewrite get_text_content_words. unfold word_count, count_words. rewrite text_of_eq. f_equal.
  unfold text_blocks, proper_descendants, descendants, named, nm_is. f_equal.
  apply map_ext. intro p. unfold block_text. rewrite text_of_eq. reflexivity.
Qed.

Lemma some_with_text_eq n t :
  some_with_text n t = existsb (fun child => nm_is n child && has_content child) (ft_kids t).
Proof.
  unfold some_with_text, children_named. rewrite existsb_filter. apply existsb_ext. intro x.
  rewrite has_text_eq. reflexivity.
Qed.

Lemma the_eq n t : the n t = hd_error (filter (nm_is n) (ft_kids t)).
Proof. reflexivity. Qed.

Lemma first_child_the n t : first_child n t = the n t.
Proof. unfold first_child. rewrite find_hd_filter. reflexivity. Qed.

Lemma the_in n t p : the n t = Some p -> In p (ft_kids t) /\ nm_is n p = true.
Proof.
  rewrite the_eq. intro H. destruct (filter (nm_is n) (ft_kids t)) as [|x r] eqn:E; [discriminate|].
  injection H as ->. assert (I : In p (filter (nm_is n) (ft_kids t))) by (rewrite E; left; reflexivity).
  apply filter_In in I. exact I.
Qed.

Lemma lastm_the n t : at_most_one n t = true -> lastm (nm_is n) (ft_kids t) None = the n t.
Proof. unfold at_most_one. intro H. apply Nat.leb_le in H. apply lastm_single. exact H. Qed.

Lemma kid_in_preorder t k x : In k (ft_kids t) -> In x (preorder k) -> In x (preorder t).
Proof.
  destruct t as [d kids]. simpl. intros Hk Hx. right. apply in_flat_map. exists k. split; assumption.
Qed.

Lemma self_in_preorder t : In t (preorder t).
Proof. destruct t; left; reflexivity. Qed.

(** * responsible parties *)
Definition fu (k : ftree) : bool := nm_is "userId" k && has_content k.
Definition fo (k : ftree) : bool :=
  nm_is "userId" k && has_content k &&
  opt_eqb pystr_eqb (assoc (s "directory") (n_attrs (ft_d k))) (Some orcid_directory).
Definition fe (k : ftree) : bool := nm_is "electronicMailAddress" k && has_content k.

Lemma rp_fold kids u o e :
  fold_left rp_step kids (u, o, e) = (u || existsb fu kids, o || existsb fo kids, e || existsb fe kids).
Proof.
  revert u o e. induction kids as [|c kids IH]; intros u o e; cbn [fold_left existsb].
  - rewrite !orb_false_r. reflexivity.
  - unfold rp_step at 2. unfold fu at 1, fo at 1, fe at 1.
    destruct (nm_is "userId" c && has_content c);
      destruct (opt_eqb pystr_eqb (assoc (s "directory") (n_attrs (ft_d c))) (Some orcid_directory));
      destruct (nm_is "electronicMailAddress" c && has_content c);
      rewrite IH; destruct u, o, e; reflexivity.
Qed.

Lemma party_exact parent t : codes_of (responsible_party_rule t) = unmet_rows party_rows parent t.
Proof.
  unfold responsible_party_rule. rewrite rp_fold. simpl orb. simpl codes_of.
  unfold party_rows. rewrite !unmet_cons, unmet_nil. cbn [fst snd].
  rewrite !if_negb, !some_with_text_eq.
  replace (existsb is_orcid (children_named "userId" t)) with (existsb fo (ft_kids t)).
  - rewrite app_nil_r. reflexivity.
  - unfold children_named. rewrite existsb_filter. apply existsb_ext. intro x.
    unfold fo, is_orcid. rewrite has_text_eq, andb_assoc. reflexivity.
Qed.

(** * individual names *)
Lemma in_fold kids g sn :
  fold_left in_step kids (g, sn) =
  (g || existsb (fun c => nm_is "givenName" c && has_content c) kids,
   sn || existsb (fun c => nm_is "surName" c && has_content c) kids).
Proof.
  revert g sn. induction kids as [|c kids IH]; intros g sn; cbn [fold_left existsb].
  - rewrite !orb_false_r. reflexivity.
  - unfold in_step at 2. destruct (nm_is "givenName" c && has_content c); destruct (nm_is "surName" c && has_content c);
      rewrite IH; destruct g, sn; reflexivity.
Qed.

Lemma name_exact parent t : codes_of (individual_name_rule t) = unmet_rows individual_name_rows parent t.
Proof.
  unfold individual_name_rule. rewrite in_fold. simpl orb.
  unfold individual_name_rows. rewrite !unmet_cons, unmet_nil. cbn [fst snd].
  rewrite if_negb, !some_with_text_eq.
  destruct (existsb _ (ft_kids t) && existsb _ (ft_kids t)); reflexivity.
Qed.

(** * other entities *)
Lemma other_exact parent t : codes_of (other_entity_rule t) = unmet_rows other_entity_rows parent t.
Proof.
  unfold other_entity_rule, other_entity_rows. rewrite !unmet_cons, unmet_nil. cbn [fst snd codes_of].
  rewrite if_negb, some_with_text_eq, app_nil_r. reflexivity.
Qed.

(** * titles *)
Lemma title_exact parent t : codes_of (title_rule parent t) = unmet_rows title_rows parent t.
Proof.
  unfold title_rule, title_rows. rewrite !unmet_cons, unmet_nil. cbn [fst snd]. unfold content_of, parent_is.
  destruct (n_content (ft_d t)) as [x|]; [|rewrite andb_false_r; reflexivity].
  destruct parent as [p|]; [|reflexivity].
  destruct (pystr_eqb p (s "dataset")); [|reflexivity]. simpl andb.
  unfold title_min_words, title_words. rewrite title_length.
  destruct (Nat.ltb _ 5); reflexivity.
Qed.

(** * descriptions *)
Lemma description_exact parent t : codes_of (description_rule parent t) = unmet_rows description_rows parent t.
Proof.
  unfold description_rule, description_rows, description_row. rewrite !unmet_cons, unmet_nil. cbn [fst snd].
  rewrite no_text_eq. destruct (nonempty (get_text_content t)); simpl negb.
  - rewrite !andb_false_r. reflexivity.
  - rewrite !andb_true_r. destruct parent as [p|]; [|reflexivity].
    unfold parent_is, description_parents. cbn [assoc].
    repeat match goal with
           | |- context [pystr_eqb p (s ?lit)] =>
               destruct (pystr_eqb_reflect p (s lit)) as [->|?]; [reflexivity|]
           end.
    reflexivity.
Qed.

(** * data tables *)
Lemma ph_step_auth st c : ph_auth (ph_step st c) = if nm_is "authentication" c then Some c else ph_auth st.
Proof.
  unfold ph_step. destruct (nm_is "authentication" c) eqn:E1; [reflexivity|].
  destruct (nm_is "recordDelimiter" c); [reflexivity|]. destruct (nm_is "size" c); [reflexivity|].
  destruct (nm_is "dataFormat" c); reflexivity.
Qed.

Lemma ph_step_recdelim st c : ph_recdelim (ph_step st c) = if nm_is "recordDelimiter" c then Some c else ph_recdelim st.
Proof.
  unfold ph_step. destruct (nm_is "authentication" c) eqn:E1; [excl E1; reflexivity|].
  destruct (nm_is "recordDelimiter" c); [reflexivity|]. destruct (nm_is "size" c); [reflexivity|].
  destruct (nm_is "dataFormat" c); reflexivity.
Qed.

Lemma ph_step_size st c : ph_size (ph_step st c) = if nm_is "size" c then Some c else ph_size st.
Proof.
  unfold ph_step. destruct (nm_is "authentication" c) eqn:E1; [excl E1; reflexivity|].
  destruct (nm_is "recordDelimiter" c) eqn:E2; [excl E2; reflexivity|]. destruct (nm_is "size" c); [reflexivity|].
  destruct (nm_is "dataFormat" c); reflexivity.
Qed.

Lemma ph_step_dataformat st c : ph_dataformat (ph_step st c) = if nm_is "dataFormat" c then Some c else ph_dataformat st.
Proof.
  unfold ph_step. destruct (nm_is "authentication" c) eqn:E1; [excl E1; reflexivity|].
  destruct (nm_is "recordDelimiter" c) eqn:E2; [excl E2; reflexivity|].
  destruct (nm_is "size" c) eqn:E3; [excl E3; reflexivity|].
  destruct (nm_is "dataFormat" c); reflexivity.
Qed.

Lemma ph_fold kids st :
  ph_auth (fold_left ph_step kids st) = lastm (nm_is "authentication") kids (ph_auth st) /\
  ph_recdelim (fold_left ph_step kids st) = lastm (nm_is "recordDelimiter") kids (ph_recdelim st) /\
  ph_size (fold_left ph_step kids st) = lastm (nm_is "size") kids (ph_size st) /\
  ph_dataformat (fold_left ph_step kids st) = lastm (nm_is "dataFormat") kids (ph_dataformat st).
Proof.
  revert st. induction kids as [|c kids IH]; intro st; [repeat split|].
  simpl fold_left. destruct (IH (ph_step st c)) as (A & B & C & D).
  rewrite A, B, C, D, ph_step_auth, ph_step_recdelim, ph_step_size, ph_step_dataformat.
  repeat split.
Qed.

Lemma present_the n p : present (the n p) = match the n p with Some z => has_text z | None => false end.
Proof. destruct (the n p); [simpl; rewrite has_text_eq|]; reflexivity. Qed.

Lemma physical_shape p : node_shape_ok p = true -> nm_is "physical" p = true ->
  at_most_one "size" p = true /\ at_most_one "dataFormat" p = true /\
  uniform "authentication" p = true /\ uniform "recordDelimiter" p = true.
Proof.
  unfold node_shape_ok. intros H E. change (named "physical" p) with (nm_is "physical" p) in H. rewrite E in H.
  apply andb_true_iff in H as [H _]. apply andb_true_iff in H as [_ H].
  repeat (apply andb_true_iff in H as [H ?]). tauto.
Qed.

Lemma textformat_shape p : node_shape_ok p = true -> nm_is "textFormat" p = true -> uniform "recordDelimiter" p = true.
Proof.
  unfold node_shape_ok. intros H E. change (named "textFormat" p) with (nm_is "textFormat" p) in H. rewrite E in H.
  apply andb_true_iff in H as [_ H]. exact H.
Qed.

Lemma uniform_eq n p : uniform n p =
  (Nat.leb (length (filter (nm_is n) (ft_kids p))) 1 || forallb has_content (filter (nm_is n) (ft_kids p))).
Proof.
  unfold uniform, at_most_one, children_named. f_equal. apply forallb_ext_eq. intro x. apply has_text_eq.
Qed.

Lemma existsb_has_text l : existsb has_text l = existsb has_content l.
Proof. apply existsb_ext. intro x. apply has_text_eq. Qed.

Lemma rd_exact p :
  nm_is "physical" p = true ->
  (forall d, In d (preorder p) -> node_shape_ok d = true) ->
  present (match (match the "dataFormat" p with Some df => the "textFormat" df | None => None end) with
           | Some tf => match the "recordDelimiter" tf with
                        | Some r => Some r
                        | None => lastm (nm_is "recordDelimiter") (ft_kids p) None
                        end
           | None => lastm (nm_is "recordDelimiter") (ft_kids p) None
           end) = existsb has_text (record_delimiters p).
Proof.
  intros NP SH.
  destruct (physical_shape p (SH p (self_in_preorder p)) NP) as (_ & _ & _ & U).
  rewrite uniform_eq in U.
  assert (Direct : present (lastm (nm_is "recordDelimiter") (ft_kids p) None) = existsb has_text (children_named "recordDelimiter" p)).
  { rewrite present_lastm by exact U. rewrite existsb_has_text. reflexivity. }
  unfold record_delimiters.
  destruct (the "dataFormat" p) as [df|] eqn:EDF; [|exact Direct].
  destruct (the "textFormat" df) as [tf|] eqn:ETF; [|exact Direct].
  destruct (the_in _ _ _ EDF) as [Idf _]. destruct (the_in _ _ _ ETF) as [Itf Ntf].
  assert (Stf : node_shape_ok tf = true).
  { apply SH. eapply kid_in_preorder; [exact Idf|]. eapply kid_in_preorder; [exact Itf|]. apply self_in_preorder. }
  pose proof (textformat_shape tf Stf Ntf) as Utf. rewrite uniform_eq in Utf.
  rewrite the_eq. change (children_named "recordDelimiter" tf) with (filter (nm_is "recordDelimiter") (ft_kids tf)).
  pose proof (present_first (nm_is "recordDelimiter") (ft_kids tf) Utf) as PF.
  destruct (filter (nm_is "recordDelimiter") (ft_kids tf)) as [|x r] eqn:EC.
  - exact Direct.
  - rewrite existsb_has_text, <- PF. reflexivity.
Qed.

Lemma datatable_exact parent t :
  (forall d, In d (preorder t) -> node_shape_ok d = true) ->
  codes_of (datatable_rule t) = unmet_rows datatable_rows parent t.
Proof.
  intro SH. unfold datatable_rule, datatable_rows. rewrite !unmet_cons, unmet_nil. cbn [fst snd codes_of].
  rewrite !if_negb, !first_child_the, some_with_text_eq, app_nil_r.
  rewrite (present_the "numberOfRecords" t).
  unfold in_physical.
  destruct (the "physical" t) as [p|] eqn:EP; [|reflexivity].
  destruct (the_in _ _ _ EP) as [Ip Np].
  assert (SHp : forall d, In d (preorder p) -> node_shape_ok d = true).
  { intros d Hd. apply SH. eapply kid_in_preorder; eassumption. }
  destruct (physical_shape p (SHp p (self_in_preorder p)) Np) as (S1 & S2 & U1 & _).
  destruct (ph_fold (ft_kids p) ph_init) as (A & B & C & D). rewrite A, B, C, D. cbn [ph_init ph_auth ph_recdelim ph_size ph_dataformat].
  rewrite (lastm_the "size" p S1), (lastm_the "dataFormat" p S2).
  rewrite (present_the "size" p).
  rewrite uniform_eq in U1. rewrite (present_lastm _ _ U1).
  replace (match the "dataFormat" p with Some df => first_child "textFormat" df | None => None end)
    with (match the "dataFormat" p with Some df => the "textFormat" df | None => None end)
    by (destruct (the "dataFormat" p); [rewrite first_child_the|]; reflexivity).
  replace (match (match the "dataFormat" p with Some df => the "textFormat" df | None => None end) with
           | Some tf => match first_child "recordDelimiter" tf with
                        | Some r => Some r
                        | None => lastm (nm_is "recordDelimiter") (ft_kids p) None
                        end
           | None => lastm (nm_is "recordDelimiter") (ft_kids p) None
           end)
    with (match (match the "dataFormat" p with Some df => the "textFormat" df | None => None end) with
           | Some tf => match the "recordDelimiter" tf with
                        | Some r => Some r
                        | None => lastm (nm_is "recordDelimiter") (ft_kids p) None
                        end
           | None => lastm (nm_is "recordDelimiter") (ft_kids p) None
           end)
    by (destruct (match the "dataFormat" p with Some df => the "textFormat" df | None => None end);
        [rewrite first_child_the|]; reflexivity).
  rewrite (rd_exact p Np SHp).
  unfold some_with_text. rewrite !existsb_has_text. reflexivity.
Qed.

(** * datasets *)
Ltac ds_chain c :=
  unfold ds_step;
  destruct (nm_is "abstract" c) eqn:E1; [excl E1; reflexivity|];
  destruct (nm_is "coverage" c) eqn:E2; [excl E2; reflexivity|];
  destruct (nm_is "dataTable" c) eqn:E3; [excl E3; reflexivity|];
  destruct (nm_is "intellectualRights" c) eqn:E4; [excl E4; reflexivity|];
  destruct (nm_is "keywordSet" c) eqn:E5; [excl E5; reflexivity|];
  destruct (nm_is "methods" c) eqn:E6; [excl E6; reflexivity|];
  destruct (nm_is "project" c) eqn:E7; [excl E7; reflexivity|];
  reflexivity.

Lemma ds_step_abstract st c : ds_abstract (ds_step st c) = if nm_is "abstract" c then Some c else ds_abstract st.
Proof. ds_chain c. Qed.
Lemma ds_step_coverage st c : ds_coverage (ds_step st c) = if nm_is "coverage" c then Some c else ds_coverage st.
Proof. ds_chain c. Qed.
Lemma ds_step_datatable st c : ds_datatable (ds_step st c) = if nm_is "dataTable" c then Some c else ds_datatable st.
Proof. ds_chain c. Qed.
Lemma ds_step_rights st c : ds_rights (ds_step st c) = if nm_is "intellectualRights" c then Some c else ds_rights st.
Proof. ds_chain c. Qed.
Lemma ds_step_methods st c : ds_methods (ds_step st c) = if nm_is "methods" c then Some c else ds_methods st.
Proof. ds_chain c. Qed.
Lemma ds_step_project st c : ds_project (ds_step st c) = if nm_is "project" c then Some c else ds_project st.
Proof. ds_chain c. Qed.
Lemma ds_step_keywordsets st c :
  ds_keywordsets (ds_step st c) = ds_keywordsets st ++ (if nm_is "keywordSet" c then [c] else []).
Proof.
  unfold ds_step;
  destruct (nm_is "abstract" c) eqn:E1; [excl E1; simpl; rewrite app_nil_r; reflexivity|];
  destruct (nm_is "coverage" c) eqn:E2; [excl E2; simpl; rewrite app_nil_r; reflexivity|];
  destruct (nm_is "dataTable" c) eqn:E3; [excl E3; simpl; rewrite app_nil_r; reflexivity|];
  destruct (nm_is "intellectualRights" c) eqn:E4; [excl E4; simpl; rewrite app_nil_r; reflexivity|];
  destruct (nm_is "keywordSet" c) eqn:E5; [reflexivity|];
  destruct (nm_is "methods" c) eqn:E6; [simpl; rewrite app_nil_r; reflexivity|];
  destruct (nm_is "project" c) eqn:E7; simpl; rewrite app_nil_r; reflexivity.
Qed.

Lemma ds_fold kids st :
  let r := fold_left ds_step kids st in
  ds_abstract r = lastm (nm_is "abstract") kids (ds_abstract st) /\
  ds_coverage r = lastm (nm_is "coverage") kids (ds_coverage st) /\
  ds_datatable r = lastm (nm_is "dataTable") kids (ds_datatable st) /\
  ds_rights r = lastm (nm_is "intellectualRights") kids (ds_rights st) /\
  ds_methods r = lastm (nm_is "methods") kids (ds_methods st) /\
  ds_project r = lastm (nm_is "project") kids (ds_project st) /\
  ds_keywordsets r = ds_keywordsets st ++ filter (nm_is "keywordSet") kids.
Proof.
  revert st. induction kids as [|c kids IH]; intro st.
  - simpl. rewrite app_nil_r. repeat split.
  - simpl fold_left. destruct (IH (ds_step st c)) as (A & B & C & D & F & G & K).
    cbv zeta. rewrite A, B, C, D, F, G, K.
    rewrite ds_step_abstract, ds_step_coverage, ds_step_datatable, ds_step_rights, ds_step_methods, ds_step_project,
      ds_step_keywordsets.
    repeat split. rewrite <- app_assoc. f_equal. simpl. destruct (nm_is "keywordSet" c); reflexivity.
Qed.

Lemma dataset_shape t : node_shape_ok t = true -> nm_is "dataset" t = true ->
  at_most_one "abstract" t = true /\ at_most_one "coverage" t = true /\ at_most_one "intellectualRights" t = true.
Proof.
  unfold node_shape_ok. intros H E. change (named "dataset" t) with (nm_is "dataset" t) in H. rewrite E in H.
  apply andb_true_iff in H as [H _]. apply andb_true_iff in H as [H _].
  repeat (apply andb_true_iff in H as [H ?]). tauto.
Qed.

Lemma abstract_part_eq t :
  abstract_part (the "abstract" t) =
  (if match the "abstract" t with Some a => negb (no_text a) && Nat.ltb (word_count a) 20 | None => false end
   then [s "DATASET_ABSTRACT_TOO_SHORT"] else []) ++
  (if match the "abstract" t with Some a => no_text a | None => true end
   then [s "DATASET_ABSTRACT_MISSING"] else []).
Proof.
  unfold abstract_part. destruct (the "abstract" t) as [a|]; [|reflexivity].
  rewrite no_text_eq, word_count_eq. unfold abstract_min_words.
  destruct (nonempty (get_text_content a)); simpl; [|reflexivity].
  destruct (Nat.ltb _ 20); reflexivity.
Qed.

Lemma keywords_part_eq t :
  keywords_part (filter (nm_is "keywordSet") (ft_kids t)) =
  (if match children_named "keywordSet" t with [] => true | _ => false end then [s "KEYWORDS_MISSING"] else []) ++
  (if match children_named "keywordSet" t with
      | [] => false
      | sets => Nat.ltb (list_sum (map (fun ks => length (children_named "keyword" ks)) sets)) 5
      end then [s "KEYWORDS_INSUFFICIENT"] else []).
Proof.
  unfold keywords_part. change (children_named "keywordSet" t) with (filter (nm_is "keywordSet") (ft_kids t)).
  destruct (filter (nm_is "keywordSet") (ft_kids t)) as [|k ks]; [reflexivity|].
  rewrite fold_add_sum. unfold keywords_min, find_all_children. simpl plus.
  change (fun ks0 => length (children_named "keyword" ks0)) with (fun ks0 => length (filter (nm_is "keyword") (ft_kids ks0))).
  destruct (Nat.ltb _ 5); reflexivity.
Qed.

Lemma dataset_exact parent t : node_shape_ok t = true -> nm_is "dataset" t = true ->
  codes_of (dataset_rule t) = unmet_rows dataset_rows parent t.
Proof.
  intros SH ND. destruct (dataset_shape t SH ND) as (S1 & S2 & S3).
  unfold dataset_rule, dataset_rows. rewrite !unmet_cons, unmet_nil. cbn [fst snd codes_of].
  destruct (ds_fold (ft_kids t) ds_init) as (A & B & C & D & F & G & K). cbv zeta in *.
  rewrite A, B, C, D, F, G, K. cbn [ds_init ds_abstract ds_coverage ds_datatable ds_rights ds_methods ds_project ds_keywordsets app].
  rewrite (lastm_the "abstract" t S1), (lastm_the "coverage" t S2), (lastm_the "intellectualRights" t S3).
  rewrite !lastm_is_some.
  rewrite abstract_part_eq, keywords_part_eq. rewrite <- !app_assoc.
  f_equal. f_equal.
  change (children_named "dataTable" t) with (filter (nm_is "dataTable") (ft_kids t)).
  change (children_named "methods" t) with (filter (nm_is "methods") (ft_kids t)).
  change (children_named "project" t) with (filter (nm_is "project") (ft_kids t)).
  replace (if match the "coverage" t with Some c => nonempty_list (ft_kids c) | None => false end
           then [] else [s "DATASET_COVERAGE_MISSING"])
    with (if match the "coverage" t with Some c => match ft_kids c with [] => true | _ => false end | None => true end
          then [s "DATASET_COVERAGE_MISSING"] else [])
    by (destruct (the "coverage" t) as [c|]; [destruct (ft_kids c)|]; reflexivity).
  replace (if match the "intellectualRights" t with Some r => nonempty (get_text_content r) | None => false end
           then [] else [s "INTELLECTUAL_RIGHTS_MISSING"])
    with (if match the "intellectualRights" t with Some r => no_text r | None => true end
          then [s "INTELLECTUAL_RIGHTS_MISSING"] else [])
    by (destruct (the "intellectualRights" t) as [r|]; [rewrite no_text_eq; destruct (nonempty (get_text_content r))|]; reflexivity).
  destruct (filter (nm_is "dataTable") (ft_kids t)), (filter (nm_is "methods") (ft_kids t)), (filter (nm_is "project") (ft_kids t));
    rewrite ?app_nil_r; reflexivity.
Qed.

(* Proofs/C19_Main.v — evaluate.tree is total and, on trees with single-valued children as
   validation guarantees them, reports exactly the warnings Spec/Recommend.v implies. *)
From MP Require Import Common.Base.
From MP Require Import Common.Tree.
From MP Require Import Model.PyString.
From MP Require Import Model.Normalize.
From MP Require Import Model.Evaluate.
From MP Require Import Spec.Recommend.
From MP Require Import Proofs.C19_Lemmas.
From MP Require Import Proofs.C19_Nodes.

(** * every evaluator only reports codes of [model_codes] *)
Definition okc (l : list pystr) : Prop := forallb (fun c => smem c model_codes) l = true.

Lemma okc_app a b : okc a -> okc b -> okc (a ++ b).
Proof. unfold okc. intros A B. rewrite forallb_app, A, B. reflexivity. Qed.

Lemma okc_if (b : bool) c : smem c model_codes = true -> okc (if b then [] else [c]).
Proof. intro H. destruct b; unfold okc; simpl; [reflexivity | rewrite H; reflexivity]. Qed.

Lemma okc_nil : okc [].
Proof. reflexivity. Qed.

Lemma party_codes t l : responsible_party_rule t = Some l -> okc l.
Proof.
  unfold responsible_party_rule. destruct (fold_left rp_step (ft_kids t) (false, false, false)) as [[u o] e].
  intros [= <-]. repeat apply okc_app; apply okc_if; reflexivity.
Qed.

Lemma abstract_codes a : okc (abstract_part a).
Proof.
  unfold abstract_part. destruct a as [a|]; [|reflexivity].
  destruct (nonempty (get_text_content a)); [|reflexivity]. destruct (Nat.ltb _ _); reflexivity.
Qed.

Lemma keywords_codes l : okc (keywords_part l).
Proof. unfold keywords_part. destruct l; [reflexivity|]. destruct (Nat.ltb _ _); reflexivity. Qed.

Lemma dataset_codes t l : dataset_rule t = Some l -> okc l.
Proof.
  unfold dataset_rule. intros [= <-].
  repeat apply okc_app; try apply okc_if; try reflexivity; [apply abstract_codes | apply keywords_codes].
Qed.

Lemma datatable_codes t l : datatable_rule t = Some l -> okc l.
Proof. unfold datatable_rule. intros [= <-]. repeat apply okc_app; apply okc_if; reflexivity. Qed.

Lemma warn_okc p : okc (match assoc p description_parents with Some w => [w] | None => [] end).
Proof.
  destruct (assoc p description_parents) as [w|] eqn:E; [|reflexivity].
  apply assoc_Some_In in E. unfold okc. simpl. rewrite andb_true_r. apply smem_In.
  unfold model_codes. apply in_or_app; right. apply in_map_iff. exists (p, w). split; [reflexivity | exact E].
Qed.

Lemma description_codes parent t l : description_rule parent t = Some l -> okc l.
Proof.
  unfold description_rule. intros [= <-].
  destruct (nonempty (get_text_content t)); [reflexivity|].
  destruct parent as [p|]; [apply warn_okc | reflexivity].
Qed.

Lemma name_codes t l : individual_name_rule t = Some l -> okc l.
Proof.
  unfold individual_name_rule. destruct (fold_left in_step (ft_kids t) (false, false)) as [g sn].
  destruct (g && sn); [discriminate|]. intros [= <-]. reflexivity.
Qed.

Lemma other_codes t l : other_entity_rule t = Some l -> okc l.
Proof. unfold other_entity_rule. intros [= <-]. apply okc_if; reflexivity. Qed.

Lemma title_codes parent t l : title_rule parent t = Some l -> okc l.
Proof.
  unfold title_rule. destruct (content_of t) as [ttl|]; [|intros [= <-]; reflexivity].
  destruct parent as [pn|]; [|intros [= <-]; reflexivity].
  destruct (pystr_eqb pn (s "dataset")); [|intros [= <-]; reflexivity].
  destruct (Nat.ltb _ _); intros [= <-]; reflexivity.
Qed.

Lemma evaluators_codes fn f : assoc fn evaluators = Some f -> forall parent t l, f parent t = Some l -> okc l.
Proof.
  unfold evaluators. cbn [assoc].
  repeat match goal with
         | |- context [pystr_eqb fn (s ?lit)] =>
             destruct (pystr_eqb fn (s lit));
             [intros [= <-] parent t l;
              first [ apply party_codes | apply dataset_codes | apply datatable_codes | apply description_codes
                    | apply name_codes | apply other_codes | apply title_codes ] |]
         end.
  discriminate.
Qed.

(** * the walk *)
Definition assoc_agree (a b : list (pystr * pystr)) : bool :=
  forallb (fun k => opt_eqb pystr_eqb (assoc k a) (assoc k b)) (keys a ++ keys b).

Lemma assoc_agree_spec a b : assoc_agree a b = true -> forall k, assoc k a = assoc k b.
Proof.
  unfold assoc_agree. intros H k. rewrite forallb_forall in H.
  destruct (in_dec pystr_eq_dec k (keys a ++ keys b)) as [I|NI].
  - specialize (H k I). apply (opt_eqb_spec pystr_eqb pystr_eqb_eq) in H. exact H.
  - assert (~ In k (keys a) /\ ~ In k (keys b)) as [Na Nb] by (split; intro; apply NI; apply in_or_app; tauto).
    apply assoc_None_keys in Na. apply assoc_None_keys in Nb. congruence.
Qed.

Definition fns_known (dispatch : list (pystr * pystr)) : bool :=
  forallb (fun p => is_some (assoc (snd p) evaluators)) dispatch.

Section Walk.
  Variable dispatch : list (pystr * pystr).
  Variable codes : list pystr.

  Definition node_new (parent : option pystr) (t : ftree) : list pystr :=
    match assoc (ft_name t) dispatch with
    | Some fn => match assoc fn evaluators with Some f => codes_of (f parent t) | None => [] end
    | None => []
    end.

  Fixpoint walk (parent : option pystr) (t : ftree) : list (pystr * pystr) :=
    let 'FT d kids := t in
    map (fun c => (c, n_id d)) (node_new parent t) ++ flat_map (walk (Some (n_name d))) kids.

  Hypothesis Hfns : fns_known dispatch = true.
  Hypothesis Hcodes : forallb (fun c => smem c codes) model_codes = true.

  Lemma okc_codes l : okc l -> forallb (fun c => smem c codes) l = true.
  Proof.
    unfold okc. intro H. apply forallb_forall. intros c Hc. rewrite forallb_forall in H, Hcodes.
    apply Hcodes. apply smem_In. apply H. exact Hc.
  Qed.

  Lemma node_new_okc parent t : okc (node_new parent t).
  Proof.
    unfold node_new. destruct (assoc (ft_name t) dispatch) as [fn|]; [|reflexivity].
    destruct (assoc fn evaluators) as [f|] eqn:E; [|reflexivity].
    destruct (f parent t) as [l|] eqn:R; [|reflexivity]. eapply evaluators_codes; eauto.
  Qed.

  Lemma eval_node_ok parent t :
    exists ev, eval_node dispatch codes parent t = NOk ev /\ codes_of ev = node_new parent t.
  Proof.
    unfold eval_node, node_new. destruct (assoc (ft_name t) dispatch) as [fn|] eqn:D; [|exists None; split; reflexivity].
    assert (K : is_some (assoc fn evaluators) = true).
    { unfold fns_known in Hfns. rewrite forallb_forall in Hfns. apply assoc_Some_In in D. exact (Hfns _ D). }
    destruct (assoc fn evaluators) as [f|] eqn:E; [|discriminate].
    destruct (f parent t) as [l|] eqn:R; [|exists None; split; reflexivity].
    rewrite (okc_codes l) by (eapply evaluators_codes; eauto). exists (Some l). split; reflexivity.
  Qed.

  Lemma eval_tree_walk t : forall parent ws, eval_tree dispatch codes parent t ws = EOk (ws ++ walk parent t).
  Proof.
    induction t as [d kids IH] using ftree_ind'. intros parent ws.
    cbn [eval_tree walk].
    destruct (eval_node_ok parent (FT d kids)) as (ev & -> & Eev).
    rewrite <- Eev.
    set (ws1 := match ev with Some l => ws ++ map (fun c => (c, n_id d)) l | None => ws end).
    assert (W1 : ws1 = ws ++ map (fun c => (c, n_id d)) (codes_of ev)).
    { unfold ws1. destruct ev; simpl; [reflexivity | rewrite app_nil_r; reflexivity]. }
    transitivity (EOk (ws1 ++ flat_map (walk (Some (n_name d))) kids)); [|rewrite W1, <- app_assoc; reflexivity].
    clearbody ws1. clear W1 Eev.
    revert ws1. induction IH as [|k r Hk _ IHr]; intro acc.
    - simpl. rewrite app_nil_r. reflexivity.
    - rewrite Hk. rewrite IHr. simpl. rewrite app_assoc. reflexivity.
  Qed.

  Lemma walk_codes parent t : Forall (fun w => In (fst w) codes) (walk parent t).
  Proof.
    revert parent. induction t as [d kids IH] using ftree_ind'. intro parent. cbn [walk].
    apply Forall_app. split.
    - apply Forall_forall. intros w Hw. apply in_map_iff in Hw as (c & <- & Hc). simpl.
      pose proof (okc_codes _ (node_new_okc parent (FT d kids))) as O. rewrite forallb_forall in O.
      apply smem_In. apply O. exact Hc.
    - apply Forall_forall. intros w Hw. apply in_flat_map in Hw as (k & Hk & Hw).
      rewrite Forall_forall in IH. specialize (IH k Hk (Some (n_name d))). rewrite Forall_forall in IH. apply IH. exact Hw.
  Qed.

  (** C19_total, generic in the tables *)
  Theorem total_generic parent t ws :
    exists new, eval_tree dispatch codes parent t ws = EOk (ws ++ new) /\ Forall (fun w => In (fst w) codes) new.
  Proof. exists (walk parent t). split; [apply eval_tree_walk | apply walk_codes]. Qed.
End Walk.

(** * exactness *)
(** the dispatch the specification table corresponds to *)
Definition canonical_dispatch : list (pystr * pystr) :=
  [ (s "associatedParty", s "_associated_responsible_party_rule");
    (s "contact", s "_contact_rule");
    (s "creator", s "_creator_rule");
    (s "dataset", s "_dataset_rule");
    (s "dataTable", s "_datatable_rule");
    (s "description", s "_description_rule");
    (s "individualName", s "_individual_name_rule");
    (s "metadataProvider", s "_metadata_provider_rule");
    (s "otherEntity", s "_other_entity_rule");
    (s "personnel", s "_personnel_rule");
    (s "title", s "_title_rule") ].

Lemma node_exact dispatch parent t :
  (forall k, assoc k dispatch = assoc k canonical_dispatch) ->
  (forall d, In d (preorder t) -> node_shape_ok d = true) ->
  node_new dispatch parent t = unmet parent t.
Proof.
  intros HD SH. unfold node_new, unmet. rewrite HD.
  change (map fst (filter (fun r : row => snd r parent t) (rows_for (ft_name t))))
    with (unmet_rows (rows_for (ft_name t)) parent t).
  unfold rows_for, canonical_dispatch, recommendations. cbn [assoc].
  destruct (pystr_eqb_reflect (ft_name t) (s "associatedParty")); [transitivity (codes_of (responsible_party_rule t)); [reflexivity | apply party_exact]|].
  destruct (pystr_eqb_reflect (ft_name t) (s "contact")); [transitivity (codes_of (responsible_party_rule t)); [reflexivity | apply party_exact]|].
  destruct (pystr_eqb_reflect (ft_name t) (s "creator")); [transitivity (codes_of (responsible_party_rule t)); [reflexivity | apply party_exact]|].
  destruct (pystr_eqb_reflect (ft_name t) (s "dataset")) as [E|].
  { transitivity (codes_of (dataset_rule t)); [reflexivity|]. apply dataset_exact.
    - apply SH, self_in_preorder.
    - unfold nm_is. rewrite E. reflexivity. }
  destruct (pystr_eqb_reflect (ft_name t) (s "dataTable")); [transitivity (codes_of (datatable_rule t)); [reflexivity | apply datatable_exact; exact SH]|].
  destruct (pystr_eqb_reflect (ft_name t) (s "description")); [transitivity (codes_of (description_rule parent t)); [reflexivity | apply description_exact]|].
  destruct (pystr_eqb_reflect (ft_name t) (s "individualName")); [transitivity (codes_of (individual_name_rule t)); [reflexivity | apply name_exact]|].
  destruct (pystr_eqb_reflect (ft_name t) (s "metadataProvider")); [transitivity (codes_of (responsible_party_rule t)); [reflexivity | apply party_exact]|].
  destruct (pystr_eqb_reflect (ft_name t) (s "otherEntity")); [transitivity (codes_of (other_entity_rule t)); [reflexivity | apply other_exact]|].
  destruct (pystr_eqb_reflect (ft_name t) (s "personnel")); [transitivity (codes_of (responsible_party_rule t)); [reflexivity | apply party_exact]|].
  destruct (pystr_eqb_reflect (ft_name t) (s "title")); [transitivity (codes_of (title_rule parent t)); [reflexivity | apply title_exact]|].
  reflexivity.
Qed.

Lemma shape_ok_all t : shape_ok t = true -> forall d, In d (preorder t) -> node_shape_ok d = true.
Proof. unfold shape_ok. intro H. apply forallb_forall. exact H. Qed.

Lemma walk_exact dispatch t :
  (forall k, assoc k dispatch = assoc k canonical_dispatch) ->
  forall parent, shape_ok t = true -> walk dispatch parent t = expected_at parent t.
Proof.
  intro HD. induction t as [d kids IH] using ftree_ind'. intros parent SH.
  cbn [walk expected_at]. f_equal.
  - f_equal. apply node_exact; [exact HD | apply shape_ok_all; exact SH].
  - pose proof (shape_ok_all _ SH) as A.
    assert (K : forall k, In k kids -> shape_ok k = true).
    { intros k Hk. unfold shape_ok. apply forallb_forall. intros x Hx. apply A.
      eapply (kid_in_preorder (FT d kids)); [exact Hk | exact Hx]. }
    clear A SH. induction IH as [|k r Hk _ IHr]; [reflexivity|].
    simpl. rewrite Hk by (apply K; left; reflexivity). rewrite IHr by (intros; apply K; right; assumption). reflexivity.
Qed.

(** C19_exact, generic in the tables *)
Theorem exact_generic dispatch codes :
  fns_known dispatch = true ->
  forallb (fun c => smem c codes) model_codes = true ->
  assoc_agree dispatch canonical_dispatch = true ->
  forall parent t ws, shape_ok t = true ->
    eval_tree dispatch codes parent t ws = EOk (ws ++ expected_at parent t).
Proof.
  intros F C A parent t ws SH. rewrite (eval_tree_walk dispatch codes F C).
  rewrite (walk_exact dispatch t (assoc_agree_spec _ _ A) parent SH). reflexivity.
Qed.

(** * the [names.X] constants the evaluators read, with the values the model hard-codes *)
Definition names_pinned : list (pystr * pystr) :=
  [ (s "PARA", s "para"); (s "MARKDOWN", s "markdown"); (s "USERID", s "userId");
    (s "ELECTRONICMAILADDRESS", s "electronicMailAddress"); (s "ABSTRACT", s "abstract"); (s "COVERAGE", s "coverage");
    (s "DATATABLE", s "dataTable"); (s "INTELLECTUALRIGHTS", s "intellectualRights"); (s "KEYWORDSET", s "keywordSet");
    (s "METHODS", s "methods"); (s "PROJECT", s "project"); (s "KEYWORD", s "keyword");
    (s "ENTITYDESCRIPTION", s "entityDescription"); (s "PHYSICAL", s "physical"); (s "AUTHENTICATION", s "authentication");
    (s "RECORDDELIMITER", s "recordDelimiter"); (s "SIZE", s "size"); (s "DATAFORMAT", s "dataFormat");
    (s "TEXTFORMAT", s "textFormat"); (s "NUMBEROFRECORDS", s "numberOfRecords"); (s "GIVENNAME", s "givenName");
    (s "SURNAME", s "surName"); (s "DATASET", s "dataset") ].

Definition names_agree (consts : list (pystr * pystr)) : bool :=
  forallb (fun p => opt_eqb pystr_eqb (assoc (fst p) consts) (Some (snd p))) names_pinned.

Definition subset (a b : list pystr) : bool := forallb (fun x => smem x b) a.

(** evaluate.node: total, and exact under the hypothesis *)
Theorem node_generic dispatch codes :
  fns_known dispatch = true ->
  forallb (fun c => smem c codes) model_codes = true ->
  forall parent t, exists ev, eval_node dispatch codes parent t = NOk ev /\
    Forall (fun c => In c codes) (codes_of ev) /\
    (assoc_agree dispatch canonical_dispatch = true -> shape_ok t = true -> codes_of ev = unmet parent t).
Proof.
  intros F C parent t. destruct (eval_node_ok dispatch codes F C parent t) as (ev & E & N).
  exists ev. split; [exact E|]. split.
  - rewrite N. pose proof (okc_codes codes C _ (node_new_okc dispatch parent t)) as O.
    apply Forall_forall. intros c Hc. rewrite forallb_forall in O. apply smem_In, O, Hc.
  - intros A SH. rewrite N. apply node_exact; [apply assoc_agree_spec, A | apply shape_ok_all, SH].
Qed.

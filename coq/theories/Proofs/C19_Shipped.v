(* Proofs/C19_Shipped.v — the generic theorems of C19_Main.v instantiated with the GENERATED
   tables; the table obligations are closed by complete enumeration (vm_compute). *)
From MP Require Import Common.Base.
From MP Require Import Common.Tree.
From MP Require Import Gen.Tables.
From MP Require Import Model.PyString.
From MP Require Import Model.Evaluate.
From MP Require Import Spec.Recommend.
From MP Require Import Proofs.C19_Nodes.
From MP Require Import Proofs.C19_Main.
From MP Require Import Proofs.C19_Shape.

Lemma table_codes : forallb (fun c => smem c warn_codes) model_codes = true.
Proof. vm_compute. reflexivity. Qed.

Lemma table_used :
  subset warn_used warn_codes && subset warn_used model_codes && subset model_codes warn_used = true.
Proof. vm_compute. reflexivity. Qed.

Lemma table_dispatch : fns_known eval_dispatch && subset (keys eval_dispatch) (keys node_map) = true.
Proof. vm_compute. reflexivity. Qed.

Lemma table_canonical : assoc_agree eval_dispatch canonical_dispatch = true.
Proof. vm_compute. reflexivity. Qed.

Lemma table_names : names_agree name_consts = true.
Proof. vm_compute. reflexivity. Qed.

Lemma table_fns : fns_known eval_dispatch = true.
Proof. pose proof table_dispatch as H. apply andb_true_iff in H as [H _]. exact H. Qed.

Lemma total_shipped : forall parent t ws, exists new,
  eval_tree eval_dispatch warn_codes parent t ws = EOk (ws ++ new) /\
  Forall (fun w => In (fst w) warn_codes) new.
Proof. exact (total_generic eval_dispatch warn_codes table_fns table_codes). Qed.

Lemma exact_shipped : forall parent t ws, shape_ok t = true ->
  eval_tree eval_dispatch warn_codes parent t ws = EOk (ws ++ expected_at parent t).
Proof. exact (exact_generic eval_dispatch warn_codes table_fns table_codes table_canonical). Qed.

Lemma exact_root_shipped : forall t ws, shape_ok t = true ->
  eval_tree eval_dispatch warn_codes None t ws = EOk (ws ++ expected t).
Proof. intros t ws. exact (exact_shipped None t ws). Qed.

Lemma node_shipped : forall parent t, exists ev,
  eval_node eval_dispatch warn_codes parent t = NOk ev /\
  Forall (fun c => In c warn_codes) (codes_of ev) /\
  (shape_ok t = true -> codes_of ev = unmet parent t).
Proof.
  intros parent t.
  destruct (node_generic eval_dispatch warn_codes table_fns table_codes parent t) as (ev & E & F & X).
  exists ev. split; [exact E|]. split; [exact F|]. intro SH. exact (X table_canonical SH).
Qed.

(** The property speaks of "any tree that passes validation".  For ANY notion of validity that
    guarantees single-valued children, exactness follows; what is not proved here is that
    metapype's validation is such a notion (checked by harness/c19.py on every generated
    tree that passes validate.tree). *)
Definition full_statement (valid : ftree -> Prop) : Prop :=
  forall t ws, valid t ->
    eval_tree eval_dispatch warn_codes None t ws = EOk (ws ++ expected t).

Lemma full_from_shape (valid : ftree -> Prop) :
  (forall t, valid t -> shape_ok t = true) -> full_statement valid.
Proof. intros H t ws V. apply exact_root_shipped. apply H. exact V. Qed.

(** exactness from what validation establishes per node ([lang_ok], Proofs/C19_Shape.v) *)
Lemma exact_lang_shipped : forall t ws, lang_ok t ->
  eval_tree eval_dispatch warn_codes None t ws = EOk (ws ++ expected t).
Proof. intros t ws H. apply exact_root_shipped. apply lang_shape. exact H. Qed.

(* Proofs/C16_Main.v — the C16 statements about the MODEL of expand, assembled from
   C16_Check (check phase = spec_ok), C16_Eq (edit phase realises [expands]) and C16_Post
   (consequences of [expands]); the table obligation; a worked instance. *)
From MP Require Import Common.Base Common.Tree Gen.Tables Model.Rule Model.Expand Model.PruneRun Model.ExpandRun.
From MP Require Import Spec.ExpandSpec Spec.RefShape Proofs.C15_Eq Proofs.C16_Check Proofs.C16_Eq Proofs.C16_Post.

Section Main.
Variable t : ftree.
Hypothesis W : attrs_wf t.
Hypothesis OK : spec_ok t = true.
Hypothesis F : refs_flat t = true.
Hypothesis A : ns_agree t = true.

Lemma flat_clean : clean_sources (src_kids t) t.
Proof.
  intros r Ir. unfold refs_flat in F. rewrite forallb_forall in F. specialize (F r Ir).
  apply andb_true_iff in F. destruct F as [_ F2]. unfold src_kids.
  destruct (target t r) as [x|]; [|constructor].
  apply negb_true_iff in F2. destruct x as [d ks]. rewrite has_ref_unfold in F2.
  apply orb_false_iff in F2. destruct F2 as [_ F2]. cbn [ft_kids].
  clear -F2. induction ks as [|k r IH]; [constructor|]. cbn [existsb] in F2.
  apply orb_false_iff in F2. destruct F2. constructor; [assumption | apply IH; assumption].
Qed.

Section Result.
Variable t' : ftree.
Variable rem : list pystr.
Variable n : nat.
Hypothesis E : expand t = EOk t' rem n.

Lemma result_expands : expands (src_kids t) t t' /\ rem = flat_map ids_of (refs_of t).
Proof.
  destruct (expand_ok t W OK F A) as (t'' & n' & E' & X). rewrite E' in E. inversion E; subst. split; [exact X | reflexivity].
Qed.

Lemma no_refs_left_l : refs_of t' = [].
Proof.
  apply inner_clean_refs. apply (expands_clean (src_kids t) t t'); [apply result_expands | apply flat_clean].
Qed.

Lemma sources_unchanged_l : forall x, outside_refs t x -> has_ref x = false -> In x (preorder t').
Proof. apply (expands_keeps (src_kids t) t t'). apply result_expands. Qed.

End Result.
End Main.

(** referenced elements hold no references node (so [sources_unchanged_l] applies to them) *)
Lemma flat_target t r x : refs_flat t = true -> In r (refs_of t) -> target t r = Some x -> has_ref x = false.
Proof.
  intros F Ir T. unfold refs_flat in F. rewrite forallb_forall in F. specialize (F r Ir).
  apply andb_true_iff in F. destruct F as [_ F2]. rewrite T in F2. apply negb_true_iff, F2.
Qed.

(** table obligation *)
Lemma shipped_ref_shapes : forallb (fun p => rule_ref_shape_ok (snd p)) rules = true.
Proof. vm_compute. reflexivity. Qed.

(** a worked instance: a contact referring to a creator, and an associatedParty with a role *)
Definition ex16 : ftree :=
  FT (mk (s "d") (s "dataset") None [])
     [FT (mk (s "c") (s "creator") None [(s "id", s "p1")])
         [FT (mk (s "c1") (s "organizationName") (Some (s "Org")) []) []; FT (mk (s "c2") (s "phone") (Some (s "1")) []) []];
      FT (mk (s "a") (s "associatedParty") None [])
         [FT (mk (s "a1") (s "references") (Some (s "p1")) []) []; FT (mk (s "a2") (s "role") (Some (s "r")) []) []]].

Lemma ex16_expand :
  expand ex16 =
  EOk (FT (mk (s "d") (s "dataset") None [])
          [FT (mk (s "c") (s "creator") None [(s "id", s "p1")])
              [FT (mk (s "c1") (s "organizationName") (Some (s "Org")) []) []; FT (mk (s "c2") (s "phone") (Some (s "1")) []) []];
           FT (mk (s "a") (s "associatedParty") None [])
              [FT (mk (fresh 0) (s "organizationName") (Some (s "Org")) []) []; FT (mk (fresh 1) (s "phone") (Some (s "1")) []) [];
               FT (mk (s "a2") (s "role") (Some (s "r")) []) []]])
      [s "a1"] 2.
Proof. vm_compute. reflexivity. Qed.

Lemma ex16_hyps : spec_ok ex16 = true /\ refs_flat ex16 = true /\ ns_agree ex16 = true.
Proof. vm_compute. repeat split. Qed.

Lemma ex16_dup :
  expand (FT (mk (s "d") (s "dataset") None [(s "id", s "p1")]) (ft_kids ex16)) = EFail.
Proof. vm_compute. reflexivity. Qed.

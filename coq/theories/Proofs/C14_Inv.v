(* Proofs/C14_Inv.v — the registry invariant over histories of create / copy / attach /
   replace ± delete / delete ± children, with a ghost set of discarded node objects. *)
From MP Require Import Common.Base Common.Tree Model.Heap Model.Namespace Model.Registry
     Model.HeapEdits Model.Copy Model.RegOps
     Proofs.HeapInv Proofs.DictFacts Proofs.C13_Walk Proofs.C13_Refine Proofs.C13_Attach Proofs.C13_Main
     Proofs.C12_Base Proofs.C12_Copy Proofs.C12_Main Proofs.C12_Frame Proofs.C12_Examples Proofs.C14_Delete.

(** ** operations that leave the registry and the identity of every node object alone *)
Definition meta (r : nrec) : pystr * nat * nat := (idstr r, attrs_loc r, extras_loc r).

Definition reg_same (h h' : heap) : Prop :=
  store h' = store h /\ next_id h' = next_id h /\ next_loc h <= next_loc h' /\
  forall m, option_map meta (nget h' m) = option_map meta (nget h m).

Lemma reg_same_refl h : reg_same h h.
Proof. repeat split; auto. Qed.

Lemma reg_same_trans h1 h2 h3 : reg_same h1 h2 -> reg_same h2 h3 -> reg_same h1 h3.
Proof.
  intros (A & B & C & D) (A' & B' & C' & D'). split; [congruence|]. split; [congruence|]. split; [lia|].
  intro m. rewrite D', D. reflexivity.
Qed.

Lemma reg_same_nset h n r0 r' : nget h n = Some r0 -> meta r' = meta r0 -> reg_same h (nset h n r').
Proof.
  intros Hn E. repeat split; auto. intro m. rewrite nget_nset. destruct (Nat.eqb m n) eqn:Em; [|reflexivity].
  apply Nat.eqb_eq in Em; subst m. rewrite Hn. simpl. rewrite E. reflexivity.
Qed.

Lemma ns_frame_reg P wr S h h' : ns_frame P wr S h h' -> reg_same h h'.
Proof.
  intro F. split; [apply F|]. split; [apply F|]. split; [apply F|].
  intro m. destruct (fr_nodes _ _ _ _ _ F m) as [[_ E]|[_ (r & L' & E1 & E2 & _)]].
  - rewrite E; reflexivity.
  - rewrite E1, E2. reflexivity.
Qed.

Lemma merge_loop_reg f par c : forall ps h hf,
  merge_loop f par c ps h = Ok hf -> tree_at h f c -> NsInv h -> reg_same h hf /\ NsInv hf.
Proof.
  induction ps as [|q ps IH]; intros h hf R Ht I; simpl in R.
  - injection R as <-. split; [apply reg_same_refl | exact I].
  - destruct (nget h par) as [rp|]; [|discriminate]. destruct (nget h c) as [rc|]; [|discriminate].
    destruct (assoc q (dget h (ns_loc rc))); [apply IH; assumption|].
    destruct (assoc q (dget h (ns_loc rp))) as [u|]; [|discriminate].
    destruct (add_ns_ok f h c q u Ht I) as (h1 & R1 & F1). rewrite R1 in R. simpl in R.
    pose proof (ns_frame_shape _ _ _ _ _ F1) as Sh.
    assert (I1 : NsInv h1).
    { apply NsInv_heap_ok. eapply (heap_ok_frame wf_dict (dict_set q u)); [exact F1 | apply NsInv_heap_ok, I]. }
    destruct (IH h1 hf R (shape_eq_tree_at _ _ _ _ Sh Ht) I1) as [A B]. split; [|exact B].
    eapply reg_same_trans; [eapply ns_frame_reg; eauto | exact A].
Qed.

Lemma add_child_reg f h par c idx hf :
  add_child f h par c idx = Ok hf -> NsInv h -> tree_at h f c -> ~ desc h c par ->
  reg_same h hf /\ NsInv hf.
Proof.
  intros R I Ht Nd. unfold add_child in R.
  destruct (nget h par) as [rp|] eqn:Hpar; [|discriminate].
  destruct (tree_at_alive _ _ _ Ht) as [rc Hc].
  set (ks := match idx with None => kids rp ++ [c] | Some i => py_insert i c (kids rp) end) in R.
  rewrite (link_c_rec h par c rp rc ks Hc Nd) in R.
  fold (link h par c rp rc ks) in R. set (h2 := link h par c rp rc ks) in *.
  pose proof (c_ne_par h par c Nd) as Ncp.
  pose proof (kids_of_link h par c rp rc ks Hc Nd) as KL.
  pose proof (alive_link h par c rp rc ks Hpar Hc) as AL.
  pose proof (NsInv_link h par c rp rc ks Hpar Hc I) as I2.
  fold h2 in KL, AL, I2.
  assert (RS2 : reg_same h h2).
  { unfold h2, link. eapply reg_same_trans.
    - eapply (reg_same_nset h par rp (set_kids rp ks)); [exact Hpar | reflexivity].
    - eapply (reg_same_nset _ c rc); [apply link_c_rec; assumption | reflexivity]. }
  assert (Hp2 : nget h2 par = Some (set_kids rp ks)).
  { unfold h2. rewrite nget_link. apply Nat.eqb_neq in Ncp. rewrite Nat.eqb_sym in Ncp. rewrite Ncp, Nat.eqb_refl. reflexivity. }
  assert (Hc2 : nget h2 c = Some (set_parent rc (Some par))).
  { unfold h2. rewrite nget_link, Nat.eqb_refl. reflexivity. }
  rewrite Hp2, Hc2 in R.
  destruct (dict_eqb (dget h2 (ns_loc (set_kids rp ks))) (dget h2 (ns_loc (set_parent rc (Some par))))).
  - injection R as <-. split.
    + eapply reg_same_trans; [exact RS2|]. eapply reg_same_nset; [exact Hc2 | reflexivity].
    + constructor.
      * intros m r' Hm. rewrite nget_nset in Hm. simpl. destruct (Nat.eqb m c).
        -- injection Hm as <-. simpl. exact (ns_alloc _ I2 _ _ Hp2).
        -- exact (ns_alloc _ I2 _ _ Hm).
      * exact (ns_wf _ I2).
  - assert (Ht2 : tree_at h2 f c).
    { eapply tree_at_kids; [exact Ht|]. intros m Hm. split; [apply AL; eapply tree_at_desc; eauto|].
      rewrite KL. destruct (Nat.eqb m par) eqn:E; [|reflexivity]. apply Nat.eqb_eq in E; subst m. contradiction. }
    destruct (merge_loop_reg _ _ _ _ _ _ R Ht2 I2) as [A B]. split; [|exact B].
    eapply reg_same_trans; eauto.
Qed.

(** ** the invariant *)
Section RegInvariant.
  Variable uuid : nat -> pystr.
  Hypothesis uuid_inj : forall a b, uuid a = uuid b -> a = b.

  (** the uuid1 oracle never returns an id that is in use: ids it will hand out from now on
      are not carried by any existing node object *)
  Definition UuidFresh (h : heap) : Prop :=
    forall k, next_id h <= k -> forall m r, nget h m = Some r -> idstr r <> uuid k.

  Definition registered (h : heap) (m : nat) : Prop :=
    exists r, nget h m = Some r /\ get_node_instance h (idstr r) = Some m.

  Lemma registered_dec h m : registered h m \/ ~ registered h m.
  Proof.
    unfold registered, get_node_instance. destruct (nget h m) as [r|] eqn:Hm.
    - destruct (assoc (idstr r) (store h)) as [x|] eqn:E.
      + destruct (Nat.eq_dec x m) as [->|N]; [left; eauto|]. right; intros (r' & [= <-] & E'). congruence.
      + right; intros (r' & [= <-] & E'). congruence.
    - right; intros (r' & E' & _); discriminate.
  Qed.

  (** [D]: the ghost set of node objects discarded so far.
      registry domain = created \ discarded:  a node object is registered iff it was not discarded *)
  Record G (h : heap) (D : nat -> Prop) : Prop := {
    g_wf : HeapWf h;
    g_reg : RegInv h;
    g_inj : IdInj h;
    g_fresh : UuidFresh h;
    g_D : forall m, D m -> alive h m;
    g_live1 : forall m, registered h m -> ~ D m;
    g_live2 : forall m, alive h m -> ~ registered h m -> D m
  }.

  Lemma NsInv_of_wf h : HeapWf h -> NsInv h.
  Proof. intros W. constructor; [intros m r Hm; apply (hw_locs _ W _ _ Hm) | apply (hw_dicts _ W)]. Qed.

  (** what an operation is documented to discard (read in the state BEFORE the operation) *)
  Definition discards (h : heap) (o : rop) (m : nat) : Prop :=
    match o with
    | RDelete i true => exists n, get_node_instance h i = Some n /\ desc h n m
    | RDelete i false => get_node_instance h i = Some m
    | RReplace _ old _ true => desc h old m
    | _ => False
    end.

  (** histories of the quantifier: fresh explicit ids outside the uuid range, and operations
      applied to finite trees (all of which the forest invariant implies) *)
  Definition rop_pre (h : heap) (o : rop) : Prop :=
    match o with
    | RCreate _ (Some i) _ => (forall m r, nget h m = Some r -> idstr r <> i) /\ (forall k, i <> uuid k)
    | RCreate _ None _ => True
    | RCopy n => tree_at h (fuel_of h) n
    | RAttach par c _ => tree_at h (fuel_of h) c /\ ~ desc h c par
    | RReplace par old new d => ~ desc h old par /\ ~ desc h old new /\ (d = true -> tree_at h (fuel_of h) old)
    | RDelete i ch => ch = true -> forall n, get_node_instance h i = Some n -> tree_at h (fuel_of h) n
    end.

  (** *** operations that keep registry and identities *)
  Lemma G_reg_same h h' D :
    G h D -> reg_same h h' -> NsInv h' -> G h' D.
  Proof.
    intros Gh (ES & EN & EL & EM) I'.
    assert (Al : forall m, alive h' m <-> alive h m).
    { intro m. specialize (EM m). unfold alive. destruct (nget h' m), (nget h m); simpl in EM; try discriminate; split; intros [x Hx]; eauto; discriminate. }
    assert (Get : forall m r', nget h' m = Some r' -> exists r, nget h m = Some r /\ meta r' = meta r).
    { intros m r' Hm. specialize (EM m). rewrite Hm in EM. destruct (nget h m) as [r|]; simpl in EM; [|discriminate].
      exists r; split; [reflexivity | congruence]. }
    assert (Reg : forall m, registered h' m <-> registered h m).
    { intro m. unfold registered, get_node_instance. rewrite ES. split.
      - intros (r' & Hr' & E). destruct (Get _ _ Hr') as (r & Hr & Em). exists r; split; [exact Hr|].
        assert (idstr r' = idstr r) by (unfold meta in Em; congruence). congruence.
      - intros (r & Hr & E). specialize (EM m). rewrite Hr in EM. destruct (nget h' m) as [r'|] eqn:Hr'; simpl in EM; [|discriminate].
        exists r'; split; [reflexivity|]. assert (idstr r' = idstr r) by (unfold meta in EM; congruence). congruence. }
    pose proof (g_wf _ _ Gh) as W.
    constructor.
    - constructor.
      + intros m r' Hm. destruct (Get _ _ Hm) as (r & Hr & _). rewrite EN. eapply (hw_ids _ W); eauto.
      + intros m r' Hm. destruct (Get _ _ Hm) as (r & Hr & Em). destruct (hw_locs _ W _ _ Hr) as (A1 & A2 & _).
        unfold meta in Em. injection Em as _ E1 E2. rewrite E1, E2.
        split; [lia|]. split; [lia|]. exact (ns_alloc _ I' _ _ Hm).
      + exact (ns_wf _ I').
    - destruct (g_reg _ _ Gh) as [ND RE]. split; [rewrite ES; exact ND|].
      intros k m Hk. rewrite ES in Hk. destruct (RE k m Hk) as (r & Hr & Ei).
      specialize (EM m). rewrite Hr in EM. destruct (nget h' m) as [r'|]; simpl in EM; [|discriminate].
      exists r'; split; [reflexivity|]. unfold meta in EM. congruence.
    - intros a b ra rb Ha Hb E. destruct (Get _ _ Ha) as (ra0 & Ha0 & Ea). destruct (Get _ _ Hb) as (rb0 & Hb0 & Eb).
      eapply (g_inj _ _ Gh); eauto. unfold meta in Ea, Eb. congruence.
    - intros k Hk m r' Hm. destruct (Get _ _ Hm) as (r & Hr & Em). rewrite EN in Hk.
      assert (idstr r' = idstr r) as -> by (unfold meta in Em; congruence). eapply (g_fresh _ _ Gh); eauto.
    - intros m Dm. apply Al, (g_D _ _ Gh), Dm.
    - intros m Rm. apply (g_live1 _ _ Gh), Reg, Rm.
    - intros m Am Nr. apply (g_live2 _ _ Gh); [apply Al, Am | intro Rm; apply Nr, Reg, Rm].
  Qed.

  (** *** create *)
  Lemma G_create h D name i cont :
    G h D -> (forall m r, nget h m = Some r -> idstr r <> i) -> (forall k, next_id h < k -> i <> uuid k) ->
    G (fst (create_node h name i cont)) D.
  Proof.
    intros Gh Fr Fu. set (h' := fst (create_node h name i cont)). set (B := next_id h).
    pose proof (g_wf _ _ Gh) as W. destruct (g_reg _ _ Gh) as [ND RE].
    assert (St : store h' = dict_set i B (store h)) by reflexivity.
    assert (Old : forall m r, nget h m = Some r -> nget h' m = Some r).
    { intros m r Hm. unfold h'. rewrite create_node_get. pose proof (hw_ids _ W _ _ Hm).
      assert (Nat.eqb m (next_id h) = false) as -> by (apply Nat.eqb_neq; lia). exact Hm. }
    assert (Cases : forall m r', nget h' m = Some r' -> (m = B /\ idstr r' = i) \/ (m <> B /\ nget h m = Some r')).
    { intros m r' Hm. unfold h' in Hm. rewrite create_node_get in Hm. fold B in Hm.
      destruct (Nat.eqb m B) eqn:E; [left | right].
      - apply Nat.eqb_eq in E. injection Hm as <-. auto.
      - apply Nat.eqb_neq in E. auto. }
    assert (NewB : exists rb, nget h' B = Some rb /\ idstr rb = i).
    { unfold h'. rewrite create_node_get. fold B. rewrite Nat.eqb_refl. eexists; split; reflexivity. }
    assert (Reg : forall m, m <> B -> (registered h' m <-> registered h m)).
    { intros m Nm. unfold registered, get_node_instance. rewrite St. split.
      - intros (r' & Hr' & E). destruct (Cases _ _ Hr') as [[X _]|[_ Hr]]; [contradiction|].
        exists r'; split; [exact Hr|]. rewrite gassoc_dict_set in E.
        destruct (pystr_eqb_reflect (idstr r') i) as [Ei|_]; [exfalso; eapply Fr; eauto | exact E].
      - intros (r & Hr & E). exists r; split; [apply Old, Hr|]. rewrite gassoc_dict_set.
        destruct (pystr_eqb_reflect (idstr r) i) as [Ei|_]; [exfalso; eapply Fr; eauto | exact E]. }
    constructor.
    - apply create_preserves_wf, W.
    - split; [rewrite St; apply gnodup_dict_set, ND|].
      intros k m Hk. rewrite St, gassoc_dict_set in Hk. destruct (pystr_eqb_reflect k i) as [->|N].
      + injection Hk as <-. exact NewB.
      + destruct (RE k m Hk) as (r & Hr & Ei). exists r; split; [apply Old, Hr | exact Ei].
    - intros a b ra rb Ha Hb E.
      destruct (Cases _ _ Ha) as [[-> Ia]|[Na Ha0]]; destruct (Cases _ _ Hb) as [[-> Ib]|[Nb Hb0]].
      + reflexivity.
      + exfalso. eapply Fr; eauto. congruence.
      + exfalso. eapply Fr; eauto. congruence.
      + eapply (g_inj _ _ Gh); eauto.
    - intros k Hk m r' Hm. change (next_id h') with (S B) in Hk.
      destruct (Cases _ _ Hm) as [[-> Im]|[Nm Hm0]].
      + rewrite Im. apply Fu. fold B. lia.
      + eapply (g_fresh _ _ Gh); eauto. fold B. lia.
    - intros m Dm. destruct (g_D _ _ Gh _ Dm) as [r Hr]. exists r; apply Old, Hr.
    - intros m Rm Dm. destruct (g_D _ _ Gh _ Dm) as [r Hr].
      assert (Nm : m <> B) by (pose proof (hw_ids _ W _ _ Hr); fold B in H; lia).
      apply (g_live1 _ _ Gh m); [apply Reg; assumption | exact Dm].
    - intros m [r' Hm] Nr. destruct (Cases _ _ Hm) as [[-> Im]|[Nm Hm0]].
      + exfalso. apply Nr. exists r'; split; [exact Hm|]. unfold get_node_instance.
        rewrite St, gassoc_dict_set, Im, pystr_eqb_refl. reflexivity.
      + apply (g_live2 _ _ Gh); [eexists; eauto | intro Rm; apply Nr, Reg; assumption].
  Qed.

  (** *** copy *)
  Lemma new_or_not (k : pystr) (lo hi : nat) :
    (exists m, lo <= m < hi /\ k = uuid m) \/ (forall m, lo <= m < hi -> k <> uuid m).
  Proof.
    induction hi as [|hi IH]; [right; intros; lia|].
    destruct IH as [(m & Hm & E)|N]; [left; exists m; split; [lia | exact E]|].
    destruct (Nat.le_gt_cases lo hi) as [Le|Gt].
    - destruct (pystr_eq_dec k (uuid hi)) as [E|Ne]; [left; exists hi; split; [lia | exact E]|].
      right. intros m Hm. destruct (Nat.eq_dec m hi) as [->|]; [exact Ne | apply N; lia].
    - right; intros; lia.
  Qed.

  Lemma G_copy h D n h' n' :
    G h D -> CopyPost uuid h n h' n' -> G h' D.
  Proof.
    intros Gh P. pose proof (g_wf _ _ Gh) as W. destruct (g_reg _ _ Gh) as [ND RE].
    set (B := next_id h).
    assert (Old : forall m r, nget h m = Some r -> nget h' m = Some r).
    { intros m r Hm. rewrite (cp_old_nodes _ _ _ _ _ P); [exact Hm | eapply (hw_ids _ W); eauto]. }
    assert (Cases : forall m r', nget h' m = Some r' ->
              (B <= m < next_id h' /\ idstr r' = uuid m /\ assoc (uuid m) (store h') = Some m) \/ (m < B /\ nget h m = Some r')).
    { intros m r' Hm. destruct (Nat.lt_ge_cases m B) as [Lt|Ge].
      - right; split; [exact Lt|]. rewrite <- (cp_old_nodes _ _ _ _ _ P); assumption.
      - left. pose proof (hw_ids _ (cp_wf _ _ _ _ _ P) _ _ Hm) as Hlt.
        destruct (cp_new _ _ _ _ _ P m (conj Ge Hlt)) as (r1 & Hr1 & I1 & S1 & _).
        rewrite Hm in Hr1; injection Hr1 as <-. auto. }
    assert (OldKey : forall m r, nget h m = Some r -> assoc (idstr r) (store h') = assoc (idstr r) (store h)).
    { intros m r Hm. apply (cp_store _ _ _ _ _ P). intros m' Hm' E. eapply (g_fresh _ _ Gh m'); eauto. lia. }
    assert (Reg : forall m, m < B -> (registered h' m <-> registered h m)).
    { intros m Lt. unfold registered, get_node_instance. split.
      - intros (r' & Hr' & E). destruct (Cases _ _ Hr') as [[X _]|[_ Hr]]; [lia|].
        exists r'; split; [exact Hr|]. rewrite <- (OldKey _ _ Hr). exact E.
      - intros (r & Hr & E). exists r; split; [apply Old, Hr|]. rewrite (OldKey _ _ Hr). exact E. }
    constructor.
    - apply (cp_wf _ _ _ _ _ P).
    - split; [apply (cp_store_nodup _ _ _ _ _ P), ND|].
      intros k m Hk. destruct (new_or_not k B (next_id h')) as [(m' & Hm' & ->)|N].
      + destruct (cp_new _ _ _ _ _ P m' Hm') as (r1 & Hr1 & I1 & S1 & _). rewrite S1 in Hk; injection Hk as <-.
        exists r1; auto.
      + rewrite (cp_store _ _ _ _ _ P k N) in Hk. destruct (RE k m Hk) as (r & Hr & Ei). exists r; split; [apply Old, Hr | exact Ei].
    - intros a b ra rb Ha Hb E.
      destruct (Cases _ _ Ha) as [(Ra & Ia & _)|[La Ha0]]; destruct (Cases _ _ Hb) as [(Rb & Ib & _)|[Lb Hb0]].
      + apply uuid_inj. congruence.
      + exfalso. eapply (g_fresh _ _ Gh a); [fold B; lia | exact Hb0 | congruence].
      + exfalso. eapply (g_fresh _ _ Gh b); [fold B; lia | exact Ha0 | congruence].
      + eapply (g_inj _ _ Gh); eauto.
    - intros k Hk m r' Hm. destruct (Cases _ _ Hm) as [(Rm & Im & _)|[Lm Hm0]].
      + rewrite Im. intro E. apply uuid_inj in E. lia.
      + eapply (g_fresh _ _ Gh); eauto. pose proof (cp_ids _ _ _ _ _ P). lia.
    - intros m Dm. destruct (g_D _ _ Gh _ Dm) as [r Hr]. exists r; apply Old, Hr.
    - intros m Rm Dm. destruct (g_D _ _ Gh _ Dm) as [r Hr]. pose proof (hw_ids _ W _ _ Hr) as Lt. fold B in Lt.
      apply (g_live1 _ _ Gh m); [apply Reg; assumption | exact Dm].
    - intros m [r' Hm] Nr. destruct (Cases _ _ Hm) as [(Rm & Im & Sm)|[Lm Hm0]].
      + exfalso. apply Nr. exists r'; split; [exact Hm|]. unfold get_node_instance. rewrite Im. exact Sm.
      + apply (g_live2 _ _ Gh); [eexists; eauto | intro Rm; apply Nr, Reg; assumption].
  Qed.
End RegInvariant.

(* Proofs/C08_Stable.v — C08, second half: exporting an imported tree and importing it
   again.  The chain is defined on the models ([reimport]) and the full statement as a
   Prop (proved in Proofs/C08_Chain.v); here: the export of an imported tree is well-formed and parses back to
   it up to surrounding white space (C07_general), the white-space policy maps such a text
   back to the imported one (policy_ws_stable, Proofs/C08_Policy.v), a witness of the full
   statement and the refutation for the alias class (known finding). *)
From MP Require Import Common.Base Common.Tree Common.XStr Spec.Xml Spec.XmlSim Spec.Infoset Spec.Mirror
  Model.XmlOut Model.XmlIn Proofs.C07_General Proofs.C08_Policy Proofs.C08_Mirror.
Local Open Scope N_scope.

(** an imported tree as an exporter input: no default-namespace key *)
Fixpoint nsmap_str (m : list (option pystr * pystr)) : option (list (pystr * pystr)) :=
  match m with
  | [] => Some []
  | (Some p, u) :: r => option_map (cons (p, u)) (nsmap_str r)
  | (None, _) :: _ => None
  end.

Fixpoint to_ftree (t : itree) {struct t} : option ftree :=
  let 'IT d kids := t in
  match nsmap_str (i_nsmap d),
        (fix go (ks : list itree) : option (list ftree) :=
           match ks with
           | [] => Some []
           | k :: r => match to_ftree k, go r with
                       | Some a, Some b => Some (a :: b)
                       | _, _ => None
                       end
           end) kids with
  | Some m, Some ks =>
      Some (FT {| n_id := []; n_name := i_name d; n_content := i_content d; n_tail := i_tail d;
                  n_prefix := i_prefix d; n_attrs := i_attrs d; n_extras := i_extras d; n_nsmap := m |} ks)
  | _, _ => None
  end.

(** export (metapype_io.to_xml), parse (the specification parser, read as lxml would), import *)
Definition reimport (clean collapse : bool) (literals : list pystr) (t : itree) : res itree :=
  match to_ftree t with
  | None => Crash (s "default-namespace")
  | Some ft =>
      match xparse (to_xml_top ft) with
      | None => Crash (s "XMLSyntaxError")
      | Some x => process_element clean collapse literals (lxml_of [] x)
      end
  end.

(** the same tree up to the white-space policy: everything equal, in-scope bindings as a
    finite map, content and tail up to surrounding white space *)
Definition ws_sameb (a b : option pystr) : bool := pystr_eqb (strip (otext' a)) (strip (otext' b)).

Definition omap_equivb (a b : list (option pystr * pystr)) : bool :=
  Nat.eqb (length a) (length b) &&
  forallb (fun kv => opt_eqb pystr_eqb (oassoc (fst kv) a) (oassoc (fst kv) b)) (a ++ b).

Definition dict_eqb' (a b : list (pystr * pystr)) : bool :=
  list_eqb (fun x y => pystr_eqb (fst x) (fst y) && pystr_eqb (snd x) (snd y)) a b.

Fixpoint stable_relb (a b : itree) {struct a} : bool :=
  let 'IT da ka := a in
  let 'IT db kb := b in
  pystr_eqb (i_name da) (i_name db) && opt_eqb pystr_eqb (i_prefix da) (i_prefix db)
  && dict_eqb' (i_attrs da) (i_attrs db) && dict_eqb' (i_extras da) (i_extras db)
  && omap_equivb (i_nsmap da) (i_nsmap db)
  && ws_sameb (i_content da) (i_content db) && ws_sameb (i_tail da) (i_tail db)
  && (fix go (x y : list itree) {struct x} : bool :=
        match x, y with
        | [], [] => true
        | p :: x', q :: y' => stable_relb p q && go x' y'
        | _, _ => false
        end) ka kb.

(** no namespace name of a qualified attribute is bound to two prefixes in scope *)
Definition alias_free_node (m : list (option pystr * pystr)) (attrib : list (pystr * pystr)) : bool :=
  forallb (fun nv => match clark_split (fst nv) with
                     | Some (u, _) => Nat.leb (length (filter (fun kv => pystr_eqb u (snd kv)) m)) 1
                     | None => true
                     end) attrib.

Fixpoint uri_prefix_unique (e : xel) {struct e} : bool :=
  let 'XEl _ _ _ m _ _ attrib kids := e in
  alias_free_node m attrib && forallb uri_prefix_unique kids.

(** the lexical part of the exporter's precondition class, on the imported tree *)
Definition exportable (ft : ftree) : Prop :=
  xml_names ft /\ prefixes_bound ft /\ xml_values ft /\ dicts_wf ft /\ ns_closed ft
  /\ n_tail (ft_d ft) = None.

(** the full statement; proved in Proofs/C08_Chain.v (C08_stable_proof) *)
Definition C08_stable_statement : Prop :=
  forall clean collapse literals e t ft,
    infoset_ok e -> uri_prefix_unique e = true ->
    process_element clean collapse literals e = Ok t ->
    to_ftree t = Some ft -> exportable ft ->
    exists t2, reimport clean collapse literals t = Ok t2 /\ stable_relb t2 t = true.

(** proved: the export of the imported tree is well-formed and its parse is the imported
    tree up to surrounding white space of content and tails *)
Theorem C08_stable_partial_proof clean collapse literals e t ft :
  infoset_ok e ->
  process_element clean collapse literals e = Ok t ->
  to_ftree t = Some ft -> exportable ft ->
  itree_equiv t (mirror clean collapse literals e)
  /\ exists x, xparse (to_xml_top ft) = Some x /\ sim [] x ft.
Proof.
  intros Hok Hp Hf (H1 & H2 & H3 & H4 & H5 & H6). split.
  - destruct (C08_mirror_proof clean collapse literals e Hok) as (t' & Et & Q & _). congruence.
  - apply C07_general_proof; assumption.
Qed.

(** * Witness and refutation, by evaluation of the models *)
Definition el (tag : pystr) (pfx : option pystr) (m : list (option pystr * pystr))
           (text tail : option pystr) (attrib : list (pystr * pystr)) (kids : list xel) : xel :=
  XEl LElem tag pfx m text tail attrib kids.

(** the document  r[xmlns:p=urn:a xmlns:q=urn:b p:k="v&" id="1"]( " t " , p:c[xmlns:p=urn:c]("x  y") tail " z", comment, d ) *)
Definition doc_ok : xel :=
  let m0 := [(Some (s "p"), s "urn:a"); (Some (s "q"), s "urn:b")] in
  let m1 := [(Some (s "p"), s "urn:c"); (Some (s "q"), s "urn:b")] in
  el (s "r") None m0 (Some (s " t ")) None
     [(s "{urn:a}k", s "v&"); (s "id", s "1"); (s "{http://www.w3.org/XML/1998/namespace}lang", s "en")]
     [el (s "{urn:c}c") (Some (s "p")) m1 (Some (s "x  y")) (Some (s " z")) [] [];
      XEl LComment [] None [] (Some (s " c ")) (Some (s " ")) [] [];
      el (s "d") None m0 None (Some [10]) [] []].

Example doc_ok_in_class : infoset_ok doc_ok /\ uri_prefix_unique doc_ok = true.
Proof. split; vm_compute; reflexivity. Qed.

Definition chain_ok (clean collapse : bool) (e : xel) : bool :=
  match process_element clean collapse [] e with
  | Ok t => match reimport clean collapse [] t with
            | Ok t2 => stable_relb t2 t
            | Crash _ => false
            end
  | Crash _ => false
  end.

Example C08_stable_witness_proof :
  chain_ok true false doc_ok = true /\ chain_ok true true doc_ok = true
  /\ chain_ok false false doc_ok = true /\ chain_ok false true doc_ok = true.
Proof. repeat split; vm_compute; reflexivity. Qed.

(** the alias class: two prefixes bound to one namespace name, a redundant re-declaration in
    a subtree, a qualified attribute — the second import names the attribute b:x, the first a:x *)
Definition doc_alias : xel :=
  let m0 := [(Some (s "a"), s "u"); (Some (s "b"), s "u")] in
  let m1 := [(Some (s "b"), s "u"); (Some (s "a"), s "u")] in
  el (s "r") None m0 None None []
     [el (s "c") None m1 None None [(s "{u}x", s "1")] []].

Example C08_alias_refuted_proof :
  infoset_ok doc_alias /\ uri_prefix_unique doc_alias = false /\ chain_ok true false doc_alias = false.
Proof. repeat split; vm_compute; reflexivity. Qed.

(* Proofs/C07_Ns.v — stage 3c of C07: the parse result [layout] is namespace-well-formed
   and is the tree up to surrounding white space ([sim]); the theorem C07_general. *)
From MP Require Import Common.Base Common.Tree Common.XStr Spec.Xml Spec.XmlSim Model.XmlOut
  Proofs.C07_Escape Proofs.C07_Lex Proofs.C07_Parse Proofs.C07_Top.
Local Open Scope N_scope.

(** * strip and the exporter's indentation *)
Definition all_space (w : pystr) : Prop := forallb is_py_space w = true.

Lemma lstrip_space w : all_space w -> lstrip w = [].
Proof.
  unfold all_space. induction w as [|c w IH]; [reflexivity|]. simpl. intro H.
  apply andb_true_iff in H as [Hc Hw]. rewrite Hc. exact (IH Hw).
Qed.

Lemma lstrip_app a w :
  lstrip (a ++ w) = if forallb is_py_space a then lstrip w else lstrip a ++ w.
Proof.
  induction a as [|c a IH]; [reflexivity|]. cbn [app lstrip forallb].
  destruct (is_py_space c); [exact IH | reflexivity].
Qed.

Lemma rstrip_space w : all_space w -> rstrip w = [].
Proof.
  unfold all_space, rstrip. induction w as [|c w IH]; [reflexivity|]. cbn [forallb fold_right]. intro H.
  apply andb_true_iff in H as [Hc Hw]. rewrite (IH Hw), Hc. reflexivity.
Qed.

Lemma rstrip_app a w : all_space w -> rstrip (a ++ w) = rstrip a.
Proof.
  intro Hw. induction a as [|c a IH]; [exact (rstrip_space w Hw)|].
  unfold rstrip in *. cbn [app fold_right]. rewrite IH. reflexivity.
Qed.

Lemma strip_app_r a w : all_space w -> strip (a ++ w) = strip a.
Proof.
  intro Hw. unfold strip. rewrite lstrip_app.
  destruct (forallb is_py_space a) eqn:Ea.
  - rewrite (lstrip_space w Hw), (lstrip_space a Ea). reflexivity.
  - apply rstrip_app, Hw.
Qed.

Lemma strip_app_l w a : all_space w -> strip (w ++ a) = strip a.
Proof. intro Hw. unfold strip. rewrite lstrip_app. unfold all_space in Hw. rewrite Hw. reflexivity. Qed.

Lemma strip_space w : all_space w -> strip w = [].
Proof. intro H. unfold strip. rewrite (lstrip_space w H). reflexivity. Qed.

Lemma all_space_indent n : all_space (indent n).
Proof. unfold all_space, indent, spaces. induction (2 * n)%nat; [reflexivity|exact IHn0]. Qed.

Lemma all_space_nl : all_space nl.
Proof. reflexivity. Qed.

Lemma all_space_app a b : all_space a -> all_space b -> all_space (a ++ b).
Proof. unfold all_space. intros Ha Hb. rewrite forallb_app, Ha, Hb. reflexivity. Qed.

Lemma all_space_close level d : all_space (close_indent level d).
Proof. unfold close_indent. destruct (n_content d); [reflexivity | apply all_space_indent]. Qed.

Lemma ws_layout_text level d kids : ws_eq (layout_text level d kids) (n_content d).
Proof.
  unfold ws_eq, layout_text. destruct (n_content d) as [c|]; cbn [otext]; destruct (is_nil kids).
  - reflexivity.
  - apply strip_app_r, all_space_indent.
  - reflexivity.
  - rewrite strip_space by (apply all_space_app; [apply all_space_nl | apply all_space_indent]).
    reflexivity.
Qed.

Lemma ws_kid_tail level d k last : ws_eq (kid_tail level d k last) (n_tail (ft_d k)).
Proof.
  unfold ws_eq, kid_tail. rewrite strip_app_l by apply all_space_nl.
  apply strip_app_r. destruct last; [apply all_space_close | apply all_space_indent].
Qed.

(** * Association lists *)
Lemma assoc_app {V} p (a b : list (pystr * V)) :
  assoc p (a ++ b) = match assoc p a with Some v => Some v | None => assoc p b end.
Proof.
  induction a as [|[k v] a IH]; [reflexivity|]. cbn [app assoc].
  destruct (pystr_eqb p k); [reflexivity | exact IH].
Qed.

Lemma assoc_filter_key {V} p (ks : list pystr) (m : list (pystr * V)) :
  assoc p (filter (fun kv => negb (smem (fst kv) ks)) m) = if smem p ks then None else assoc p m.
Proof.
  induction m as [|[k v] m IH]; [destruct (smem p ks); reflexivity|]. cbn [filter fst].
  destruct (pystr_eqb_reflect p k) as [->|NE].
  - destruct (smem k ks) eqn:E; cbn [negb].
    + exact IH.
    + cbn [assoc]. rewrite pystr_eqb_refl. reflexivity.
  - destruct (smem k ks) eqn:E; cbn [negb].
    + rewrite IH. cbn [assoc]. apply pystr_eqb_neq in NE. rewrite NE. reflexivity.
    + cbn [assoc]. apply pystr_eqb_neq in NE. rewrite NE. exact IH.
Qed.

Lemma assoc_In_keys {V} p (m : list (pystr * V)) v : assoc p m = Some v -> In p (keys m).
Proof. intro H. apply assoc_Some_In in H. unfold keys. apply in_map_iff. exists (p, v). auto. Qed.

Lemma assoc_filter_nodup {V} (f : pystr * V -> bool) p (m : list (pystr * V)) :
  NoDup (keys m) ->
  assoc p (filter f m) = match assoc p m with
                         | Some v => if f (p, v) then Some v else None
                         | None => None
                         end.
Proof.
  unfold keys. induction m as [|[k v] m IH]; [reflexivity|]. cbn [map fst]. intro H.
  inversion H as [|? ? Hk Hm]; subst. cbn [filter assoc].
  destruct (pystr_eqb_reflect p k) as [->|NE].
  - destruct (f (k, v)) eqn:Ef.
    + cbn [assoc]. rewrite pystr_eqb_refl. reflexivity.
    + rewrite (IH Hm).
      destruct (assoc k m) as [v'|] eqn:E; [|reflexivity].
      exfalso. apply Hk. exact (assoc_In_keys k m v' E).
  - destruct (f (k, v)).
    + cbn [assoc]. apply pystr_eqb_neq in NE. rewrite NE. exact (IH Hm).
    + exact (IH Hm).
Qed.

Lemma assoc_scope_ext p decls scope :
  assoc p (scope_ext decls scope) =
  match assoc p decls with Some v => Some v | None => assoc p scope end.
Proof.
  unfold scope_ext. rewrite assoc_app, assoc_filter_key.
  destruct (assoc p decls) eqn:E; [reflexivity|].
  apply assoc_None_keys in E. apply smem_false in E. rewrite E. reflexivity.
Qed.

(** * The scope of every element is its node's namespace map *)
Definition closed_in (pm m : list (pystr * pystr)) : Prop :=
  forall p, In p (keys pm) -> In p (keys m).

Lemma scope_root m : scope_agrees (scope_ext m []) m.
Proof. intro p. rewrite assoc_scope_ext. destruct (assoc p m); reflexivity. Qed.

Lemma scope_child scope pm d :
  scope_agrees scope pm -> closed_in pm (n_nsmap d) -> NoDup (keys (n_nsmap d)) ->
  scope_agrees (scope_ext (emitted_decls (Some pm) d) scope) (n_nsmap d).
Proof.
  intros Hs Hc Hn p. rewrite assoc_scope_ext, Hs. cbn [emitted_decls].
  assert (Hnone : assoc p (n_nsmap d) = None -> assoc p pm = None).
  { intro E. apply assoc_None_keys. intro Hin. apply Hc in Hin.
    apply assoc_None_keys in E. exact (E Hin). }
  destruct (dict_eq_unord (n_nsmap d) pm) eqn:Eq; cbn [negb assoc].
  - unfold dict_eq_unord in Eq. apply andb_true_iff in Eq as [_ Eq]. rewrite forallb_forall in Eq.
    destruct (assoc p (n_nsmap d)) as [v|] eqn:E; [|exact (Hnone eq_refl)].
    specialize (Eq (p, v) (assoc_Some_In p _ v E)). cbn [fst snd] in Eq.
    destruct (assoc p pm) as [v'|]; [|discriminate]. apply pystr_eqb_eq in Eq. subst. reflexivity.
  - unfold nsp_unique. rewrite (assoc_filter_nodup _ p (n_nsmap d) Hn).
    destruct (assoc p (n_nsmap d)) as [v|] eqn:E; [|exact (Hnone eq_refl)].
    cbn [fst snd]. destruct (assoc p pm) as [v'|] eqn:E'; [|reflexivity].
    destruct (pystr_eqb_reflect v v') as [->|NE]; reflexivity.
Qed.

(** * The attribute list of an element, by origin *)
Lemma decl_of_plain k v : is_ncname k = true -> decl_of (k, v) = None.
Proof. intro H. unfold decl_of. cbn [fst]. rewrite split_colon_plain by exact H. reflexivity. Qed.

Lemma decl_of_decl kv : decl_of (decl_attr kv) = Some kv.
Proof.
  destruct kv as [k v]. unfold decl_of, decl_attr. cbn [fst snd]. fold xmlns_colon.
  rewrite split_colon_decl, pystr_eqb_refl. reflexivity.
Qed.

Lemma decl_of_qual k v p l :
  split_colon k = (Some p, l) -> p <> xmlns_str -> decl_of (k, v) = None.
Proof.
  intros Hs Hne. unfold decl_of. cbn [fst]. rewrite Hs. apply pystr_eqb_neq in Hne. rewrite Hne. reflexivity.
Qed.

Lemma flat_map_nil {A B} (f : A -> list B) l : (forall x, In x l -> f x = []) -> flat_map f l = [].
Proof.
  induction l as [|x l IH]; intro H; [reflexivity|]. cbn [flat_map].
  rewrite (H x (or_introl eq_refl)), IH; [reflexivity|]. intros y Hy. apply H. right. exact Hy.
Qed.

Lemma filter_all {A} (f : A -> bool) l : (forall x, In x l -> f x = true) -> filter f l = l.
Proof.
  induction l as [|x l IH]; intro H; [reflexivity|]. cbn [filter].
  rewrite (H x (or_introl eq_refl)), IH; [reflexivity|]. intros y Hy. apply H. right. exact Hy.
Qed.

Lemma filter_none {A} (f : A -> bool) l : (forall x, In x l -> f x = false) -> filter f l = [].
Proof.
  induction l as [|x l IH]; intro H; [reflexivity|]. cbn [filter].
  rewrite (H x (or_introl eq_refl)), IH; [reflexivity|]. intros y Hy. apply H. right. exact Hy.
Qed.

Section Origin.
  Variable parent : option (list (pystr * pystr)).
  Variable d : nd.
  Hypothesis L : lex_ok d.

  Lemma attr_plain a : In a (n_attrs d) -> split_colon (fst a) = (None, fst a) /\ decl_of a = None
                                           /\ fst a <> xmlns_str.
  Proof.
    intro Hin. pose proof (lx_attrs d L) as H. rewrite Forall_forall in H. specialize (H a Hin).
    unfold attr_name_ok in H. apply andb_true_iff in H as [H1 H2]. apply xml_name_ncname in H1.
    destruct a as [k v]. cbn [fst] in *. repeat split.
    - apply split_colon_plain, H1.
    - apply decl_of_plain, H1.
    - apply negb_true_iff, pystr_eqb_neq in H2. exact H2.
  Qed.

  Lemma attr_qual a : In a (n_extras d) ->
    exists p l, split_colon (fst a) = (Some p, l) /\ p <> xmlns_str /\ decl_of a = None.
  Proof.
    intro Hin. pose proof (lx_extras d L) as H. rewrite Forall_forall in H.
    destruct (H a Hin) as (p & l & Hs & _ & _ & Hne). exists p, l. repeat split; auto.
    destruct a as [k v]. cbn [fst] in *. exact (decl_of_qual k v p l Hs Hne).
  Qed.

  Lemma own_decls_all : own_decls (all_attrs parent d) = emitted_decls parent d.
  Proof.
    unfold own_decls, all_attrs. rewrite !flat_map_app.
    rewrite (flat_map_nil _ (n_attrs d)), (flat_map_nil _ (n_extras d)).
    - rewrite app_nil_r. cbn [app]. induction (emitted_decls parent d) as [|kv l IH]; [reflexivity|].
      cbn [map flat_map]. rewrite decl_of_decl, IH. reflexivity.
    - intros a Ha. destruct (attr_qual a Ha) as (p & l & _ & _ & E). rewrite E. reflexivity.
    - intros a Ha. destruct (attr_plain a Ha) as (_ & E & _). rewrite E. reflexivity.
  Qed.

  Lemma plain_all : filter (fun a => match split_colon (fst a) with (None, _) => true | _ => false end)
                           (all_attrs parent d) = n_attrs d.
  Proof.
    unfold all_attrs. rewrite !filter_app.
    rewrite (filter_all _ (n_attrs d)), (filter_none _ (map decl_attr _)), (filter_none _ (n_extras d)).
    - rewrite !app_nil_r. reflexivity.
    - intros a Ha. destruct (attr_qual a Ha) as (p & l & E & _). rewrite E. reflexivity.
    - intros a Ha. apply in_map_iff in Ha as ([k v] & <- & _). unfold decl_attr. cbn [fst].
      fold xmlns_colon. rewrite split_colon_decl. reflexivity.
    - intros a Ha. destruct (attr_plain a Ha) as (E & _). rewrite E. reflexivity.
  Qed.

  Lemma qual_all : filter (fun a => match split_colon (fst a) with
                                    | (Some _, _) => negb (is_decl a)
                                    | _ => false
                                    end) (all_attrs parent d) = n_extras d.
  Proof.
    unfold all_attrs. rewrite !filter_app.
    rewrite (filter_none _ (n_attrs d)), (filter_none _ (map decl_attr _)), (filter_all _ (n_extras d)).
    - reflexivity.
    - intros a Ha. destruct (attr_qual a Ha) as (p & l & E & _ & E2). rewrite E. unfold is_decl. rewrite E2. reflexivity.
    - intros a Ha. apply in_map_iff in Ha as (kv & <- & _). unfold is_decl. rewrite decl_of_decl.
      destruct (split_colon (fst (decl_attr kv))) as [[?|] ?]; reflexivity.
    - intros a Ha. destruct (attr_plain a Ha) as (E & _). rewrite E. reflexivity.
  Qed.
End Origin.

Lemma local_prefix_tag d : lex_ok d ->
  split_colon (tag_of d) = (n_prefix d, n_name d).
Proof.
  intro L. unfold tag_of. pose proof (lx_prefix d L) as Hp. destruct (n_prefix d) as [p|].
  - apply split_colon_pfx, Hp.
  - apply split_colon_plain, (lx_name d L).
Qed.

(** * Namespace well-formedness and the relation, together *)
Record ns_node_ok (d : nd) : Prop := {
  nn_bound : bound_ok d = true;
  nn_dicts : dicts_ok d = true
}.

Inductive tree_ns : ftree -> Prop :=
| TN d kids : ns_node_ok d ->
              Forall (fun k => closed_in (n_nsmap d) (n_nsmap (ft_d k)) /\ tree_ns k) kids ->
              tree_ns (FT d kids).

Lemma uri_of_agrees sc m p : scope_agrees sc m -> uri_of sc p = uri_of m p.
Proof. intro H. unfold uri_of. destruct (pystr_eqb p xml_str); [reflexivity | apply H]. Qed.

Lemma bound_uri m p : bound m p = true -> exists u, uri_of m p = Some u.
Proof.
  unfold bound, uri_of. destruct (pystr_eqb p xml_str); [eauto|]. cbn [orb]. intro H.
  apply smem_In in H. destruct (assoc p m) as [u|] eqn:E; [eauto|].
  apply assoc_None_keys in E. contradiction.
Qed.

Lemma node_ns_ok parent d sc :
  lex_ok d -> ns_node_ok d ->
  scope_agrees sc (n_nsmap d) ->
  sc = scope_ext (own_decls (all_attrs parent d)) (match parent with None => [] | Some _ => sc end) \/ True ->
  negb (existsb is_default_decl (all_attrs parent d)) = true
  /\ forallb decl_legal (emitted_decls parent d) = true
  /\ qname_bound sc (tag_of d) = true
  /\ forallb (fun a => is_decl a || qname_bound sc (fst a)) (all_attrs parent d) = true
  /\ nodup_keys (expanded sc (all_attrs parent d)) = true.
Proof.
  intros L [Hb Hd] Hs _.
  unfold bound_ok in Hb. apply andb_true_iff in Hb as [Hb Hleg]. apply andb_true_iff in Hb as [Hbp Hbe].
  unfold dicts_ok in Hd. apply andb_true_iff in Hd as [_ Hexp].
  rewrite forallb_forall in Hbe, Hleg.
  repeat split.
  - (* no default-namespace declaration *)
    apply negb_true_iff. destruct (existsb is_default_decl (all_attrs parent d)) eqn:E; [|reflexivity].
    exfalso. apply existsb_exists in E as (a & Hin & Ha). unfold is_default_decl in Ha.
    apply pystr_eqb_eq in Ha. unfold all_attrs in Hin.
    apply in_app_or in Hin as [Hin|Hin]; [|apply in_app_or in Hin as [Hin|Hin]].
    + destruct (attr_plain d L a Hin) as (_ & _ & Hne). exact (Hne Ha).
    + apply in_map_iff in Hin as ([k v] & <- & _). unfold decl_attr in Ha. cbn [fst] in Ha.
      apply (f_equal (@length N)) in Ha. rewrite app_length in Ha. cbn in Ha. lia.
    + destruct (attr_qual d L a Hin) as (p & l & E & _). rewrite Ha in E. cbv in E. discriminate.
  - apply forallb_forall. intros kv Hin. apply Hleg. exact (emitted_incl parent d kv Hin).
  - unfold qname_bound. rewrite (local_prefix_tag d L). destruct (n_prefix d) as [p|]; [|reflexivity].
    rewrite (uri_of_agrees sc _ p Hs). destruct (bound_uri _ p Hbp) as [u ->]. reflexivity.
  - apply forallb_forall. intros a Hin. unfold all_attrs in Hin.
    apply in_app_or in Hin as [Hin|Hin]; [|apply in_app_or in Hin as [Hin|Hin]].
    + destruct (attr_plain d L a Hin) as (E & _). unfold qname_bound. rewrite E. apply orb_true_r.
    + apply in_map_iff in Hin as (kv & <- & _). unfold is_decl. rewrite decl_of_decl. reflexivity.
    + destruct (attr_qual d L a Hin) as (p & l & E & _). unfold qname_bound. rewrite E.
      specialize (Hbe a Hin). rewrite E in Hbe. rewrite (uri_of_agrees sc _ p Hs).
      destruct (bound_uri _ p Hbe) as [u ->]. apply orb_true_r.
  - (* expanded names of the qualified attributes are distinct *)
    assert (E : expanded sc (all_attrs parent d) = map (expand_key (n_nsmap d)) (keys (n_extras d))).
    { unfold expanded, all_attrs. rewrite !flat_map_app.
      rewrite (flat_map_nil _ (n_attrs d)), (flat_map_nil _ (map decl_attr _)).
      - cbn [app]. unfold keys. rewrite map_map.
        assert (G : forall l, incl l (n_extras d) ->
                  flat_map (fun a => if is_decl a then []
                                     else match split_colon (fst a) with
                                          | (Some p, l0) => match uri_of sc p with Some u => [u ++ [0] ++ l0] | None => [] end
                                          | (None, _) => []
                                          end) l
                  = map (fun x => expand_key (n_nsmap d) (fst x)) l).
        { induction l as [|a l IH]; intro Hi; [reflexivity|]. cbn [flat_map map].
          rewrite IH by (intros y Hy; apply Hi; right; exact Hy).
          assert (Ha : In a (n_extras d)) by (apply Hi; left; reflexivity).
          destruct (attr_qual d L a Ha) as (p & l0 & E & _ & E2). unfold is_decl. rewrite E2.
          unfold expand_key. rewrite E. specialize (Hbe a Ha). rewrite E in Hbe.
          rewrite (uri_of_agrees sc _ p Hs). destruct (bound_uri _ p Hbe) as [u ->]. reflexivity. }
        apply G, incl_refl.
      - intros a Ha. apply in_map_iff in Ha as (kv & <- & _). unfold is_decl. rewrite decl_of_decl. reflexivity.
      - intros a Ha. destruct (attr_plain d L a Ha) as (E & E2 & _). unfold is_decl. rewrite E2, E. reflexivity. }
    rewrite E. exact Hexp.
Qed.

Definition scope_for (parent : option (list (pystr * pystr))) (scope : list (pystr * pystr)) (d : nd) :=
  scope_ext (emitted_decls parent d) scope.

(** the statement proved by induction: for the element of a node printed below a parent
    whose scope agrees with the parent's map *)
Definition node_good (t : ftree) : Prop :=
  forall parent level scope tl,
    (match parent with
     | None => scope = []
     | Some pm => scope_agrees scope pm /\ closed_in pm (n_nsmap (ft_d t))
     end) ->
    ws_eq tl (n_tail (ft_d t)) ->
    ns_ok scope (layout parent level t tl) = true /\ sim scope (layout parent level t tl) t.

Lemma nodup_of_dicts d : dicts_ok d = true -> NoDup (keys (n_nsmap d)).
Proof.
  unfold dicts_ok. intro H. apply andb_true_iff in H as [H _]. apply andb_true_iff in H as [_ H].
  apply nodup_keys_NoDup, H.
Qed.

Lemma node_good_all t : tree_lex t -> tree_ns t -> node_good t.
Proof.
  induction t as [d kids IH] using ftree_ind2. intros HL HN.
  destruct (tree_lex_inv _ _ HL) as [L HLk]. inversion HN as [? ? Nd HNk]; subst.
  intros parent level scope tl Hpar Htl. cbn [ft_d] in *.
  rewrite layout_eq.
  set (sc := scope_ext (own_decls (all_attrs parent d)) scope).
  assert (Hsc : scope_agrees sc (n_nsmap d)).
  { subst sc. rewrite (own_decls_all parent d L). destruct parent as [pm|].
    - destruct Hpar as [Hs Hc]. apply scope_child; [exact Hs | exact Hc | apply nodup_of_dicts, (nn_dicts d Nd)].
    - subst scope. apply scope_root. }
  destruct (node_ns_ok parent d sc L Nd Hsc (or_intror I)) as (N1 & N2 & N3 & N4 & N5).
  (* children *)
  assert (Hkids : forallb (ns_ok sc) (layout_kids level d kids) = true
                  /\ (fix go (xs : list xnode) (ts : list ftree) {struct xs} : Prop :=
                        match xs, ts with
                        | [], [] => True
                        | x1 :: xs', t1 :: ts' => sim sc x1 t1 /\ go xs' ts'
                        | _, _ => False
                        end) (layout_kids level d kids) kids).
  { clear N1 N2 N3 N4 N5 HL HN. induction kids as [|k r IHr]; [split; [reflexivity|exact I]|].
    inversion IH as [|? ? IHk IHr']; subst. inversion HLk as [|? ? HLk0 HLr]; subst.
    inversion HNk as [|? ? [Hck HNk0] HNr]; subst.
    destruct (IHr IHr' HLr HNr) as [R1 R2].
    destruct (IHk HLk0 HNk0 (Some (n_nsmap d)) (S level) sc (kid_tail level d k (is_nil r))
                  (conj Hsc Hck) (ws_kid_tail level d k (is_nil r))) as [K1 K2].
    cbn [layout_kids forallb]. rewrite K1, R1. split; [reflexivity|]. split; assumption. }
  destruct Hkids as [K1 K2].
  split.
  - cbn [ns_ok]. fold sc. rewrite (own_decls_all parent d L) in *. fold sc.
    rewrite N1, N2, N3, N4, N5, K1. reflexivity.
  - cbn [sim]. fold sc.
    unfold x_local, x_prefix, x_plain, x_qual. cbn [x_name x_attrs].
    rewrite (local_prefix_tag d L), (plain_all parent d L), (qual_all parent d L). cbn [fst snd].
    repeat split; try assumption.
    apply ws_layout_text.
Qed.

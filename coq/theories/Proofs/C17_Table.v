(* Proofs/C17_Table.v — C17 table obligations over the shipped rules (vm_compute over
   Gen/Tables.v on every run) and the instantiation of the generic theorems to them. *)
From MP Require Import Common.Base.
From MP Require Import Gen.Tables.
From MP Require Import Model.Rule.
From MP Require Import Model.Insert.
From MP Require Import Spec.Lang.
From MP Require Import Spec.Attr.
From MP Require Import Spec.InsertSpec.
From MP Require Import Proofs.C17_Index.
From MP Require Import Proofs.C17_Lang.
From MP Require Import Proofs.C17_Restore.

Definition rule_insert_ok (r : rule_raw) : bool :=
  match parse_children (rr_children r) with
  | Some top => insert_ok_top top
  | None => false
  end.

Definition rule_occurs_ok (r : rule_raw) : bool :=
  match parse_children (rr_children r) with
  | Some top => occurs_ok_top top
  | None => false
  end.

Lemma insert_ok_shipped : forallb (fun p => rule_insert_ok (snd p)) rules = true.
Proof. vm_compute. reflexivity. Qed.

Lemma occurs_ok_shipped : forallb (fun p => rule_occurs_ok (snd p)) rules = true.
Proof. vm_compute. reflexivity. Qed.

(** the statement of C17 for one rule of the table; [mixed] is the rule's mixed-content flag *)
Definition C17_for_rule (rn : pystr) (r : rule_raw) : Prop :=
  exists top,
    parse_children (rr_children r) = Some top /\
    let mixed := smem rn mixed_rules in
    let names := names_of_top top in
    (* refusal *)
    (forall w x, ~ In x names <-> rule_insert_index r w x = Refused) /\
    (* bounds and declared order *)
    (forall w x k, rule_insert_index r w x = Idx k ->
       0 <= k <= length w /\ first_larger names x w k /\
       (in_declared_order names w -> in_declared_order names (insert_at k x w))) /\
    (* restores validity whenever some position does *)
    (forall w x i, Ltop mixed top (insert_at i x w) ->
       exists k, rule_insert_index r w x = Idx k /\ Ltop mixed top (insert_at k x w)) /\
    (* allowed-child query = occurs in some valid sequence *)
    (forall x, rule_allowed_child r x = Some true <-> exists w, In x w /\ Ltop mixed top w) /\
    (forall x, exists b, rule_allowed_child r x = Some b).

Lemma C17_for_rule_generic rn r :
  rule_insert_ok r = true -> rule_occurs_ok r = true -> C17_for_rule rn r.
Proof.
  unfold rule_insert_ok, rule_occurs_ok, C17_for_rule, rule_insert_index, rule_allowed_child.
  destruct (parse_children (rr_children r)) as [top|]; [|discriminate].
  intros IO OO. exists top. split; [reflexivity|]. cbv zeta.
  split; [|split; [|split; [|split]]].
  - intros w x. symmetry. apply cii_refuse_iff.
  - intros w x k H. split; [eapply cii_bounds; exact H|].
    split; [apply (cii_first_larger _ _ _ _ H)|].
    intro S. eapply cii_keeps_order; eassumption.
  - intros w x i H. eapply restores; eassumption.
  - intro x. rewrite <- (allowed_iff (smem rn mixed_rules) top x OO).
    split; [intros [= ->]; reflexivity | intros ->; reflexivity].
  - intro x. eexists. reflexivity.
Qed.

Theorem C17_shipped : forall rn r, In (rn, r) rules -> C17_for_rule rn r.
Proof.
  intros rn r H. apply C17_for_rule_generic.
  - pose proof insert_ok_shipped as T. rewrite forallb_forall in T. apply (T _ H).
  - pose proof occurs_ok_shipped as T. rewrite forallb_forall in T. apply (T _ H).
Qed.

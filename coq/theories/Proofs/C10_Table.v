(* Proofs/C10_Table.v — the C10 table obligations: complete enumeration of the shipped
   tables (Gen/Tables.v, regenerated from the working tree on every run) by vm_compute. *)
From MP Require Import Common.Base.
From MP Require Import Gen.Tables.
From MP Require Import Model.Rule.
From MP Require Import Model.RuleRun.
From MP Require Import Spec.Attr.
From MP Require Import Spec.TableWf.
From MP Require Import Model.Witness.

Definition shipped : tables :=
  {| tb_rules := rules; tb_node_map := node_map; tb_mixed := mixed_rules; tb_ranges := (range_ew, range_ns) |}.

(** content-rule names the validator dispatches on (the if/elif chain of _validate_content) *)
Definition implemented : list pystr := keys content_dispatch.

(** the committed list of known gaps (known_findings.json: C10:child-name:<name>) *)
Definition known_gaps : list pystr := [s "protocol"; s "software"; s "studyAreaDescription"].

Lemma rules_exist_shipped : rules_exist shipped = true.
Proof. vm_compute. reflexivity. Qed.

Lemma all_rules_wf_shipped : all_rules_wf implemented shipped = true.
Proof. vm_compute. reflexivity. Qed.

Lemma gaps_shipped : gaps shipped = known_gaps.
Proof. vm_compute. reflexivity. Qed.

Lemma witness_shipped : witness_bad orc_canon shipped (witness_fuel shipped) = [].
Proof. vm_compute. reflexivity. Qed.

(* Common/Base.v — shared vocabulary of all models.
   Python strings are lists of code points; JSON-ish raw data is [rj].
   No proofs about the code live here, only data types and their decidable
   equalities. Stdlib only. *)
From Coq Require Export List Bool Arith NArith ZArith Lia String Ascii.
Export ListNotations.
(* String is exported for the literal helper [s]; keep the list meanings of the
   names and notations it would otherwise shadow. *)
Open Scope string_scope.
Open Scope list_scope.
Notation length := List.length.
Notation concat := List.concat.

(** * Python strings *)
Definition pystr := list N.

Fixpoint list_eqb {A} (eqb : A -> A -> bool) (a b : list A) : bool :=
  match a, b with
  | [], [] => true
  | x :: a', y :: b' => eqb x y && list_eqb eqb a' b'
  | _, _ => false
  end.

Lemma list_eqb_spec {A} (eqb : A -> A -> bool) :
  (forall x y, eqb x y = true <-> x = y) ->
  forall a b, list_eqb eqb a b = true <-> a = b.
Proof.
  intros H a; induction a as [|x a IH]; intros [|y b]; simpl; split; intro E;
    try reflexivity; try discriminate.
  - apply andb_true_iff in E as [E1 E2]. apply H in E1. apply IH in E2. congruence.
  - inversion E; subst. apply andb_true_iff; split; [apply H | apply IH]; reflexivity.
Qed.

Definition pystr_eqb : pystr -> pystr -> bool := list_eqb N.eqb.

Lemma pystr_eqb_eq a b : pystr_eqb a b = true <-> a = b.
Proof. apply list_eqb_spec. intros; apply N.eqb_eq. Qed.

Lemma pystr_eqb_refl a : pystr_eqb a a = true.
Proof. apply pystr_eqb_eq; reflexivity. Qed.

Lemma pystr_eqb_neq a b : pystr_eqb a b = false <-> a <> b.
Proof.
  split; intro H.
  - intro E; subst; rewrite pystr_eqb_refl in H; discriminate.
  - destruct (pystr_eqb a b) eqn:E; [apply pystr_eqb_eq in E; contradiction | reflexivity].
Qed.

Lemma pystr_eqb_reflect a b : reflect (a = b) (pystr_eqb a b).
Proof.
  destruct (pystr_eqb a b) eqn:E; constructor.
  - apply pystr_eqb_eq; exact E.
  - apply pystr_eqb_neq; exact E.
Qed.

Definition pystr_eq_dec (a b : pystr) : {a = b} + {a <> b}.
Proof. apply list_eq_dec, N.eq_dec. Defined.

(** ASCII literal helper: [s "abc"] is the code-point list of an ASCII Coq string. *)
Fixpoint s (x : string) : pystr :=
  match x with
  | EmptyString => []
  | String c r => N_of_ascii c :: s r
  end.

(** Membership with a boolean equality *)
Fixpoint memb {A} (eqb : A -> A -> bool) (x : A) (l : list A) : bool :=
  match l with
  | [] => false
  | y :: r => eqb x y || memb eqb x r
  end.

Lemma memb_In {A} (eqb : A -> A -> bool) :
  (forall x y, eqb x y = true <-> x = y) ->
  forall x l, memb eqb x l = true <-> In x l.
Proof.
  intros H x l; induction l as [|y r IH]; simpl.
  - split; [discriminate | tauto].
  - rewrite orb_true_iff, H, IH. split; intros [E|E]; auto.
Qed.

Definition smem (x : pystr) (l : list pystr) : bool := memb pystr_eqb x l.

Lemma smem_In x l : smem x l = true <-> In x l.
Proof. apply memb_In. intros; apply pystr_eqb_eq. Qed.

Lemma smem_false x l : smem x l = false <-> ~ In x l.
Proof.
  rewrite <- smem_In. destruct (smem x l); split; intro H.
  - discriminate.
  - exfalso; apply H; reflexivity.
  - intro; discriminate.
  - reflexivity.
Qed.

(** Association lists keyed by Python strings (insertion-ordered dicts) *)
Fixpoint assoc {V} (k : pystr) (d : list (pystr * V)) : option V :=
  match d with
  | [] => None
  | (k', v) :: r => if pystr_eqb k k' then Some v else assoc k r
  end.

Definition keys {V} (d : list (pystr * V)) : list pystr := map fst d.

Lemma assoc_None_keys {V} k (d : list (pystr * V)) : assoc k d = None <-> ~ In k (keys d).
Proof.
  induction d as [|[k' v] r IH]; simpl; [tauto|].
  destruct (pystr_eqb_reflect k k') as [->|NE].
  - split; [discriminate | intro H; exfalso; apply H; left; reflexivity].
  - rewrite IH. split; intro H; [intros [E|E]; [congruence | tauto] | tauto].
Qed.

Lemma assoc_Some_In {V} k (d : list (pystr * V)) v : assoc k d = Some v -> In (k, v) d.
Proof.
  induction d as [|[k' v'] r IH]; simpl; [discriminate|].
  destruct (pystr_eqb_reflect k k') as [->|NE].
  - intros [= ->]; left; reflexivity.
  - intro H; right; apply IH, H.
Qed.

(** Python dict [d[k] = v]: overwrite in place if present, else append *)
Fixpoint dict_set {V} (k : pystr) (v : V) (d : list (pystr * V)) : list (pystr * V) :=
  match d with
  | [] => [(k, v)]
  | (k', v') :: r => if pystr_eqb k k' then (k', v) :: r else (k', v') :: dict_set k v r
  end.

Fixpoint dict_del {V} (k : pystr) (d : list (pystr * V)) : list (pystr * V) :=
  match d with
  | [] => []
  | (k', v') :: r => if pystr_eqb k k' then r else (k', v') :: dict_del k r
  end.

(** * Raw JSON-shaped data (rules.json) *)
Inductive rj : Type :=
| RStr (x : pystr)
| RInt (n : Z)
| RNull
| RBool (b : bool)
| RList (l : list rj).

(** A rule as stored in rules.json: [attributes, children, content] *)
Record rule_raw := {
  rr_attrs : list (pystr * list rj);     (* attribute name -> [required, value...] *)
  rr_children : list rj;                 (* the children section, a JSON list *)
  rr_content_rules : list pystr;
  rr_content_enum : option (list pystr)
}.

(** * Rose trees of nodes (read-only view of a metapype tree) *)
Inductive tree : Type :=
  T (name : pystr) (content : option pystr) (attrs : list (pystr * pystr)) (kids : list tree).

Definition t_name (t : tree) := let 'T n _ _ _ := t in n.
Definition t_content (t : tree) := let 'T _ c _ _ := t in c.
Definition t_attrs (t : tree) := let 'T _ _ a _ := t in a.
Definition t_kids (t : tree) := let 'T _ _ _ k := t in k.

(** option / list helpers *)
Definition opt_eqb {A} (eqb : A -> A -> bool) (a b : option A) : bool :=
  match a, b with
  | None, None => true
  | Some x, Some y => eqb x y
  | _, _ => false
  end.

Lemma opt_eqb_spec {A} (eqb : A -> A -> bool) :
  (forall x y, eqb x y = true <-> x = y) ->
  forall a b, opt_eqb eqb a b = true <-> a = b.
Proof.
  intros H [x|] [y|]; simpl; split; intro E; try discriminate; try reflexivity.
  - apply H in E; congruence.
  - inversion E; apply H; reflexivity.
Qed.

(** indices of mismatching cases: the one output of every correspondence file *)
Fixpoint mismatches_from {A} (eqb : A -> A -> bool) (i : nat) (got want : list A) : list nat :=
  match got, want with
  | [], [] => []
  | g :: gs, w :: ws => (if eqb g w then [] else [i]) ++ mismatches_from eqb (S i) gs ws
  | _, _ => [i]
  end.
Definition mismatches {A} eqb (got want : list A) := mismatches_from eqb 0 got want.

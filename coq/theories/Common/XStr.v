(* Common/XStr.v — Python string operations used by the XML codecs (C07/C08):
   str.isspace / strip / lstrip / split() / join / replace / in / startswith,
   as total functions on code-point lists.  Definitions only need Stdlib.
   [py_spaces] is the complete list of code points with str.isspace() true; the
   harness compares it with the running interpreter over all 1,114,112 code points. *)
From MP Require Import Common.Base.
Local Open Scope N_scope.

Definition py_spaces : list N :=
  [9; 10; 11; 12; 13; 28; 29; 30; 31; 32; 133; 160; 5760; 8192; 8193; 8194; 8195; 8196; 8197;
   8198; 8199; 8200; 8201; 8202; 8232; 8233; 8239; 8287; 12288].

Definition is_py_space (c : N) : bool := memb N.eqb c py_spaces.

Definition is_nil {A} (l : list A) : bool := match l with [] => true | _ => false end.

(** str.lstrip() / rstrip() / strip() with no argument *)
Fixpoint lstrip (l : pystr) : pystr :=
  match l with
  | c :: r => if is_py_space c then lstrip r else l
  | [] => []
  end.

Definition rstrip (l : pystr) : pystr :=
  fold_right (fun c acc => if is_py_space c && is_nil acc then [] else c :: acc) [] l.

Definition strip (l : pystr) : pystr := rstrip (lstrip l).

(** str.split() with no argument: maximal runs of non-space characters *)
Fixpoint split_ws (l : pystr) : list pystr :=
  match l with
  | [] => []
  | c :: r =>
      if is_py_space c then split_ws r
      else match r with
           | [] => [[c]]
           | c' :: _ =>
               if is_py_space c' then [c] :: split_ws r
               else match split_ws r with
                    | w :: ws => (c :: w) :: ws
                    | [] => [[c]]
                    end
           end
  end.

(** sep.join(words) *)
Fixpoint join (sep : pystr) (ws : list pystr) : pystr :=
  match ws with
  | [] => []
  | [w] => w
  | w :: r => w ++ sep ++ join sep r
  end.

(** s.startswith(p) *)
Fixpoint starts_with (p l : pystr) : bool :=
  match p, l with
  | [], _ => true
  | a :: p', b :: l' => (a =? b) && starts_with p' l'
  | _ :: _, [] => false
  end.

(** p in s (substring) *)
Fixpoint contains (p l : pystr) : bool :=
  starts_with p l || match l with [] => false | _ :: r => contains p r end.

(** s.replace(c, r) for a one-character pattern *)
Definition replace1 (c : N) (r : pystr) (l : pystr) : pystr :=
  flat_map (fun x => if x =? c then r else [x]) l.

(** s.replace(old, new) for a non-empty pattern: leftmost, non-overlapping.
    [skip] counts characters of a match still to be dropped. *)
Fixpoint replace_go (old new : pystr) (skip : nat) (l : pystr) : pystr :=
  match l with
  | [] => []
  | c :: r =>
      match skip with
      | S k => replace_go old new k r
      | O => if starts_with old l then new ++ replace_go old new (Nat.pred (length old)) r
             else c :: replace_go old new 0 r
      end
  end.
Definition replace (old new l : pystr) : pystr := replace_go old new 0 l.

(** s.find(c) for a character: index of the first occurrence *)
Fixpoint find_char (c : N) (l : pystr) : option nat :=
  match l with
  | [] => None
  | x :: r => if x =? c then Some O else option_map S (find_char c r)
  end.

(** longest prefix satisfying p, and the rest *)
Fixpoint span (p : N -> bool) (l : pystr) : pystr * pystr :=
  match l with
  | c :: r => if p c then let (a, b) := span p r in (c :: a, b) else ([], l)
  | [] => ([], [])
  end.

Definition nonempty {A} (l : list A) : bool := negb (is_nil l).

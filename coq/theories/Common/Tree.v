(* Common/Tree.v — full-field rose trees: the complete observable state of a metapype
   tree as a value (ids, all eight data fields, ordered children).  [view] forgets the
   fields validation does not read. *)
From MP Require Import Common.Base.

Record nd := {
  n_id : pystr;
  n_name : pystr;
  n_content : option pystr;
  n_tail : option pystr;
  n_prefix : option pystr;
  n_attrs : list (pystr * pystr);
  n_extras : list (pystr * pystr);
  n_nsmap : list (pystr * pystr)
}.

Inductive ftree : Type := FT (d : nd) (kids : list ftree).

Definition ft_d (t : ftree) := let 'FT d _ := t in d.
Definition ft_kids (t : ftree) := let 'FT _ k := t in k.
Definition ft_name (t : ftree) := n_name (ft_d t).
Definition ft_id (t : ftree) := n_id (ft_d t).

Fixpoint view (t : ftree) : tree :=
  let 'FT d kids := t in T (n_name d) (n_content d) (n_attrs d) (map view kids).

(** document order (pre-order), the node itself first *)
Fixpoint preorder (t : ftree) : list ftree :=
  let 'FT d kids := t in t :: flat_map preorder kids.

Definition ids_of (t : ftree) : list pystr := map ft_id (preorder t).

(** boolean equalities *)
Definition pair_eqb (a b : pystr * pystr) : bool := pystr_eqb (fst a) (fst b) && pystr_eqb (snd a) (snd b).
Definition dict_eqb (a b : list (pystr * pystr)) : bool := list_eqb pair_eqb a b.   (* ordered *)

Definition nd_eqb (a b : nd) : bool :=
  pystr_eqb (n_id a) (n_id b) && pystr_eqb (n_name a) (n_name b) &&
  opt_eqb pystr_eqb (n_content a) (n_content b) && opt_eqb pystr_eqb (n_tail a) (n_tail b) &&
  opt_eqb pystr_eqb (n_prefix a) (n_prefix b) &&
  dict_eqb (n_attrs a) (n_attrs b) && dict_eqb (n_extras a) (n_extras b) && dict_eqb (n_nsmap a) (n_nsmap b).

Fixpoint ftree_eqb (a b : ftree) {struct a} : bool :=
  let 'FT da ka := a in
  let 'FT db kb := b in
  nd_eqb da db &&
  (fix go (x y : list ftree) {struct x} : bool :=
     match x, y with
     | [], [] => true
     | p :: x', q :: y' => ftree_eqb p q && go x' y'
     | _, _ => false
     end) ka kb.

(* Spec/TreeVal.v — vocabulary of the whole-tree statements (C04, C05), written from the
   property texts: document order with the metadata cut-off, "differs only below
   metadata", the rule-error family, closedness of the tables.  Model.Rule is imported
   for the data types [tables], [spec] and the table readers [parse_children],
   [no_seq_in_seq], [attr_required] whose success is what "closed" means. *)
From MP Require Import Common.Base Model.Rule.

Definition is_metadata (n : pystr) : bool := pystr_eqb n (s "metadata").

(** document order, the node itself first, nothing below a metadata element *)
Fixpoint visible_preorder (t : tree) : list tree :=
  let 'T n c a kids := t in
  t :: (if is_metadata n then [] else flat_map visible_preorder kids).

(** what validating a node on its own can see: its name, content, attributes and the
    NAMES of its children *)
Definition node_view (t : tree) : pystr * option pystr * list (pystr * pystr) * list pystr :=
  (t_name t, t_content t, t_attrs t, map t_name (t_kids t)).

(** two trees that differ only below metadata elements (a metadata element keeps
    whether it has no, one, or more than one child) *)
Inductive same_outside_metadata : tree -> tree -> Prop :=
| som_meta n c a k k' :
    is_metadata n = true -> Nat.min 2 (length k) = Nat.min 2 (length k') ->
    same_outside_metadata (T n c a k) (T n c a k')
| som_node n c a k k' :
    is_metadata n = false -> Forall2 same_outside_metadata k k' ->
    same_outside_metadata (T n c a k) (T n c a k').

(** first outcome that is not a success *)
Fixpoint first_failure (l : list ffout) : ffout :=
  match l with
  | [] => FOk
  | FOk :: r => first_failure r
  | x :: _ => x
  end.

(** the exception family rooted at [root]: reflexive-transitive closure of the
    class -> base-class table *)
Inductive in_family (parent : list (pystr * pystr)) (root : pystr) : pystr -> Prop :=
| fam_root : in_family parent root root
| fam_step c p : In (c, p) parent -> in_family parent root p -> in_family parent root c.

Definition RULE_ERROR_ROOT : pystr := s "MetapypeRuleError".

(** the tables are closed: every element name maps to a rule that exists; every rule's
    children section parses into sequences/choices with no sequence directly inside a
    sequence; every attribute spec is led by its required flag *)
Definition rule_closed (r : rule_raw) : bool :=
  match parse_children (rr_children r) with
  | Some None => true
  | Some (Some sp) => no_seq_in_seq sp
  | None => false
  end &&
  forallb (fun p => match attr_required (snd p) with Some _ => true | None => false end) (rr_attrs r).

Definition tables_closed (tb : tables) : bool :=
  forallb (fun p => match assoc (snd p) (tb_rules tb) with Some _ => true | None => false end) (tb_node_map tb) &&
  forallb (fun p => rule_closed (snd p)) (tb_rules tb).

(* Spec/GreedyOk.v — the decidable syntactic side condition of C01 (DESIGN section 5, C01).
   Definitions only.  The greedy, non-backtracking matcher of rule.py decides the language
   of a children spec only for specs of this shape; every shipped rule has it (table
   obligation C01_table, re-run on every check). *)
From MP Require Import Common.Base Model.Rule.

Definition le_hi_b (k : nat) (hi : option nat) : bool :=
  match hi with None => true | Some h => Nat.leb k h end.

Definition is_seq (sp : spec) : bool := match sp with Seq _ => true | _ => false end.

(** an alternative of a choice that may iterate: a plain rule child with minimum <= 1 *)
Definition small_el (sp : spec) : bool :=
  match sp with El _ lo _ => Nat.leb lo 1 | _ => false end.

Definition is_one (hi : option nat) : bool :=
  match hi with Some 1 => true | _ => false end.

(** G0 + G2 (structural part, checked at every level of the spec):
    - G0: lo <= hi and 1 <= hi everywhere; no empty sequence / choice; no sequence directly
      inside a sequence (rule.py would read it as a rule child);
    - G2: a choice that may iterate (hi <> Some 1) has only rule-child alternatives, each
      with lo <= 1, and its own lo <= 1. *)
Fixpoint shape_ok (sp : spec) : bool :=
  match sp with
  | El _ lo hi => le_hi_b lo hi && le_hi_b 1 hi
  | Seq items =>
      negb (is_nil items) &&
      forallb (fun i => negb (is_seq i) && shape_ok i) items
  | Cho alts lo hi =>
      negb (is_nil alts) && le_hi_b lo hi && le_hi_b 1 hi &&
      forallb shape_ok alts &&
      (is_one hi || (forallb small_el alts && Nat.leb lo 1))
  end.

(** G1: no child name occurs twice in the spec *)
Fixpoint nodup_names (l : list pystr) : bool :=
  match l with
  | [] => true
  | x :: r => negb (smem x r) && nodup_names r
  end.

Definition greedy_ok (sp : spec) : bool := shape_ok sp && nodup_names (names_of sp).

Definition greedy_ok_top (top : option spec) : bool :=
  match top with None => true | Some sp => greedy_ok sp end.

(** the children section of a raw rule parses and has the shape *)
Definition greedy_ok_raw (r : rule_raw) : bool :=
  match parse_children (rr_children r) with
  | Some top => greedy_ok_top top
  | None => false
  end.

(* Spec/XmlShape.v — what C20 says about an XML infoset, independent of the stylesheet model:
   the element/attribute-name skeleton, the text nodes under / outside protected elements,
   the attribute values, and "space-normalised". *)
From MP Require Import Common.Base.
From MP Require Import Model.PyString.
From MP Require Import Model.Normalize.

(** elements, attribute names, order *)
Inductive skel : Type := SK (name : pystr) (attr_names : list pystr) (kids : list skel).

Fixpoint skeleton (n : xnode) : list skel :=
  match n with
  | XT _ => []
  | XE name attrs kids => [SK name (map fst attrs) (flat_map skeleton kids)]
  end.

(** the text nodes, in document order, that have ([want] = true) / do not have ([want] = false)
    an ancestor element whose name is in [protected]; [anc]: such an ancestor was already passed *)
Fixpoint texts (protected : list pystr) (want anc : bool) (n : xnode) : list pystr :=
  match n with
  | XT x => if Bool.eqb anc want then [x] else []
  | XE name _ kids => flat_map (texts protected want (anc || smem name protected)) kids
  end.

Fixpoint attr_values (n : xnode) : list pystr :=
  match n with
  | XT _ => []
  | XE _ attrs kids => map snd attrs ++ flat_map attr_values kids
  end.

(** space-normalised: no leading / trailing XML whitespace, no two adjacent whitespace
    characters, and the only whitespace character left is U+0020 *)
Definition xnormal (v : pystr) : Prop :=
  (forall c r, v = c :: r -> is_xml_space c = false) /\
  (forall r c, v = r ++ [c] -> is_xml_space c = false) /\
  (forall a c1 c2 b, v = a ++ c1 :: c2 :: b -> ~ (is_xml_space c1 = true /\ is_xml_space c2 = true)) /\
  (forall c, In c v -> is_xml_space c = true -> c = 32%N).

(** attribute values only get their values changed *)
Fixpoint attrs_only (f : pystr -> pystr) (n : xnode) : xnode :=
  match n with
  | XT x => XT x
  | XE name attrs kids => XE name (map (fun kv => (fst kv, f (snd kv))) attrs) (map (attrs_only f) kids)
  end.

(** the protected elements named by the property *)
Definition protected_names : list pystr :=
  [s "markup"; s "literalLayout"; s "objectName"; s "attributeName"; s "para"].

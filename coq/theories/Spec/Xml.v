(* Spec/Xml.v — a small XML 1.0 + Namespaces parser, written as a specification:
   it stands in for "a conforming XML parser" in the C07/C08 theorems
   ("well-formed" = [xparse s <> None]).  It is validated against lxml (libxml2)
   and xml.etree (expat) by the harness on every generated document.

   Subset accepted: one root element; elements with (optionally prefixed) names;
   attributes in double or single quotes; the five predefined entities and
   decimal/hex character references in text and attribute values; CDATA sections;
   comments; processing instructions; an optional XML declaration; Misc before
   and after the root.  Rejected: characters outside the XML 1.0 Char production,
   a raw carriage return (real parsers normalise it; outside the subset),
   raw less-than / ampersand in text, the CDATA-end sequence in text, raw less-than /
   ampersand / the delimiter in attribute values, unknown entities, mismatched tags,
   duplicate attributes (lexically and by expanded name), unbound prefixes,
   illegal namespace declarations (empty URI, reserved prefixes/URIs), DOCTYPE,
   the default-namespace declaration (outside the subset), trailing garbage.

   Result: [xnode] — kind, qualified name as written, attributes in document
   order (xmlns: declarations included), text before the first child, children
   (elements, comments, PIs) each with its tail text.  This is the ElementTree
   view of the infoset.  Stdlib only; lexing is structural, nesting uses fuel. *)
From MP Require Import Common.Base Common.XStr.
Local Open Scope N_scope.

(** * Character classes (XML 1.0 fifth edition) *)
Definition in_range (c lo hi : N) : bool := (lo <=? c) && (c <=? hi).

Definition is_xml_char (c : N) : bool :=
  (c =? 9) || (c =? 10) || (c =? 13) || in_range c 32 55295 || in_range c 57344 65533
  || in_range c 65536 1114111.

(** characters allowed literally in a document of the subset: Char minus CR *)
Definition doc_char_ok (c : N) : bool := is_xml_char c && negb (c =? 13).

Definition is_xml_ws (c : N) : bool := (c =? 32) || (c =? 9) || (c =? 10) || (c =? 13).

(** NameStartChar / NameChar without the colon (NCName characters) *)
Definition is_name_start (c : N) : bool :=
  in_range c 65 90 || (c =? 95) || in_range c 97 122 || in_range c 192 214 || in_range c 216 246
  || in_range c 248 767 || in_range c 880 893 || in_range c 895 8191 || in_range c 8204 8205
  || in_range c 8304 8591 || in_range c 11264 12271 || in_range c 12289 55295
  || in_range c 63744 64975 || in_range c 65008 65533 || in_range c 65536 983039.

Definition is_name_char (c : N) : bool :=
  is_name_start c || (c =? 45) || (c =? 46) || in_range c 48 57 || (c =? 183)
  || in_range c 768 879 || in_range c 8255 8256.

Definition is_ncname (n : pystr) : bool :=
  match n with
  | c :: r => is_name_start c && forallb is_name_char r
  | [] => false
  end.

Definition not_colon (c : N) : bool := negb (c =? 58).

(** split a qualified name at its first colon *)
Definition split_colon (n : pystr) : option pystr * pystr :=
  let (a, b) := span not_colon n in
  match b with
  | [] => (None, a)
  | _ :: b' => (Some a, b')
  end.

Definition is_qname (n : pystr) : bool :=
  match split_colon n with
  | (None, a) => is_ncname a
  | (Some p, l) => is_ncname p && is_ncname l
  end.

Definition is_qname_char (c : N) : bool := is_name_char c || (c =? 58).

Definition take_qname (l : pystr) : option (pystr * pystr) :=
  let (n, r) := span is_qname_char l in
  if is_qname n then Some (n, r) else None.

Definition skip_ws (l : pystr) : pystr := snd (span is_xml_ws l).

(** * References *)
Definition digit_val (c : N) : option N := if in_range c 48 57 then Some (c - 48) else None.
Definition hex_val (c : N) : option N :=
  if in_range c 48 57 then Some (c - 48)
  else if in_range c 65 70 then Some (c - 55)
  else if in_range c 97 102 then Some (c - 87)
  else None.

Fixpoint num_of (base : N) (dv : N -> option N) (acc : N) (l : pystr) : option N :=
  match l with
  | [] => Some acc
  | c :: r => match dv c with
              | Some d => num_of base dv (acc * base + d) r
              | None => None
              end
  end.

Definition char_of_num (o : option N) : option N :=
  match o with
  | Some n => if is_xml_char n then Some n else None
  | None => None
  end.

(** the text between the ampersand and the semicolon -> the character it denotes *)
Definition resolve_ref (body : pystr) : option N :=
  if pystr_eqb body (s "amp") then Some 38
  else if pystr_eqb body (s "lt") then Some 60
  else if pystr_eqb body (s "gt") then Some 62
  else if pystr_eqb body (s "quot") then Some 34
  else if pystr_eqb body (s "apos") then Some 39
  else match body with
       | c1 :: r1 =>
           if c1 =? 35 then
             match r1 with
             | c2 :: r2 =>
                 if c2 =? 120
                 then (if is_nil r2 then None else char_of_num (num_of 16 hex_val 0 r2))
                 else char_of_num (num_of 10 digit_val 0 r1)
             | [] => None
             end
           else None
       | [] => None
       end.

Definition cons_res (c : N) (o : option (pystr * pystr)) : option (pystr * pystr) :=
  match o with
  | Some (t, rest) => Some (c :: t, rest)
  | None => None
  end.

(** * Character data between markup.
    [ptext skip st l] reads a maximal run of character data, references and CDATA
    sections; it stops in front of a less-than sign that does not open a CDATA section (or
    at the end of input) and returns the decoded text and the rest. *)
Inductive tstate := TNorm | TRef (acc : pystr) | TCdata.

Definition cdata_open_tail : pystr := s "![CDATA[".
Definition cdata_close : pystr := s "]]>".

Fixpoint ptext (skip : nat) (st : tstate) (l : pystr) {struct l} : option (pystr * pystr) :=
  match l with
  | [] => match st with TNorm => Some ([], []) | _ => None end
  | c :: r =>
      match skip with
      | S k => ptext k st r
      | O =>
          match st with
          | TNorm =>
              if c =? 60 then
                if starts_with cdata_open_tail r then ptext 8 TCdata r else Some ([], l)
              else if c =? 38 then ptext 0 (TRef []) r
              else if starts_with cdata_close l then None
              else cons_res c (ptext 0 TNorm r)
          | TRef acc =>
              if c =? 59 then
                match resolve_ref (rev acc) with
                | Some ch => cons_res ch (ptext 0 TNorm r)
                | None => None
                end
              else ptext 0 (TRef (c :: acc)) r
          | TCdata =>
              if starts_with cdata_close l then ptext 2 TNorm r
              else cons_res c (ptext 0 TCdata r)
          end
      end
  end.

(** the text decoder on a whole string (used to state the escape lemmas) *)
Definition xtext_decode (x : pystr) : option pystr :=
  match ptext 0 TNorm x with
  | Some (t, []) => Some t
  | _ => None
  end.

(** * Attribute values: [pattval q st l] reads up to the closing delimiter [q] *)
Inductive dstate := DNorm | DRef (acc : pystr).

Definition attr_norm (c : N) : N := if (c =? 9) || (c =? 10) || (c =? 13) then 32 else c.

Fixpoint pattval (q : N) (st : dstate) (l : pystr) {struct l} : option (pystr * pystr) :=
  match l with
  | [] => None
  | c :: r =>
      match st with
      | DNorm =>
          if c =? q then Some ([], r)
          else if c =? 60 then None
          else if c =? 38 then pattval q (DRef []) r
          else cons_res (attr_norm c) (pattval q DNorm r)
      | DRef acc =>
          if c =? 59 then
            match resolve_ref (rev acc) with
            | Some ch => cons_res ch (pattval q DNorm r)
            | None => None
            end
          else pattval q (DRef (c :: acc)) r
      end
  end.

(** the attribute-value decoder on a whole double-quoted value *)
Definition xattr_decode (x : pystr) : option pystr :=
  match pattval 34 DNorm (x ++ [34]) with
  | Some (t, []) => Some t
  | _ => None
  end.

(** * Start tags *)
Fixpoint pattrs (fuel : nat) (l : pystr) : option (list (pystr * pystr) * bool * pystr) :=
  match fuel with
  | O => None
  | S f =>
      let (w, r) := span is_xml_ws l in
      match r with
      | [] => None
      | c :: r1 =>
          if c =? 62 then Some ([], false, r1)
          else if c =? 47 then
            match r1 with
            | c2 :: r2 => if c2 =? 62 then Some ([], true, r2) else None
            | [] => None
            end
          else if is_nil w then None
          else
            match take_qname r with
            | None => None
            | Some (n, r2) =>
                match skip_ws r2 with
                | e :: r3 =>
                    if e =? 61 then
                      match skip_ws r3 with
                      | q :: r4 =>
                          if (q =? 34) || (q =? 39) then
                            match pattval q DNorm r4 with
                            | Some (v, r5) =>
                                match pattrs f r5 with
                                | Some (al, sc, r6) => Some ((n, v) :: al, sc, r6)
                                | None => None
                                end
                            | None => None
                            end
                          else None
                      | [] => None
                      end
                    else None
                | [] => None
                end
            end
      end
  end.

Fixpoint nodup_keys (l : list pystr) : bool :=
  match l with
  | [] => true
  | k :: r => negb (smem k r) && nodup_keys r
  end.

(** [ptag l]: l starts right after the less-than sign of a start tag *)
Definition ptag (l : pystr) : option (pystr * list (pystr * pystr) * bool * pystr) :=
  match take_qname l with
  | None => None
  | Some (name, r) =>
      match pattrs (S (length r)) r with
      | Some (al, sc, r') => if nodup_keys (map fst al) then Some (name, al, sc, r') else None
      | None => None
      end
  end.

(** [pendtag name l]: l starts right after the two characters of an end-tag opener *)
Definition pendtag (name l : pystr) : option pystr :=
  if starts_with name l then
    match skip_ws (skipn (length name) l) with
    | c :: r => if c =? 62 then Some r else None
    | [] => None
    end
  else None.

(** * Comments and processing instructions *)
Fixpoint scan_to (pat l : pystr) {struct l} : option (pystr * pystr) :=
  if starts_with pat l then Some ([], skipn (length pat) l)
  else match l with
       | [] => None
       | c :: r => cons_res c (scan_to pat r)
       end.

(** l starts after the comment opener; the body must not contain two hyphens *)
Definition pcomment (l : pystr) : option (pystr * pystr) :=
  match scan_to (s "--") l with
  | Some (body, r) =>
      match r with
      | c :: r' => if c =? 62 then Some (body, r') else None
      | [] => None
      end
  | None => None
  end.

Definition lower (c : N) : N := if in_range c 65 90 then c + 32 else c.

(** l starts after the PI opener; returns target, data, rest *)
Definition ppi (l : pystr) : option (pystr * pystr * pystr) :=
  let (t, r) := span is_name_char l in
  if is_ncname t && negb (pystr_eqb (map lower t) (s "xml")) then
    if starts_with (s "?>") r then Some (t, [], skipn 2 r)
    else match r with
         | c :: _ =>
             if is_xml_ws c then
               match scan_to (s "?>") (skip_ws r) with
               | Some (d, r') => Some (t, d, r')
               | None => None
               end
             else None
         | [] => None
         end
  else None.

(** * Elements *)
Inductive xkind := KElem | KComment | KPI.

Inductive xnode : Type :=
  XN (kind : xkind) (name : pystr) (attrs : list (pystr * pystr)) (text : pystr)
     (kids : list xnode) (tail : pystr).

Definition x_kind (x : xnode) := let 'XN k _ _ _ _ _ := x in k.
Definition x_name (x : xnode) := let 'XN _ n _ _ _ _ := x in n.
Definition x_attrs (x : xnode) := let 'XN _ _ a _ _ _ := x in a.
Definition x_text (x : xnode) := let 'XN _ _ _ t _ _ := x in t.
Definition x_kids (x : xnode) := let 'XN _ _ _ _ k _ := x in k.
Definition x_tail (x : xnode) := let 'XN _ _ _ _ _ t := x in t.
Definition set_tail (x : xnode) (tl : pystr) : xnode :=
  let 'XN k n a t ks _ := x in XN k n a t ks tl.

Definition lt_slash : pystr := s "</".
Definition comment_open : pystr := s "<!--".
Definition pi_open : pystr := s "<?".

(** [pnode fuel l]: l starts right after the less-than sign of a start tag.
    [pkids fuel l]: l starts at a less-than sign inside element content; reads nodes, each
    followed by its tail text, up to and including the end-tag opener. *)
Fixpoint pnode (fuel : nat) (l : pystr) {struct fuel} : option (xnode * pystr) :=
  match fuel with
  | O => None
  | S f =>
      match ptag l with
      | None => None
      | Some (name, al, sc, r) =>
          if sc then Some (XN KElem name al [] [] [], r)
          else
            match ptext 0 TNorm r with
            | None => None
            | Some (text, r1) =>
                match pkids f r1 with
                | None => None
                | Some (ks, r2) =>
                    match pendtag name r2 with
                    | None => None
                    | Some r3 => Some (XN KElem name al text ks [], r3)
                    end
                end
            end
      end
  end
with pkids (fuel : nat) (l : pystr) {struct fuel} : option (list xnode * pystr) :=
  match fuel with
  | O => None
  | S f =>
      if starts_with lt_slash l then Some ([], skipn 2 l)
      else if starts_with comment_open l then
        match pcomment (skipn 4 l) with
        | None => None
        | Some (body, r) =>
            match ptext 0 TNorm r with
            | None => None
            | Some (tl, r1) =>
                match pkids f r1 with
                | None => None
                | Some (ks, r2) => Some (XN KComment [] [] body [] tl :: ks, r2)
                end
            end
        end
      else if starts_with pi_open l then
        match ppi (skipn 2 l) with
        | None => None
        | Some (t, d, r) =>
            match ptext 0 TNorm r with
            | None => None
            | Some (tl, r1) =>
                match pkids f r1 with
                | None => None
                | Some (ks, r2) => Some (XN KPI t [] d [] tl :: ks, r2)
                end
            end
        end
      else
        match l with
        | [] => None
        | _ :: l' =>
            match pnode f l' with
            | None => None
            | Some (x, r) =>
                match ptext 0 TNorm r with
                | None => None
                | Some (tl, r1) =>
                    match pkids f r1 with
                    | None => None
                    | Some (ks, r2) => Some (set_tail x tl :: ks, r2)
                    end
                end
            end
        end
  end.

(** Misc*: white space, comments, PIs outside the root element *)
Fixpoint pmisc (fuel : nat) (l : pystr) : option pystr :=
  match fuel with
  | O => None
  | S f =>
      let r := skip_ws l in
      if starts_with comment_open r then
        match pcomment (skipn 4 r) with
        | Some (_, r1) => pmisc f r1
        | None => None
        end
      else if starts_with pi_open r then
        match ppi (skipn 2 r) with
        | Some (_, r1) => pmisc f r1
        | None => None
        end
      else Some r
  end.

Definition xml_decl_open : pystr := s "<?xml".

(** optional XML declaration (its pseudo-attributes are not checked) *)
Definition skip_decl (inp : pystr) : option pystr :=
  if starts_with xml_decl_open inp
     && match skipn 5 inp with c :: _ => is_xml_ws c | [] => false end
  then match scan_to (s "?>") inp with
       | Some (_, r) => Some r
       | None => None
       end
  else Some inp.

(** syntax only *)
Definition xparse_raw (inp : pystr) : option xnode :=
  if negb (forallb doc_char_ok inp) then None
  else
    let fuel := S (length inp) in
    match skip_decl inp with
    | None => None
    | Some i1 =>
        match pmisc fuel i1 with
        | None => None
        | Some r =>
            match r with
            | c :: r' =>
                if c =? 60 then
                  match pnode fuel r' with
                  | Some (x, r2) =>
                      match pmisc fuel r2 with
                      | Some [] => Some x
                      | _ => None
                      end
                  | None => None
                  end
                else None
            | [] => None
            end
        end
    end.

(** * Namespace well-formedness (Namespaces in XML 1.0) *)
Definition xmlns_str : pystr := s "xmlns".
Definition xml_str : pystr := s "xml".
Definition xml_ns : pystr := s "http://www.w3.org/XML/1998/namespace".
Definition xmlns_ns : pystr := s "http://www.w3.org/2000/xmlns/".

(** a namespace declaration  xmlns:p = uri *)
Definition decl_of (a : pystr * pystr) : option (pystr * pystr) :=
  match split_colon (fst a) with
  | (Some p, l) => if pystr_eqb p xmlns_str then Some (l, snd a) else None
  | (None, _) => None
  end.

Definition is_decl (a : pystr * pystr) : bool :=
  match decl_of a with Some _ => true | None => false end.

Definition own_decls (al : list (pystr * pystr)) : list (pystr * pystr) :=
  flat_map (fun a => match decl_of a with Some d => [d] | None => [] end) al.

Definition is_default_decl (a : pystr * pystr) : bool := pystr_eqb (fst a) xmlns_str.

Definition decl_legal (d : pystr * pystr) : bool :=
  negb (pystr_eqb (fst d) xml_str) && negb (pystr_eqb (fst d) xmlns_str)
  && nonempty (snd d) && negb (pystr_eqb (snd d) xml_ns) && negb (pystr_eqb (snd d) xmlns_ns).

(** in-scope prefixed bindings, in lxml's nsmap order: the element's own
    declarations in document order, then the inherited ones it does not shadow *)
Definition scope_ext (decls scope : list (pystr * pystr)) : list (pystr * pystr) :=
  decls ++ filter (fun kv => negb (smem (fst kv) (keys decls))) scope.

(** URI bound to a prefix; the xml prefix is bound by definition *)
Definition uri_of (scope : list (pystr * pystr)) (p : pystr) : option pystr :=
  if pystr_eqb p xml_str then Some xml_ns else assoc p scope.

Definition qname_bound (scope : list (pystr * pystr)) (n : pystr) : bool :=
  match split_colon n with
  | (None, _) => true
  | (Some p, _) => match uri_of scope p with Some _ => true | None => false end
  end.

(** expanded names (uri, local) of the prefixed non-declaration attributes *)
Definition expanded (scope : list (pystr * pystr)) (al : list (pystr * pystr)) : list pystr :=
  flat_map (fun a => if is_decl a then []
                     else match split_colon (fst a) with
                          | (Some p, l) => match uri_of scope p with
                                           | Some u => [u ++ [0] ++ l]
                                           | None => []
                                           end
                          | (None, _) => []
                          end) al.

Fixpoint ns_ok (scope : list (pystr * pystr)) (x : xnode) {struct x} : bool :=
  let 'XN k name al _ kids _ := x in
  match k with
  | KElem =>
      let decls := own_decls al in
      let sc := scope_ext decls scope in
      negb (existsb is_default_decl al) && forallb decl_legal decls
      && qname_bound sc name
      && forallb (fun a => is_decl a || qname_bound sc (fst a)) al
      && nodup_keys (expanded sc al)
      && forallb (ns_ok sc) kids
  | _ => true
  end.

Definition xparse (inp : pystr) : option xnode :=
  match xparse_raw inp with
  | Some x => if ns_ok [] x then Some x else None
  | None => None
  end.

(** * Views of a parsed element *)
Definition x_prefix (x : xnode) : option pystr := fst (split_colon (x_name x)).
Definition x_local (x : xnode) : pystr := snd (split_colon (x_name x)).

(** unqualified attributes, qualified attributes, declarations — each in document order *)
Definition x_plain (x : xnode) : list (pystr * pystr) :=
  filter (fun a => match split_colon (fst a) with (None, _) => true | _ => false end) (x_attrs x).
Definition x_qual (x : xnode) : list (pystr * pystr) :=
  filter (fun a => match split_colon (fst a) with (Some _, _) => negb (is_decl a) | _ => false end)
         (x_attrs x).
Definition x_decls (x : xnode) : list (pystr * pystr) := own_decls (x_attrs x).

Definition is_elem (x : xnode) : bool := match x_kind x with KElem => true | _ => false end.

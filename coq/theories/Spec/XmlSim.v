(* Spec/XmlSim.v — the statement side of C07: the class of trees the property quantifies
   over and the relation "the parsed document is the tree, up to leading/trailing white
   space of content and tail".  Written from the property text; no code of the models. *)
From MP Require Import Common.Base Common.Tree Common.XStr Spec.Xml.
Local Open Scope N_scope.

(** * The precondition class *)

(** XML-legal (unprefixed) name: an NCName of XML 1.0 fifth edition.  One NameStartChar,
    U+1680 OGHAM SPACE MARK, is white space for Python's str.strip; it is excluded (expat,
    which implements the fourth edition, rejects it in names anyway). *)
Definition xml_name (n : pystr) : bool :=
  is_ncname n && negb (is_py_space (hd 0 n)).

(** attribute names: additionally not the reserved word xmlns (that would be a declaration) *)
Definition attr_name_ok (k : pystr) : bool := xml_name k && negb (pystr_eqb k xmlns_str).

(** text values: XML 1.0 characters (the quantifier excludes the carriage return; since the
    exporters write it as a character reference the theorems do not need that) *)
Definition text_ok (x : pystr) : bool := forallb is_xml_char x.
Definition otext_ok (o : option pystr) : bool := match o with None => true | Some x => text_ok x end.
(** attribute values: any XML 1.0 characters (tab, newline and CR are written as references) *)
Definition value_ok (x : pystr) : bool := forallb is_xml_char x.

(** a prefix is bound in a node's nsmap; xml is bound by definition *)
Definition bound (m : list (pystr * pystr)) (p : pystr) : bool :=
  pystr_eqb p xml_str || smem p (keys m).

(** a qualified attribute key  prefix:local *)
Definition qual_key_ok (m : list (pystr * pystr)) (k : pystr) : bool :=
  match split_colon k with
  | (Some p, l) => xml_name p && is_ncname l && negb (pystr_eqb p xmlns_str) && bound m p
  | (None, _) => false
  end.

(** expanded name of a qualified key under a prefix map *)
Definition expand_key (m : list (pystr * pystr)) (k : pystr) : pystr :=
  match split_colon k with
  | (Some p, l) => match uri_of m p with Some u => u ++ [0] ++ l | None => [] end
  | (None, _) => []
  end.

(** names: element, prefix, attribute, qualified-attribute and declared-prefix names are XML-legal *)
Definition names_ok (d : nd) : bool :=
  is_ncname (n_name d)
  && match n_prefix d with None => true | Some p => is_ncname p end
  && forallb (fun kv => attr_name_ok (fst kv)) (n_attrs d)
  && forallb (fun kv => is_ncname (fst kv)) (n_nsmap d)
  && forallb (fun kv => match split_colon (fst kv) with
                        | (Some p, l) => xml_name p && is_ncname l && negb (pystr_eqb p xmlns_str)
                        | (None, _) => false
                        end) (n_extras d).

(** prefixes are bound in the node's own namespace map, to legal namespace names *)
Definition bound_ok (d : nd) : bool :=
  match n_prefix d with None => true | Some p => bound (n_nsmap d) p end
  && forallb (fun kv => match split_colon (fst kv) with
                        | (Some p, _) => bound (n_nsmap d) p
                        | (None, _) => false
                        end) (n_extras d)
  && forallb decl_legal (n_nsmap d).

(** values are XML-representable *)
Definition values_ok (d : nd) : bool :=
  otext_ok (n_content d) && otext_ok (n_tail d)
  && forallb (fun kv => value_ok (snd kv)) (n_attrs d)
  && forallb (fun kv => value_ok (snd kv)) (n_extras d)
  && forallb (fun kv => value_ok (snd kv)) (n_nsmap d).

(** the three dicts are dicts (unique keys), and no two qualified attributes have the
    same expanded name *)
Definition dicts_ok (d : nd) : bool :=
  nodup_keys (keys (n_attrs d)) && nodup_keys (keys (n_extras d)) && nodup_keys (keys (n_nsmap d))
  && nodup_keys (map (expand_key (n_nsmap d)) (keys (n_extras d))).

Fixpoint every (P : nd -> bool) (t : ftree) {struct t} : bool :=
  let 'FT d kids := t in P d && forallb (every P) kids.

Definition xml_names (t : ftree) : Prop := every names_ok t = true.
Definition prefixes_bound (t : ftree) : Prop := every bound_ok t = true.
Definition xml_values (t : ftree) : Prop := every values_ok t = true.
Definition dicts_wf (t : ftree) : Prop := every dicts_ok t = true.

(** XML cannot undeclare a prefix: every child's map has its parent's prefixes
    (what Node.add_child establishes) *)
Fixpoint ns_closed_b (t : ftree) {struct t} : bool :=
  let 'FT d kids := t in
  forallb (fun k => forallb (fun p => smem p (keys (n_nsmap (ft_d k)))) (keys (n_nsmap d))
                    && ns_closed_b k) kids.
Definition ns_closed (t : ftree) : Prop := ns_closed_b t = true.

(** * The relation *)
Definition otext (o : option pystr) : pystr := match o with Some x => x | None => [] end.

(** equal up to leading/trailing white space, None and the empty string identified *)
Definition ws_eq (a : pystr) (b : option pystr) : Prop := strip a = strip (otext b).

(** the bindings in scope are those of the node's map (as finite maps) *)
Definition scope_agrees (scope m : list (pystr * pystr)) : Prop :=
  forall p, assoc p scope = assoc p m.

(** [sim scope x t]: the parsed element x, read in the scope of its parent, is the tree t:
    same local names, prefixes, unqualified attributes (ordered), qualified attributes
    (ordered, under their prefixed names), in-scope prefixed bindings, child order; content and
    tail up to surrounding white space.  Only elements may occur. *)
Fixpoint sim (scope : list (pystr * pystr)) (x : xnode) (t : ftree) {struct x} : Prop :=
  let 'XN k name al text kids tail := x in
  let 'FT d ks := t in
  let sc := scope_ext (own_decls al) scope in
  k = KElem
  /\ x_local x = n_name d /\ x_prefix x = n_prefix d
  /\ x_plain x = n_attrs d /\ x_qual x = n_extras d
  /\ scope_agrees sc (n_nsmap d)
  /\ ws_eq text (n_content d) /\ ws_eq tail (n_tail d)
  /\ (fix go (xs : list xnode) (ts : list ftree) {struct xs} : Prop :=
        match xs, ts with
        | [], [] => True
        | x1 :: xs', t1 :: ts' => sim sc x1 t1 /\ go xs' ts'
        | _, _ => False
        end) kids ks.

(** * The EML exporter (metapype.eml.export.to_xml): its class and its relation.
    It writes names, attributes and content only (no prefixes, namespace maps, qualified
    attributes or tails), so only those are constrained and compared. *)
Definition para_open : pystr := s "<para>".
Definition para_close : pystr := s "</para>".

(** content the documented workaround does not treat specially: none of the pre-escaped
    entity spellings, no inline para tags *)
Definition eml_content_ok (c : pystr) : bool :=
  text_ok c
  && negb (contains (s "&amp;") c) && negb (contains (s "&lt;") c) && negb (contains (s "&gt;") c)
  && negb (contains para_open c) && negb (contains para_close c).

Definition eml_node_ok (d : nd) (kids : list ftree) : bool :=
  is_ncname (n_name d)
  && forallb (fun kv => attr_name_ok (fst kv) && value_ok (snd kv)) (n_attrs d)
  && nodup_keys (keys (n_attrs d))
  && match n_content d with
     | None => true
     | Some c => eml_content_ok c && is_nil kids        (* no node with both text and children *)
     end.

Fixpoint eml_class_b (t : ftree) {struct t} : bool :=
  let 'FT d kids := t in eml_node_ok d kids && forallb eml_class_b kids.
Definition eml_class (t : ftree) : Prop := eml_class_b t = true.

(** same local names, attributes, child order; text up to surrounding white space; tails
    (never exported) are white space *)
Fixpoint esim (x : xnode) (t : ftree) {struct x} : Prop :=
  let 'XN k name al text kids tail := x in
  let 'FT d ks := t in
  k = KElem /\ x_local x = n_name d /\ x_plain x = n_attrs d
  /\ ws_eq text (n_content d) /\ strip tail = []
  /\ (fix go (xs : list xnode) (ts : list ftree) {struct xs} : Prop :=
        match xs, ts with
        | [], [] => True
        | x1 :: xs', t1 :: ts' => esim x1 t1 /\ go xs' ts'
        | _, _ => False
        end) kids ks.

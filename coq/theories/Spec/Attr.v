(* Spec/Attr.v — declarative statement of attribute validity (C03), written from the
   property text, independent of Model/Rule.v's validate_attrs. *)
From MP Require Import Common.Base.

(** Well-formed attribute table of a rule: every spec is led by a boolean flag, the
    remaining entries are strings, attribute names are unique. *)
Definition wf_attr_spec (sp : list rj) : bool :=
  match sp with
  | RBool _ :: vals => forallb (fun v => match v with RStr _ => true | _ => false end) vals
  | _ => false
  end.

Fixpoint nodupb (l : list pystr) : bool :=
  match l with
  | [] => true
  | x :: r => negb (smem x r) && nodupb r
  end.

Definition wf_attrs (r : list (pystr * list rj)) : bool :=
  forallb (fun p => wf_attr_spec (snd p)) r && nodupb (keys r).

Definition spec_required (sp : list rj) : bool :=
  match sp with RBool true :: _ => true | _ => false end.

Definition spec_values (sp : list rj) : list pystr :=
  flat_map (fun v => match v with RStr x => [x] | _ => [] end) (tl sp).

(** The three constraint families of the statement *)
Definition required_present (r : list (pystr * list rj)) (a : list (pystr * pystr)) : Prop :=
  forall k sp, In (k, sp) r -> spec_required sp = true -> In k (keys a).

Definition only_listed (r : list (pystr * list rj)) (a : list (pystr * pystr)) : Prop :=
  forall k v, In (k, v) a -> In k (keys r).

Definition enumerated_ok (r : list (pystr * list rj)) (a : list (pystr * pystr)) : Prop :=
  forall k v sp, In (k, v) a -> In (k, sp) r -> spec_values sp <> [] -> In v (spec_values sp).

Definition attrs_ok r a : Prop := required_present r a /\ only_listed r a /\ enumerated_ok r a.

(* Spec/Attr.v — declarative statement of attribute validity (C03), written from the
   property text, independent of Model/Rule.v's validate_attrs. *)
From MP Require Import Common.Base.

(** Well-formed attribute table of a rule: every spec is led by a boolean flag, the
    remaining entries are strings, attribute names are unique. *)
Definition wf_attr_spec (sp : list rj) : bool :=
  match sp with
  | RBool _ :: vals => forallb (fun v => match v with RStr _ => true | _ => false end) vals
  | _ => false
  end.

Fixpoint nodupb (l : list pystr) : bool :=
  match l with
  | [] => true
  | x :: r => negb (smem x r) && nodupb r
  end.

Definition wf_attrs (r : list (pystr * list rj)) : bool :=
  forallb (fun p => wf_attr_spec (snd p)) r && nodupb (keys r).

Definition spec_required (sp : list rj) : bool :=
  match sp with RBool true :: _ => true | _ => false end.

Definition spec_values (sp : list rj) : list pystr :=
  flat_map (fun v => match v with RStr x => [x] | _ => [] end) (tl sp).

(** The three constraint families of the statement *)
Definition required_present (r : list (pystr * list rj)) (a : list (pystr * pystr)) : Prop :=
  forall k sp, In (k, sp) r -> spec_required sp = true -> In k (keys a).

Definition only_listed (r : list (pystr * list rj)) (a : list (pystr * pystr)) : Prop :=
  forall k v, In (k, v) a -> In k (keys r).

Definition enumerated_ok (r : list (pystr * list rj)) (a : list (pystr * pystr)) : Prop :=
  forall k v sp, In (k, v) a -> In (k, sp) r -> spec_values sp <> [] -> In v (spec_values sp).

Definition attrs_ok r a : Prop := required_present r a /\ only_listed r a /\ enumerated_ok r a.

(** * The violated constraints, one per constraint (C03: "collecting mode reports one
    error per violated constraint and fail-fast mode raises for the first") *)
Inductive aviol : Type :=
| VRequired (k : pystr)        (* required attribute k is absent *)
| VUnrecognized (k : pystr)    (* attribute k is present but not in the rule's list *)
| VEnum (k : pystr).           (* attribute k is enumerated and carries an unlisted value *)

(** declarative: assignment [a] violates constraint [v] of table [r] *)
Definition violated (r : list (pystr * list rj)) (a : list (pystr * pystr)) (v : aviol) : Prop :=
  match v with
  | VRequired k => exists sp, In (k, sp) r /\ spec_required sp = true /\ ~ In k (keys a)
  | VUnrecognized k => In k (keys a) /\ ~ In k (keys r)
  | VEnum k => exists x sp, In (k, x) a /\ In (k, sp) r /\ spec_values sp <> [] /\ ~ In x (spec_values sp)
  end.

(** the order in which they are reported: missing required attributes in table order,
    then one pass over the node's attributes in node order *)
Definition attr_violations (r : list (pystr * list rj)) (a : list (pystr * pystr)) : list aviol :=
  flat_map (fun p => if spec_required (snd p) && negb (smem (fst p) (keys a)) then [VRequired (fst p)] else []) r ++
  flat_map (fun p => match assoc (fst p) r with
                     | None => [VUnrecognized (fst p)]
                     | Some sp => match spec_values sp with
                                  | [] => []
                                  | vals => if smem (snd p) vals then [] else [VEnum (fst p)]
                                  end
                     end) a.

(** assignments derived from an assignment: omit attribute k / set k := v *)
Definition omit (k : pystr) (a : list (pystr * pystr)) : list (pystr * pystr) :=
  filter (fun p => negb (pystr_eqb (fst p) k)) a.
Definition assign (k v : pystr) (a : list (pystr * pystr)) : list (pystr * pystr) :=
  (k, v) :: omit k a.

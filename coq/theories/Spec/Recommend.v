(* Spec/Recommend.v — the documented recommendations as a table, and the warning list they
   imply for a tree.  Written from the property statement (C19); uses nothing of
   Model/Evaluate.v.  A row is (warning code, "this recommendation is not met") over the
   element and its parent's name; rows of one element are reported in table order, elements
   in document order. *)
From MP Require Import Common.Base.
From MP Require Import Common.Tree.
From MP Require Import Model.PyString.

Definition named (n : string) (t : ftree) : bool := pystr_eqb (ft_name t) (s n).
Definition text_of (t : ftree) : pystr := match n_content (ft_d t) with Some x => x | None => [] end.
Definition has_text (t : ftree) : bool := match text_of t with [] => false | _ => true end.

Definition children_named (n : string) (t : ftree) : list ftree := filter (named n) (ft_kids t).
(** "the" n child (single-valued children): the first one *)
Definition the (n : string) (t : ftree) : option ftree := hd_error (children_named n t).
(** some n child carries text *)
Definition some_with_text (n : string) (t : ftree) : bool := existsb has_text (children_named n t).

(** ** text of a TextType element: its own text and its para / markdown descendants *)
Definition proper_descendants (t : ftree) : list ftree := flat_map preorder (ft_kids t).
Definition text_blocks (t : ftree) : list ftree :=
  filter (fun d => named "para" d || named "markdown" d) (proper_descendants t).
(** no text at all: no own text and not even an (empty) para / markdown block *)
Definition no_text (t : ftree) : bool :=
  negb (has_text t) && match text_blocks t with [] => true | _ => false end.
Definition count_words (t : ftree) : nat := length (py_split_ws (text_of t)).
Definition word_count (t : ftree) : nat := count_words t + list_sum (map count_words (text_blocks t)).

(** ** words of a title: U+0020-separated pieces (after NBSP -> space) that are not blank *)
Definition title_words (x : pystr) : nat :=
  length (filter (fun w => negb (forallb is_py_space w)) (py_split_on 32 (replace_char 160 32 x))).

Definition parent_is (n : string) (parent : option pystr) : bool :=
  match parent with Some p => pystr_eqb p (s n) | None => false end.

Definition row := (pystr * (option pystr -> ftree -> bool))%type.

(** dataset *)
Definition dataset_rows : list row :=
  [ (s "DATASET_ABSTRACT_TOO_SHORT", fun _ t =>
       match the "abstract" t with Some a => negb (no_text a) && Nat.ltb (word_count a) 20 | None => false end);
    (s "DATASET_ABSTRACT_MISSING", fun _ t =>
       match the "abstract" t with Some a => no_text a | None => true end);
    (s "DATASET_COVERAGE_MISSING", fun _ t =>
       match the "coverage" t with Some c => match ft_kids c with [] => true | _ => false end | None => true end);
    (s "DATATABLE_MISSING", fun _ t => match children_named "dataTable" t with [] => true | _ => false end);
    (s "INTELLECTUAL_RIGHTS_MISSING", fun _ t =>
       match the "intellectualRights" t with Some r => no_text r | None => true end);
    (s "KEYWORDS_MISSING", fun _ t => match children_named "keywordSet" t with [] => true | _ => false end);
    (s "KEYWORDS_INSUFFICIENT", fun _ t =>
       match children_named "keywordSet" t with
       | [] => false
       | sets => Nat.ltb (list_sum (map (fun ks => length (children_named "keyword" ks)) sets)) 5
       end);
    (s "DATASET_METHOD_STEPS_MISSING", fun _ t => match children_named "methods" t with [] => true | _ => false end);
    (s "DATASET_PROJECT_MISSING", fun _ t => match children_named "project" t with [] => true | _ => false end) ].

(** responsible parties *)
Definition is_orcid (u : ftree) : bool :=
  has_text u && opt_eqb pystr_eqb (assoc (s "directory") (n_attrs (ft_d u))) (Some (s "https://orcid.org")).

Definition party_rows : list row :=
  [ (s "ORCID_ID_MISSING", fun _ t => negb (existsb is_orcid (children_named "userId" t)));
    (s "USER_ID_MISSING", fun _ t => negb (some_with_text "userId" t));
    (s "EMAIL_MISSING", fun _ t => negb (some_with_text "electronicMailAddress" t)) ].

Definition individual_name_rows : list row :=
  [ (s "INDIVIDUAL_NAME_INCOMPLETE", fun _ t => negb (some_with_text "givenName" t && some_with_text "surName" t)) ].

(** entities; the physical description consulted is the data table's first [physical] *)
Definition in_physical (f : ftree -> bool) (t : ftree) : bool :=
  match the "physical" t with Some p => f p | None => false end.

(** record delimiters declared by the text format take precedence over ones placed
    directly under [physical] *)
Definition record_delimiters (p : ftree) : list ftree :=
  let in_text_format :=
    match the "dataFormat" p with
    | Some df => match the "textFormat" df with Some tf => children_named "recordDelimiter" tf | None => [] end
    | None => []
    end in
  match in_text_format with [] => children_named "recordDelimiter" p | l => l end.

Definition datatable_rows : list row :=
  [ (s "DATATABLE_DESCRIPTION_MISSING", fun _ t => negb (some_with_text "entityDescription" t));
    (s "DATATABLE_SIZE_MISSING", fun _ t =>
       negb (in_physical (fun p => match the "size" p with Some z => has_text z | None => false end) t));
    (s "DATATABLE_MD5_CHECKSUM_MISSING", fun _ t => negb (in_physical (some_with_text "authentication") t));
    (s "DATATABLE_NUMBER_OF_RECORDS_MISSING", fun _ t =>
       negb (match the "numberOfRecords" t with Some n => has_text n | None => false end));
    (s "DATATABLE_RECORD_DELIMITER_MISSING", fun _ t =>
       negb (in_physical (fun p => existsb has_text (record_delimiters p)) t)) ].

Definition other_entity_rows : list row :=
  [ (s "OTHER_ENTITY_DESCRIPTION_MISSING", fun _ t => negb (some_with_text "entityDescription" t)) ].

(** descriptions under the listed parents *)
Definition description_row (parent : string) (code : string) : row :=
  (s code, fun p t => parent_is parent p && no_text t).

Definition description_rows : list row :=
  [ description_row "connectionDefinition" "CONNECTION_DEFINITION_DESCRIPTION_MISSING";
    description_row "designDescription" "DESIGN_DESCRIPTION_DESCRIPTION_MISSING";
    description_row "maintenance" "MAINTENANCE_DESCRIPTION_MISSING";
    description_row "methodStep" "METHOD_STEP_DESCRIPTION_MISSING";
    description_row "procedureStep" "PROCEDURE_STEP_DESCRIPTION_MISSING";
    description_row "qualityControl" "QUALITY_CONTROL_DESCRIPTION_MISSING";
    description_row "samplingDescription" "SAMPLING_DESCRIPTION_DESCRIPTION_MISSING";
    description_row "studyExtent" "STUDY_EXTENT_DESCRIPTION_MISSING" ].

Definition title_rows : list row :=
  [ (s "TITLE_TOO_SHORT", fun p t =>
       parent_is "dataset" p &&
       match n_content (ft_d t) with Some x => Nat.ltb (title_words x) 5 | None => false end) ].

(** the table: element name -> rows *)
Definition recommendations : list (pystr * list row) :=
  [ (s "associatedParty", party_rows);
    (s "contact", party_rows);
    (s "creator", party_rows);
    (s "dataset", dataset_rows);
    (s "dataTable", datatable_rows);
    (s "description", description_rows);
    (s "individualName", individual_name_rows);
    (s "metadataProvider", party_rows);
    (s "otherEntity", other_entity_rows);
    (s "personnel", party_rows);
    (s "title", title_rows) ].

Definition rows_for (name : pystr) : list row :=
  match assoc name recommendations with Some r => r | None => [] end.

(** the codes implied for one element *)
Definition unmet (parent : option pystr) (t : ftree) : list pystr :=
  map fst (filter (fun r : row => snd r parent t) (rows_for (ft_name t))).

(** the warnings implied for a tree, in document order: (code, node id) *)
Fixpoint expected_at (parent : option pystr) (t : ftree) : list (pystr * pystr) :=
  let 'FT d kids := t in
  map (fun c => (c, n_id d)) (unmet parent t) ++ flat_map (expected_at (Some (n_name d))) kids.

Definition expected (t : ftree) : list (pystr * pystr) := expected_at None t.

(** ** what validation guarantees about single-valued children (hypothesis of C19_exact) *)
Definition at_most_one (n : string) (t : ftree) : bool := Nat.leb (length (children_named n t)) 1.
(** all n children carry text (nonEmptyContent rule), or there is at most one *)
Definition uniform (n : string) (t : ftree) : bool :=
  at_most_one n t || forallb has_text (children_named n t).

Definition node_shape_ok (t : ftree) : bool :=
  (if named "dataset" t
   then at_most_one "abstract" t && at_most_one "coverage" t && at_most_one "intellectualRights" t else true) &&
  (if named "physical" t
   then at_most_one "size" t && at_most_one "dataFormat" t && uniform "authentication" t && uniform "recordDelimiter" t
   else true) &&
  (if named "textFormat" t then uniform "recordDelimiter" t else true).

Definition shape_ok (t : ftree) : bool := forallb node_shape_ok (preorder t).

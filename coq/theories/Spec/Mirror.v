(* Spec/Mirror.v — the statement side of C08, written from the property text:
   which lxml infosets the property quantifies over ([infoset_okb]) and the tree that
   mirrors an infoset ([mirror]): one node per element in document order with local name
   and prefix, unqualified attributes as attributes, qualified attributes under their
   prefixed name, the in-scope prefixed bindings, text and tail exactly (raw mode) or per the
   documented white-space policy (clean mode); comments dropped.  No code of the model. *)
From MP Require Import Common.Base Common.XStr Spec.Xml Spec.Infoset.
Local Open Scope N_scope.

(** * Clark names *)
Definition not_rbrace (c : N) : bool := negb (c =? 125).

(** LBRACE uri RBRACE local  ->  (uri, local); the namespace name contains no brace *)
Definition clark_split (n : pystr) : option (pystr * pystr) :=
  match n with
  | c :: r =>
      if c =? 123 then
        let (u, rest) := span not_rbrace r in
        match rest with
        | _ :: l => Some (u, l)
        | [] => None
        end
      else None
  | [] => None
  end.

Definition is_clark (n : pystr) : bool :=
  match n with c :: _ => c =? 123 | [] => false end.

Definition local_name (tag : pystr) : pystr :=
  match clark_split tag with Some (_, l) => l | None => tag end.

(** * The documented white-space policy *)
Definition blank_char (c : N) : bool := (c =? 32) || (c =? 9) || (c =? 160).
Definition only_blank (x : pystr) : bool := nonempty x && forallb blank_char x.

Definition policy (clean collapse literal : bool) (x : option pystr) : option pystr :=
  match x with
  | None => None
  | Some v =>
      if negb clean || literal then Some v                    (* raw mode, literal elements: exact *)
      else if only_blank v then Some v                         (* only spaces/tabs/nbsp: kept *)
      else match split_ws v with
           | [] => None                                        (* nothing but white space *)
           | w :: ws => Some (if collapse then join [32] (w :: ws) else strip v)
           end
  end.

(** * Qualified attribute names *)
Definition prefix_str (p : option pystr) : pystr := match p with Some x => x | None => s "None" end.

(** the prefix bound to a namespace name: xml for the XML namespace, otherwise the last
    binding in the element's nsmap order *)
Definition prefix_for (m : list (option pystr * pystr)) (u : pystr) : option pystr :=
  if pystr_eqb u xml_ns then Some xml_str
  else match find (fun kv => pystr_eqb u (snd kv)) (rev m) with
       | Some kv => Some (prefix_str (fst kv))
       | None => None
       end.

Definition qualified_name (m : list (option pystr * pystr)) (n : pystr) : pystr :=
  match clark_split n with
  | Some (u, l) => match prefix_for m u with
                   | Some p => p ++ [58] ++ l
                   | None => n
                   end
  | None => n
  end.

(** * The mirror of an infoset *)
Fixpoint mirror (clean collapse : bool) (literals : list pystr) (e : xel) {struct e} : itree :=
  let 'XEl k tag pfx nsmap text tail attrib kids := e in
  let name := local_name tag in
  IT {| i_name := name;
        i_content := policy clean collapse (smem name literals) text;
        i_tail := policy clean collapse false tail;
        i_prefix := pfx;
        i_attrs := filter (fun nv => negb (is_clark (fst nv))) attrib;
        i_extras := map (fun nv => (qualified_name nsmap (fst nv), snd nv))
                        (filter (fun nv => is_clark (fst nv)) attrib);
        i_nsmap := nsmap |}
     ((fix go (ks : list xel) : list itree :=
         match ks with
         | [] => []
         | k1 :: r => match l_kind k1 with
                      | LElem => mirror clean collapse literals k1 :: go r
                      | _ => go r                               (* comments are dropped *)
                      end
         end) kids).

(** * Equality of imported trees with the in-scope bindings read as a finite map *)
Definition omap_equiv (a b : list (option pystr * pystr)) : Prop :=
  length a = length b /\ forall p, oassoc p a = oassoc p b.

Fixpoint itree_equiv (a b : itree) {struct a} : Prop :=
  let 'IT da ka := a in
  let 'IT db kb := b in
  i_name da = i_name db /\ i_content da = i_content db /\ i_tail da = i_tail db
  /\ i_prefix da = i_prefix db /\ i_attrs da = i_attrs db /\ i_extras da = i_extras db
  /\ omap_equiv (i_nsmap da) (i_nsmap db)
  /\ (fix go (x y : list itree) {struct x} : Prop :=
        match x, y with
        | [], [] => True
        | p :: x', q :: y' => itree_equiv p q /\ go x' y'
        | _, _ => False
        end) ka kb.

(** * The class of infosets: what lxml returns for the documents of the quantifier *)
Definition uri_okb (u : pystr) : bool :=
  nonempty u
  && forallb (fun c => negb (c =? 123) && negb (c =? 125) && negb (c =? 10)) u
  && negb (pystr_eqb u xml_ns) && negb (pystr_eqb u xmlns_ns).

(** the prefixes of a map (no default namespace in the class) *)
Definition pkeys (m : list (option pystr * pystr)) : list pystr :=
  map (fun kv => prefix_str (fst kv)) m.

Definition nsmap_okb (m : list (option pystr * pystr)) : bool :=
  forallb (fun kv => match fst kv with
                     | Some p => is_ncname p && negb (pystr_eqb p xml_str)
                                 && negb (pystr_eqb p xmlns_str) && uri_okb (snd kv)
                     | None => false
                     end) m
  && nodup_keys (pkeys m).

Definition tag_okb (m : list (option pystr * pystr)) (pfx : option pystr) (tag : pystr) : bool :=
  match pfx with
  | None => is_ncname tag
  | Some p => match oassoc (Some p) m, clark_split tag with
              | Some u, Some (u', l) => pystr_eqb u u' && is_ncname l
              | _, _ => false
              end
  end.

Definition attr_name_okb (m : list (option pystr * pystr)) (n : pystr) : bool :=
  if is_clark n then
    match clark_split n with
    | Some (u, l) => is_ncname l
                     && (pystr_eqb u xml_ns || existsb (fun kv => pystr_eqb u (snd kv)) m)
                     && forallb (fun c => negb (c =? 125) && negb (c =? 10)) u
    | None => false
    end
  else is_ncname n.

Fixpoint infoset_okb (e : xel) {struct e} : bool :=
  let 'XEl k tag pfx m text tail attrib kids := e in
  match k with
  | LElem =>
      nsmap_okb m && tag_okb m pfx tag
      && forallb (fun nv => attr_name_okb m (fst nv)) attrib && nodup_keys (keys attrib)
      && forallb (fun k1 => match l_kind k1 with
                            | LElem => forallb (fun p => smem p (pkeys (l_nsmap k1))) (pkeys m)
                                       && infoset_okb k1
                            | LComment => true
                            | LPI => false
                            end) kids
  | _ => false
  end.

Definition infoset_ok (e : xel) : Prop := infoset_okb e = true.

(* Spec/TreeEq.v — C18: what "two trees agree" means, written from the property text.
   Independent of Model/Equal.v.  Dicts are compared as FINITE MAPS (same key -> same
   value, order irrelevant); children are compared in order.  Node ids are not part of
   structural equality. *)
From MP Require Import Common.Base.
From MP Require Import Common.Tree.

(** two association lists denote the same finite map *)
Definition map_eq (a b : list (pystr * pystr)) : Prop := forall k, assoc k a = assoc k b.

Record nd_equiv (a b : nd) : Prop := {
  ne_name : n_name a = n_name b;
  ne_content : n_content a = n_content b;
  ne_tail : n_tail a = n_tail b;
  ne_prefix : n_prefix a = n_prefix b;
  ne_attrs : map_eq (n_attrs a) (n_attrs b);
  ne_extras : map_eq (n_extras a) (n_extras b);
  ne_nsmap : map_eq (n_nsmap a) (n_nsmap b)
}.

Inductive tree_eq : ftree -> ftree -> Prop :=
| TreeEq d1 k1 d2 k2 :
    nd_equiv d1 d2 -> Forall2 tree_eq k1 k2 -> tree_eq (FT d1 k1) (FT d2 k2).

(** Python dicts have pairwise distinct keys *)
Definition nd_wf (d : nd) : Prop :=
  NoDup (keys (n_attrs d)) /\ NoDup (keys (n_extras d)) /\ NoDup (keys (n_nsmap d)).
Definition tree_wf (t : ftree) : Prop := Forall nd_wf (map ft_d (preorder t)).

(** * "exactly one field of exactly one node is edited" *)
Definition with_name x d := {| n_id := n_id d; n_name := x; n_content := n_content d; n_tail := n_tail d;
  n_prefix := n_prefix d; n_attrs := n_attrs d; n_extras := n_extras d; n_nsmap := n_nsmap d |}.
Definition with_content x d := {| n_id := n_id d; n_name := n_name d; n_content := x; n_tail := n_tail d;
  n_prefix := n_prefix d; n_attrs := n_attrs d; n_extras := n_extras d; n_nsmap := n_nsmap d |}.
Definition with_tail x d := {| n_id := n_id d; n_name := n_name d; n_content := n_content d; n_tail := x;
  n_prefix := n_prefix d; n_attrs := n_attrs d; n_extras := n_extras d; n_nsmap := n_nsmap d |}.
Definition with_prefix x d := {| n_id := n_id d; n_name := n_name d; n_content := n_content d; n_tail := n_tail d;
  n_prefix := x; n_attrs := n_attrs d; n_extras := n_extras d; n_nsmap := n_nsmap d |}.
Definition with_attrs x d := {| n_id := n_id d; n_name := n_name d; n_content := n_content d; n_tail := n_tail d;
  n_prefix := n_prefix d; n_attrs := x; n_extras := n_extras d; n_nsmap := n_nsmap d |}.
Definition with_extras x d := {| n_id := n_id d; n_name := n_name d; n_content := n_content d; n_tail := n_tail d;
  n_prefix := n_prefix d; n_attrs := n_attrs d; n_extras := x; n_nsmap := n_nsmap d |}.
Definition with_nsmap x d := {| n_id := n_id d; n_name := n_name d; n_content := n_content d; n_tail := n_tail d;
  n_prefix := n_prefix d; n_attrs := n_attrs d; n_extras := n_extras d; n_nsmap := x |}.

(** one key added or its value changed ([dict_set] with a value the key did not have),
    one present key removed, or one present key replaced by an absent one *)
Inductive dict_edit : list (pystr * pystr) -> list (pystr * pystr) -> Prop :=
| DE_set m k v : assoc k m <> Some v -> dict_edit m (dict_set k v m)
| DE_del m k : assoc k m <> None -> dict_edit m (dict_del k m)
| DE_rekey m k k' v : assoc k m <> None -> assoc k' m = None ->      (* a key replaced by another key *)
    dict_edit m (dict_set k' v (dict_del k m)).

Inductive nd_edit : nd -> nd -> Prop :=
| NE_name d x : x <> n_name d -> nd_edit d (with_name x d)
| NE_content d x : x <> n_content d -> nd_edit d (with_content x d)
| NE_tail d x : x <> n_tail d -> nd_edit d (with_tail x d)
| NE_prefix d x : x <> n_prefix d -> nd_edit d (with_prefix x d)
| NE_attrs d m : dict_edit (n_attrs d) m -> nd_edit d (with_attrs m d)
| NE_extras d m : dict_edit (n_extras d) m -> nd_edit d (with_extras m d)
| NE_nsmap d m : dict_edit (n_nsmap d) m -> nd_edit d (with_nsmap m d).

(** one edit anywhere in the tree: a field of one node, one child added / removed,
    two (unequal) children exchanged — at the root or at any depth and child position *)
Inductive one_edit : ftree -> ftree -> Prop :=
| OE_node d d' k : nd_edit d d' -> one_edit (FT d k) (FT d' k)
| OE_add d k1 c k2 : one_edit (FT d (k1 ++ k2)) (FT d (k1 ++ c :: k2))
| OE_del d k1 c k2 : one_edit (FT d (k1 ++ c :: k2)) (FT d (k1 ++ k2))
| OE_swap d k1 c1 k2 c2 k3 : ~ tree_eq c1 c2 ->
    one_edit (FT d (k1 ++ c1 :: k2 ++ c2 :: k3)) (FT d (k1 ++ c2 :: k2 ++ c1 :: k3))
| OE_deep d k1 c c' k2 : one_edit c c' -> one_edit (FT d (k1 ++ c :: k2)) (FT d (k1 ++ c' :: k2)).

(* Spec/PruneSpec.v — declarative statement of what pruning leaves and what it removes (C15).
   Written from the property text, bottom-up; it does not mention exceptions, loops over
   copies, or the order in which the implementation looks at things.  It shares with the model
   only the three-valued [reason] and the single-node validator [node_of] of Model/Rule.v.

     A child subtree is removed iff
       - the rule of its (kept) parent does not list its name            [RNotAllowed], or
       - its name is no element name                                     [RUnknown],   or
       - (strict) its root fails single-node validation after its own
         subtree has been pruned                                         [RInvalid].
     Nothing below a "metadata" node is looked at.  The root is never removed for being
     invalid (nobody validates it); it is removed only when its name is unknown. *)
From MP Require Import Common.Base Common.Tree Model.Rule Model.Prune.

Section PruneSpec.
Variable orc : pystr -> oans.
Variable tb : tables.
Variable strict : bool.

Definition known (n : pystr) : bool :=
  match assoc n (tb_node_map tb) with Some _ => true | None => false end.

(** the element names the rule governing element [pn] lists in its children section *)
Definition allowed_names (pn : pystr) : list pystr :=
  match assoc pn (tb_node_map tb) with
  | None => []
  | Some rn =>
      match assoc rn (tb_rules tb) with
      | None => []
      | Some r =>
          match parse_children (rr_children r) with
          | None => []
          | Some top => names_of_top top
          end
      end
  end.

Definition allowed (pn cn : pystr) : bool := smem cn (allowed_names pn).

(** single-node validation passes on the node as it stands *)
Definition node_valid (t : ftree) : bool :=
  match node_of orc tb (view t) with Errs [] => true | _ => false end.

(** pruning looks inside a node only if it is a known element other than "metadata" *)
Definition opaque (n : pystr) : bool := pystr_eqb n METADATA || negb (known n).

(** why a child, whose own pruning left [c'], must go from under a parent called [pn] *)
Definition offence (pn : pystr) (c' : ftree) : option reason :=
  if negb (allowed pn (ft_name c')) then Some RNotAllowed
  else if negb (known (ft_name c')) then Some RUnknown
  else if strict && negb (node_valid c') then Some RInvalid
  else None.

(** what is left of a subtree whose root stays *)
Fixpoint keep (t : ftree) : ftree :=
  let 'FT d kids := t in
  if opaque (n_name d) then t
  else FT d (flat_map (fun c => let c' := keep c in
                                match offence (n_name d) c' with Some _ => [] | None => [c'] end) kids).

(** the removed subtrees (in the state they are removed in) with the reason, in the order:
    the children the rule does not list, then child by child what goes inside it and the
    child itself *)
Fixpoint removed (t : ftree) : list (ftree * reason) :=
  let 'FT d kids := t in
  if opaque (n_name d) then []
  else
    flat_map (fun c => if allowed (n_name d) (ft_name c) then [] else [(c, RNotAllowed)]) kids ++
    flat_map (fun c =>
                if allowed (n_name d) (ft_name c) then
                  if known (ft_name c) then
                    removed c ++ (if strict && negb (node_valid (keep c)) then [(keep c, RInvalid)] else [])
                  else [(c, RUnknown)]
                else []) kids.

(** result tree ([None]: the root itself goes) and removed subtrees *)
Definition prune_spec (t : ftree) : option ftree * list (ftree * reason) :=
  if pystr_eqb (ft_name t) METADATA then (Some t, [])
  else if known (ft_name t) then (Some (keep t), removed t)
  else (None, [(t, RUnknown)]).

(** the returned list and the registry deletions the spec implies *)
Definition spec_list (l : list (ftree * reason)) : list (pystr * reason) :=
  map (fun p => (ft_id (fst p), snd p)) l.
Definition spec_rem (l : list (ftree * reason)) : list pystr :=
  flat_map (fun p => ids_of (fst p)) l.

(** * Vocabulary of the postconditions *)

(** the nodes pruning looks at: the root, and the children of every looked-at node that is
    not opaque ("outside metadata content") *)
Inductive visited : ftree -> ftree -> Prop :=
| V_root t : visited t t
| V_child t d kids c : visited t (FT d kids) -> opaque (n_name d) = false -> In c kids -> visited t c.

(** the result is the input with whole subtrees deleted: kept nodes keep every field
    (the same [nd] record, id included) and their relative order *)
Inductive embeds : ftree -> ftree -> Prop :=
| Emb d ks' ks : sub_forest ks' ks -> embeds (FT d ks') (FT d ks)
with sub_forest : list ftree -> list ftree -> Prop :=
| SF_nil : sub_forest [] []
| SF_drop c ks' ks : sub_forest ks' ks -> sub_forest ks' (c :: ks)
| SF_keep c' c ks' ks : embeds c' c -> sub_forest ks' ks -> sub_forest (c' :: ks') (c :: ks).

End PruneSpec.

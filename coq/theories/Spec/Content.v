(* Spec/Content.v — declarative statement of content validity (C02), written from the
   property text.  Model.Rule is imported ONLY for the data types of the oracle answers
   ([fval], [oans] and its projections): what float()/int()/fromisoformat()/strptime()/
   rfc3986 answer for a string is an input of the statement (DESIGN section 3.6), not
   something it defines.  No function of the model is used here. *)
From MP Require Import Common.Base Model.Rule.

(** The content-rule kinds named by the property *)
Inductive ckind : Type :=
| KEmpty | KFloat | KRangeEW | KRangeNS | KNonNeg | KInt | KNonEmpty | KStr | KTime | KUri | KYearDate | KAny.

(** their names in rules.json *)
Definition content_rule_names : list (pystr * ckind) :=
  [ (s "emptyContent", KEmpty);
    (s "floatContent", KFloat);
    (s "floatRangeContent_EW", KRangeEW);
    (s "floatRangeContent_NS", KRangeNS);
    (s "floatContent_Nonnegative", KNonNeg);
    (s "intContent", KInt);
    (s "nonEmptyContent", KNonEmpty);
    (s "strContent", KStr);
    (s "timeContent", KTime);
    (s "uriContent", KUri);
    (s "yearDateContent", KYearDate);
    (s "anyContent", KAny) ].

Definition kind_of (cr : pystr) : option ckind := assoc cr content_rule_names.

(** a rule uses only content-rule names the statement knows *)
Definition known_content_rules (crs : list pystr) : bool :=
  forallb (fun cr => match kind_of cr with Some _ => true | None => false end) crs.

(** the float value n/d is finite and lo <= n/d <= hi (d > 0) *)
Definition finite_between (lo hi : Z) (v : fval) : Prop :=
  match v with
  | FFin n d => (lo * Zpos d <= n /\ n <= hi * Zpos d)%Z
  | FNan | FInf _ => False
  end.

(** v >= 0 in IEEE arithmetic: NaN is not, +inf is, -0.0 (= 0/1) is *)
Definition non_negative (v : fval) : Prop :=
  match v with
  | FNan => False
  | FInf neg => neg = false
  | FFin n _ => (0 <= n)%Z
  end.

Definition is_surrogate_cp (cp : N) : Prop := (55296 <= cp /\ cp <= 57343)%N.

Section ContentSpec.
  Variable orc : pystr -> oans.              (* the parsers' answers, arbitrary *)
  Variable ranges : (Z * Z) * (Z * Z).       (* ((west, east), (south, north)) *)

  (** typed rules constrain a content string only when there is one *)
  Definition typed (P : pystr -> Prop) (c : option pystr) : Prop :=
    match c with None => True | Some x => P x end.

  (** x denotes a float whose value satisfies P *)
  Definition float_with (P : fval -> Prop) (x : pystr) : Prop :=
    exists v, o_float (orc x) = Some v /\ P v.

  Definition kind_ok (mixed : bool) (c : option pystr) (nkids : nat) (k : ckind) : Prop :=
    match k with
    | KEmpty => c = None
    | KNonEmpty => (exists x, c = Some x /\ x <> []) \/ (mixed = true /\ nkids > 0)
    | KInt => typed (fun x => x <> [] /\ o_int (orc x) = true) c
    | KFloat => typed (float_with (fun _ => True)) c
    | KRangeEW => typed (float_with (finite_between (fst (fst ranges)) (snd (fst ranges)))) c
    | KRangeNS => typed (float_with (finite_between (fst (snd ranges)) (snd (snd ranges)))) c
    | KNonNeg => typed (float_with non_negative) c
    | KTime => typed (fun x => x <> [] /\ o_time (orc x) = true) c
    | KYearDate => typed (fun x => x <> [] /\ o_yd (orc x) = true) c
    | KUri => typed (fun x => o_uri (orc x) = true) c
    | KStr => typed (fun x => forall cp, In cp x -> ~ is_surrogate_cp cp) c
    | KAny => True
    end.

  (** membership in the enumerated list; absent content is not a member *)
  Definition enum_ok (enum : option (list pystr)) (c : option pystr) : Prop :=
    match enum with
    | None => True
    | Some vals => exists x, c = Some x /\ In x vals
    end.

  (** the rule's declared content constraints hold *)
  Definition content_ok (mixed : bool) (crs : list pystr) (enum : option (list pystr))
             (c : option pystr) (nkids : nat) : Prop :=
    (forall cr, In cr crs -> exists k, kind_of cr = Some k /\ kind_ok mixed c nkids k) /\
    enum_ok enum c.
End ContentSpec.

(** the content-error family *)
Definition content_family (e : verr) : Prop :=
  match e with
  | EContentEmpty | EContentEnum | EContentInt | EContentFloat | EContentRange
  | EContentNonEmpty | EContentStrUnicode | EContentTime | EContentUri | EContentYear => True
  | _ => False
  end.

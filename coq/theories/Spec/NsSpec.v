(* Spec/NsSpec.v — C13, the statement.  Written from the property text; uses nothing of the
   heap model.  A state is a forest shape plus, per node, the prefix -> URI mapping the node
   sees.  Three operations:
     declare n p u   : p |-> u on n and on every descendant of n, nothing else
     undeclare n p   : p unbound on n and on every descendant of n, nothing else
     attach par c    : c becomes a child of par; every prefix bound in par and NOT bound in c
                       is declared (with par's URI) on c's whole subtree; nothing else
                       (so c's own bindings win, and nothing outside c's subtree changes).
   All clauses are point-wise (no functional extensionality). *)
From MP Require Import Common.Base.

Record nsstate := {
  a_alive : nat -> Prop;
  a_kids : nat -> list nat;
  a_parent : nat -> option nat;
  a_vis : nat -> pystr -> option pystr
}.

(** [adesc s a m]: m is a, or a descendant of a *)
Inductive adesc (s : nsstate) (a : nat) : nat -> Prop :=
| adesc_refl : adesc s a a
| adesc_step p m : adesc s a p -> In m (a_kids s p) -> adesc s a m.

Inductive aop : Type :=
| AAttach (par c : nat)
| ADeclare (n : nat) (p u : pystr)
| AUndeclare (n : nat) (p : pystr).

(** the node whose subtree the operation is applied to *)
Definition target (o : aop) : nat :=
  match o with AAttach _ c => c | ADeclare n _ _ => n | AUndeclare n _ => n end.

(** histories of the quantifier: operations on existing nodes; attach only a detached root
    that is not above the new parent (a node has at most one parent, no cycles) *)
Definition apre (o : aop) (s : nsstate) : Prop :=
  match o with
  | AAttach par c => a_alive s par /\ a_alive s c /\ a_parent s c = None /\ ~ adesc s c par
  | ADeclare n _ _ => a_alive s n
  | AUndeclare n _ => a_alive s n
  end.

Definition same_shape (s s' : nsstate) : Prop :=
  (forall m, a_alive s' m <-> a_alive s m) /\
  (forall m, a_kids s' m = a_kids s m) /\
  (forall m, a_parent s' m = a_parent s m).

Definition declare_spec (n : nat) (p u : pystr) (s s' : nsstate) : Prop :=
  same_shape s s' /\
  (forall m, adesc s n m -> a_vis s' m p = Some u) /\
  (forall m q, ~ adesc s n m \/ q <> p -> a_vis s' m q = a_vis s m q).

Definition undeclare_spec (n : nat) (p : pystr) (s s' : nsstate) : Prop :=
  same_shape s s' /\
  (forall m, adesc s n m -> a_vis s' m p = None) /\
  (forall m q, ~ adesc s n m \/ q <> p -> a_vis s' m q = a_vis s m q).

Definition attach_spec (par c : nat) (s s' : nsstate) : Prop :=
  (forall m, a_alive s' m <-> a_alive s m) /\
  (exists l1 l2, a_kids s par = l1 ++ l2 /\ a_kids s' par = l1 ++ c :: l2) /\
  (forall m, m <> par -> a_kids s' m = a_kids s m) /\
  a_parent s' c = Some par /\
  (forall m, m <> c -> a_parent s' m = a_parent s m) /\
  (* inherited prefixes: bound in par, not bound in c *)
  (forall m q u, adesc s c m -> a_vis s par q = Some u -> a_vis s c q = None -> a_vis s' m q = Some u) /\
  (* everything else is unchanged *)
  (forall m q, ~ adesc s c m \/ a_vis s par q = None \/ a_vis s c q <> None -> a_vis s' m q = a_vis s m q).

Definition step_spec (o : aop) (s s' : nsstate) : Prop :=
  match o with
  | AAttach par c => attach_spec par c s s'
  | ADeclare n p u => declare_spec n p u s s'
  | AUndeclare n p => undeclare_spec n p s s'
  end.

(** ** what the statement says in the words of the property text *)

(** No operation changes the bindings seen on a node outside the subtree it is applied to. *)
Lemma spec_local o s s' m q :
  step_spec o s s' -> ~ adesc s (target o) m -> a_vis s' m q = a_vis s m q.
Proof.
  destruct o as [par c|n p u|n p]; simpl; intros H Hm.
  - destruct H as (_ & _ & _ & _ & _ & _ & H). apply H; left; exact Hm.
  - destruct H as (_ & _ & H). apply H; left; exact Hm.
  - destruct H as (_ & _ & H). apply H; left; exact Hm.
Qed.

(** attach: every prefix of the parent is visible in the child … *)
Lemma attach_visible par c s s' q u :
  attach_spec par c s s' -> a_vis s par q = Some u -> exists u', a_vis s' c q = Some u'.
Proof.
  intros (_ & _ & _ & _ & _ & Hin & Hout) Hp.
  destruct (a_vis s c q) as [v|] eqn:Hc.
  - exists v. rewrite Hout; [exact Hc | right; right; congruence].
  - exists u. eapply Hin; eauto. apply adesc_refl.
Qed.

(** … while the child's own bindings win, on the child and below it *)
Lemma attach_child_wins par c s s' q v m :
  attach_spec par c s s' -> a_vis s c q = Some v -> a_vis s' m q = a_vis s m q.
Proof.
  intros (_ & _ & _ & _ & _ & _ & Hout) Hc. apply Hout; right; right; congruence.
Qed.

(** … and the parent itself (outside c's subtree by the precondition) keeps its bindings *)
Lemma attach_parent_unchanged par c s s' q :
  apre (AAttach par c) s -> attach_spec par c s s' -> a_vis s' par q = a_vis s par q.
Proof.
  intros (_ & _ & _ & Hnd) H. apply (spec_local (AAttach par c) s s' par q H). exact Hnd.
Qed.

(* Spec/LangDec.v — a boolean decider for the strict language L of Spec/Lang.v (and one for
   the lenient language Llen), by trying all splits of the word.  Independent of the matcher
   of Model/Rule.v: it is the oracle of the C01 statement search and of C17.
   [inL_correct : inL mixed sp w = true <-> L mixed sp w] holds for EVERY spec. *)
From MP Require Import Common.Base Model.Rule Spec.Lang Spec.GreedyOk
  Proofs.C01_Total Proofs.C01_Lang Proofs.C01_Sound.

(** all ways of writing [w] as [a ++ b] *)
Fixpoint splits {A} (w : list A) : list (list A * list A) :=
  ([], w) :: match w with
             | [] => []
             | x :: r => map (fun p => (x :: fst p, snd p)) (splits r)
             end.

Definition is_rep (n : pystr) (w : list pystr) : bool := forallb (pystr_eqb n) w.

Definition seq_dec (f : spec -> list pystr -> bool) :=
  fix seq (l : list spec) (w : list pystr) : bool :=
    match l with
    | [] => is_nil w
    | i :: r => existsb (fun p => if f i (fst p) then seq r (snd p) else false) (splits w)
    end.

Definition alt_dec (f : spec -> list pystr -> bool) :=
  fix alt (l : list spec) (w : list pystr) : bool :=
    match l with
    | [] => false
    | a :: r => f a w || alt r w
    end.

(** [counts alt fuel w]: every k such that w is a concatenation of k NON-EMPTY words accepted
    by [alt] (fuel: one unit per occurrence, [S (length w)] suffices).
    The conditionals are written with [if] rather than [&&] so that evaluation by
    [vm_compute] (call by value) prunes: a split is only pursued when its first part matches. *)
Definition counts (alt : list pystr -> bool) :=
  fix counts (fuel : nat) (w : list pystr) : list nat :=
    match fuel with
    | O => []
    | S f =>
        match w with
        | [] => [0]
        | _ => flat_map (fun p => if negb (is_nil (fst p)) && alt (fst p)
                                  then map S (counts f (snd p)) else [])
                        (splits w)
        end
    end.

Definition count_ok (mixed : bool) (lo : nat) (hi : option nat) (k : nat) : bool :=
  (mixed || Nat.leb lo k) && le_hi_b k hi.

Fixpoint inL (mixed : bool) (sp : spec) (w : list pystr) {struct sp} : bool :=
  match sp with
  | El n lo hi => is_rep n w && Nat.leb lo (length w) && le_hi_b (length w) hi
  | Seq items =>
      (fix seq (l : list spec) (w : list pystr) : bool :=
         match l with
         | [] => is_nil w
         | i :: r => existsb (fun p => if inL mixed i (fst p) then seq r (snd p) else false) (splits w)
         end) items w
  | Cho alts lo hi =>
      existsb (count_ok mixed lo hi)
        ((fix counts (fuel : nat) (w : list pystr) : list nat :=
            match fuel with
            | O => []
            | S f =>
                match w with
                | [] => [0]
                | _ => flat_map (fun p => if negb (is_nil (fst p)) &&
                                             (fix alt (l : list spec) (w : list pystr) : bool :=
                                                match l with
                                                | [] => false
                                                | a :: r => inL mixed a w || alt r w
                                                end) alts (fst p)
                                          then map S (counts f (snd p)) else [])
                                (splits w)
                end
            end) (S (length w)) w)
  end.

Lemma inL_El mixed n lo hi w :
  inL mixed (El n lo hi) w = is_rep n w && Nat.leb lo (length w) && le_hi_b (length w) hi.
Proof. reflexivity. Qed.
Lemma inL_Seq mixed items w : inL mixed (Seq items) w = seq_dec (inL mixed) items w.
Proof. reflexivity. Qed.
Lemma inL_Cho mixed alts lo hi w :
  inL mixed (Cho alts lo hi) w =
  existsb (count_ok mixed lo hi) (counts (alt_dec (inL mixed) alts) (S (length w)) w).
Proof. reflexivity. Qed.

Definition inLtop (mixed : bool) (top : option spec) (w : list pystr) : bool :=
  match top with None => is_nil w | Some sp => inL mixed sp w end.

(** * Correctness *)
Lemma splits_spec {A} (w a b : list A) : In (a, b) (splits w) <-> a ++ b = w.
Proof.
  revert a b. induction w as [|x w IH]; intros a b; simpl.
  - split.
    + intros [E|[]]. injection E as <- <-. reflexivity.
    + intro E. apply app_eq_nil in E as [-> ->]. left. reflexivity.
  - split.
    + intros [E|H].
      * injection E as <- <-. reflexivity.
      * apply in_map_iff in H as ([a' b'] & E & Hin). simpl in E. injection E as <- <-.
        apply IH in Hin. simpl. rewrite Hin. reflexivity.
    + intro E. destruct a as [|y a].
      * simpl in E. subst b. left. reflexivity.
      * simpl in E. injection E as -> E. right. apply in_map_iff. exists (a, b).
        split; [reflexivity | apply IH; exact E].
Qed.

Lemma is_rep_spec n w : is_rep n w = true <-> w = repeat n (length w).
Proof.
  induction w as [|x w IH]; simpl.
  - split; reflexivity.
  - rewrite andb_true_iff, pystr_eqb_eq, IH. split.
    + intros [<- E]. rewrite <- E. reflexivity.
    + intro E. injection E as -> E. split; [reflexivity | exact E].
Qed.

Lemma is_nil_spec {A} (w : list A) : is_nil w = true <-> w = [].
Proof. destruct w; simpl; split; congruence. Qed.

Section Dec.
  Variable mixed : bool.
  Variable f : spec -> list pystr -> bool.

  Lemma seq_dec_spec : forall items,
    Forall (fun i => forall w, f i w = true <-> L mixed i w) items ->
    forall w, seq_dec f items w = true <-> exists ws, LSeq mixed items ws /\ w = concat ws.
  Proof.
    induction items as [|i r IH]; intros HF w.
    - simpl. rewrite is_nil_spec. split.
      + intros ->. exists []. split; [constructor | reflexivity].
      + intros (ws & H & ->). apply LSeq_nil_inv in H. subst ws. reflexivity.
    - inversion HF as [|? ? Hi Hr]; subst. specialize (IH Hr).
      cbn [seq_dec]. rewrite existsb_exists. split.
      + intros ([a b] & Hin & H). simpl in H. apply andb_true_iff in H as [H1 H2].
        apply splits_spec in Hin. apply Hi in H1. apply IH in H2 as (ws & Lws & ->).
        exists (a :: ws). split; [constructor; assumption | simpl; symmetry; exact Hin].
      + intros (ws0 & H & ->). apply LSeq_cons_inv in H as (a & ws & -> & La & Lws).
        exists (a, concat ws). split; [apply splits_spec; reflexivity|].
        simpl. apply andb_true_iff. split; [apply Hi; exact La | apply IH; eauto].
  Qed.

  Lemma alt_dec_spec : forall alts,
    Forall (fun a => forall w, f a w = true <-> L mixed a w) alts ->
    forall w, alt_dec f alts w = true <-> LAlt mixed alts w.
  Proof.
    induction alts as [|a r IH]; intros HF w.
    - simpl. split; [discriminate | intro H; inversion H].
    - inversion HF as [|? ? Ha Hr]; subst. specialize (IH Hr).
      cbn [alt_dec]. rewrite orb_true_iff, Ha, IH. split.
      + intros [H|H]; [apply LAlt_here | apply LAlt_there]; assumption.
      + intro H. apply LAlt_cons_inv in H. exact H.
  Qed.

  Variable alts : list spec.
  Variable alt : list pystr -> bool.
  Hypothesis Halt : forall w, alt w = true <-> LAlt mixed alts w.

  Lemma counts_spec : forall fuel w k, length w < fuel ->
    (In k (counts alt fuel w) <-> exists ws, LOccs mixed alts ws /\ w = concat ws /\ length ws = k).
  Proof.
    induction fuel as [|fu IH]; intros w k Hlen; [lia|].
    cbn [counts]. destruct w as [|x w].
    - simpl. split.
      + intros [<-|[]]. exists []. repeat split. constructor.
      + intros (ws & H & E & <-). destruct ws as [|w1 ws]; [left; reflexivity|].
        apply LOccs_cons_inv in H as (Hne & _ & _). simpl in E. symmetry in E.
        apply app_eq_nil in E as [E _]. congruence.
    - rewrite in_flat_map. split.
      + intros ([a b] & Hin & H). simpl fst in H. simpl snd in H.
        apply splits_spec in Hin.
        destruct (negb (is_nil a) && alt a) eqn:C; [|contradiction].
        apply andb_true_iff in C as [C1 C2]. apply negb_true_iff in C1.
        assert (a <> []) as Hne by (intros ->; discriminate).
        apply in_map_iff in H as (k' & <- & Hk').
        apply IH in Hk' as (ws & Lws & -> & <-).
        * exists (a :: ws). split; [|split; [simpl; symmetry; exact Hin | reflexivity]].
          apply LOccs_cons; [exact Hne | apply Halt; exact C2 | exact Lws].
        * assert (length (a ++ b) = length (x :: w)) as E by (rewrite Hin; reflexivity).
          rewrite app_length in E. destruct a; [congruence|]. simpl in *. lia.
      + intros (ws & H & E & <-). destruct ws as [|a ws]; [discriminate|].
        apply LOccs_cons_inv in H as (Hne & HA & Lws).
        exists (a, concat ws). split; [apply splits_spec; simpl in E; symmetry; exact E|].
        simpl fst. simpl snd.
        assert (negb (is_nil a) && alt a = true) as C.
        { apply andb_true_iff. split; [destruct a; [congruence | reflexivity] | apply Halt; exact HA]. }
        rewrite C. change (length (a :: ws)) with (S (length ws)). apply in_map. apply IH.
        * assert (length (x :: w) = length (a ++ concat ws)) as E' by (rewrite E; reflexivity).
          rewrite app_length in E'. destruct a; [congruence|]. simpl in *. lia.
        * exists ws. repeat split. exact Lws.
  Qed.
End Dec.

Lemma count_ok_spec mixed lo hi k :
  count_ok mixed lo hi k = true <-> (mixed = true \/ lo <= k) /\ le_hi k hi.
Proof.
  unfold count_ok. rewrite andb_true_iff, orb_true_iff, Nat.leb_le, le_hi_b_spec. tauto.
Qed.

Theorem inL_correct mixed : forall sp w, inL mixed sp w = true <-> L mixed sp w.
Proof.
  induction sp as [n lo hi|items IH|alts lo hi IH] using spec_ind'; intro w.
  - rewrite inL_El, !andb_true_iff, is_rep_spec, Nat.leb_le, le_hi_b_spec. split.
    + intros [[E A] B]. rewrite E. apply L_El; assumption.
    + intro H. apply L_El_inv in H as (k & -> & A & B). rewrite repeat_length. auto.
  - rewrite inL_Seq, (seq_dec_spec mixed _ items IH). split.
    + intros (ws & H & ->). apply L_Seq. exact H.
    + intro H. apply L_Seq_inv in H. exact H.
  - rewrite inL_Cho, existsb_exists. split.
    + intros (k & Hin & Hk).
      apply (counts_spec mixed alts _ (alt_dec_spec mixed _ alts IH)) in Hin; [|lia].
      destruct Hin as (ws & Lws & -> & <-). apply count_ok_spec in Hk as [A B].
      apply L_Cho; assumption.
    + intro H. apply L_Cho_inv in H as (ws & Lws & A & B & ->).
      exists (length ws). split.
      * apply (counts_spec mixed alts _ (alt_dec_spec mixed _ alts IH)); [lia|]. eauto.
      * apply count_ok_spec. auto.
Qed.

Corollary inLtop_correct mixed top w : inLtop mixed top w = true <-> Ltop mixed top w.
Proof.
  destruct top as [sp|]; simpl; [apply inL_correct | apply is_nil_spec].
Qed.

Corollary L_dec mixed sp w : {L mixed sp w} + {~ L mixed sp w}.
Proof.
  destruct (inL mixed sp w) eqn:E.
  - left. apply inL_correct. exact E.
  - right. intro H. apply inL_correct in H. congruence.
Qed.

(** * The lenient language Llen is decidable, too
    An occurrence of a choice may be an empty match; so when some alternative accepts the
    empty word, a decomposition into k non-empty occurrences can be padded to any k' >= k. *)
Definition count_ok_len (mixed : bool) (lo : nat) (hi : option nat) (eps : bool) (k : nat) : bool :=
  if eps then le_hi_b k hi && (mixed || le_hi_b lo hi) else count_ok mixed lo hi k.

Fixpoint inLlen (mixed : bool) (sp : spec) (w : list pystr) {struct sp} : bool :=
  match sp with
  | El n lo hi => is_rep n w && Nat.leb lo (length w) && le_hi_b (length w) hi
  | Seq items =>
      (fix seq (l : list spec) (w : list pystr) : bool :=
         match l with
         | [] => is_nil w
         | i :: r => existsb (fun p => if inLlen mixed i (fst p) then seq r (snd p) else false) (splits w)
         end) items w
  | Cho alts lo hi =>
      existsb (count_ok_len mixed lo hi
                 ((fix alt (l : list spec) (w : list pystr) : bool :=
                     match l with
                     | [] => false
                     | a :: r => inLlen mixed a w || alt r w
                     end) alts []))
        ((fix counts (fuel : nat) (w : list pystr) : list nat :=
            match fuel with
            | O => []
            | S f =>
                match w with
                | [] => [0]
                | _ => flat_map (fun p => if negb (is_nil (fst p)) &&
                                             (fix alt (l : list spec) (w : list pystr) : bool :=
                                                match l with
                                                | [] => false
                                                | a :: r => inLlen mixed a w || alt r w
                                                end) alts (fst p)
                                          then map S (counts f (snd p)) else [])
                                (splits w)
                end
            end) (S (length w)) w)
  end.

Lemma inLlen_Seq mixed items w : inLlen mixed (Seq items) w = seq_dec (inLlen mixed) items w.
Proof. reflexivity. Qed.
Lemma inLlen_Cho mixed alts lo hi w :
  inLlen mixed (Cho alts lo hi) w =
  existsb (count_ok_len mixed lo hi (alt_dec (inLlen mixed) alts []))
          (counts (alt_dec (inLlen mixed) alts) (S (length w)) w).
Proof. reflexivity. Qed.

Definition inLlentop (mixed : bool) (top : option spec) (w : list pystr) : bool :=
  match top with None => is_nil w | Some sp => inLlen mixed sp w end.

Lemma Ll_El_inv mixed n lo hi w :
  Llen mixed (El n lo hi) w -> exists k, w = repeat n k /\ lo <= k /\ le_hi k hi.
Proof. intro H. inversion H; subst. eauto. Qed.
Lemma Ll_Seq_inv mixed items w :
  Llen mixed (Seq items) w -> exists ws, LlSeq mixed items ws /\ w = concat ws.
Proof. intro H. inversion H; subst. eauto. Qed.
Lemma Ll_Cho_inv mixed alts lo hi w :
  Llen mixed (Cho alts lo hi) w ->
  exists ws, LlOccs mixed alts ws /\ (mixed = true \/ lo <= length ws) /\ le_hi (length ws) hi /\ w = concat ws.
Proof. intro H. inversion H; subst. eauto 6. Qed.
Lemma LlSeq_cons_inv mixed i items ws0 :
  LlSeq mixed (i :: items) ws0 -> exists w ws, ws0 = w :: ws /\ Llen mixed i w /\ LlSeq mixed items ws.
Proof. intro H. inversion H; subst. eauto. Qed.
Lemma LlSeq_nil_inv mixed ws0 : LlSeq mixed [] ws0 -> ws0 = [].
Proof. intro H. inversion H; subst. reflexivity. Qed.
Lemma LlAlt_cons_inv mixed a alts w :
  LlAlt mixed (a :: alts) w -> Llen mixed a w \/ LlAlt mixed alts w.
Proof. intro H. inversion H; subst; auto. Qed.
Lemma LlOccs_Forall mixed alts ws : LlOccs mixed alts ws <-> Forall (LlAlt mixed alts) ws.
Proof.
  induction ws as [|w ws IH]; split; intro H; try constructor.
  - inversion H; subst. assumption.
  - inversion H; subst. apply IH. assumption.
  - inversion H; subst. assumption.
  - inversion H; subst. apply IH. assumption.
Qed.

(** [counts] for an arbitrary occurrence predicate *)
Lemma counts_spec_gen (A : list pystr -> Prop) (alt : list pystr -> bool) :
  (forall w, alt w = true <-> A w) ->
  forall fuel w k, length w < fuel ->
  (In k (counts alt fuel w) <->
   exists ws, Forall (fun x => x <> [] /\ A x) ws /\ w = concat ws /\ length ws = k).
Proof.
  intro Halt. induction fuel as [|fu IH]; intros w k Hlen; [lia|].
  cbn [counts]. destruct w as [|x w].
  - simpl. split.
    + intros [<-|[]]. exists []. repeat split. constructor.
    + intros (ws & H & E & <-). destruct ws as [|w1 ws]; [left; reflexivity|].
      inversion H as [|? ? [Hne _] _]; subst. simpl in E. symmetry in E.
      apply app_eq_nil in E as [E _]. congruence.
  - rewrite in_flat_map. split.
    + intros ([a b] & Hin & H). simpl fst in H. simpl snd in H.
      apply splits_spec in Hin.
      destruct (negb (is_nil a) && alt a) eqn:C; [|contradiction].
      apply andb_true_iff in C as [C1 C2]. apply negb_true_iff in C1.
      assert (a <> []) as Hne by (intros ->; discriminate).
      apply in_map_iff in H as (k' & <- & Hk').
      apply IH in Hk' as (ws & Lws & -> & <-).
      * exists (a :: ws). split; [|split; [simpl; symmetry; exact Hin | reflexivity]].
        constructor; [split; [exact Hne | apply Halt; exact C2] | exact Lws].
      * assert (length (a ++ b) = length (x :: w)) as E by (rewrite Hin; reflexivity).
        rewrite app_length in E. destruct a; [congruence|]. simpl in *. lia.
    + intros (ws & H & E & <-). destruct ws as [|a ws]; [discriminate|].
      inversion H as [|? ? [Hne HA] Lws]; subst.
      exists (a, concat ws). split; [apply splits_spec; simpl in E; symmetry; exact E|].
      simpl fst. simpl snd.
      assert (negb (is_nil a) && alt a = true) as C.
      { apply andb_true_iff. split; [destruct a; [congruence | reflexivity] | apply Halt; exact HA]. }
      rewrite C. change (length (a :: ws)) with (S (length ws)). apply in_map. apply IH.
      * assert (length (x :: w) = length (a ++ concat ws)) as E' by (rewrite E; reflexivity).
        rewrite app_length in E'. destruct a; [congruence|]. simpl in *. lia.
      * exists ws. repeat split. exact Lws.
Qed.

Lemma concat_repeat_nil {A} n : concat (repeat (@nil A) n) = [].
Proof. induction n; simpl; auto. Qed.

Definition nonempty_b {A} (x : list A) : bool := negb (is_nil x).

Lemma concat_filter_nonempty {A} (ws : list (list A)) : concat (filter nonempty_b ws) = concat ws.
Proof.
  induction ws as [|w ws IH]; simpl; [reflexivity|].
  destruct w; simpl; [exact IH | rewrite IH; reflexivity].
Qed.

Lemma filter_length_le {A} (f : A -> bool) l : length (filter f l) <= length l.
Proof. induction l as [|x l IH]; simpl; [lia|]. destruct (f x); simpl; lia. Qed.

Lemma filter_all {A} (f : A -> bool) l : Forall (fun x => f x = true) l -> filter f l = l.
Proof.
  induction l as [|x l IH]; intro H; simpl; [reflexivity|].
  inversion H; subst. rewrite H2, IH; auto.
Qed.

Section DecLen.
  Variable mixed : bool.
  Variable f : spec -> list pystr -> bool.

  Lemma seq_dec_spec_len : forall items,
    Forall (fun i => forall w, f i w = true <-> Llen mixed i w) items ->
    forall w, seq_dec f items w = true <-> exists ws, LlSeq mixed items ws /\ w = concat ws.
  Proof.
    induction items as [|i r IH]; intros HF w.
    - simpl. rewrite is_nil_spec. split.
      + intros ->. exists []. split; [constructor | reflexivity].
      + intros (ws & H & ->). apply LlSeq_nil_inv in H. subst ws. reflexivity.
    - inversion HF as [|? ? Hi Hr]; subst. specialize (IH Hr).
      cbn [seq_dec]. rewrite existsb_exists. split.
      + intros ([a b] & Hin & H). simpl in H. apply andb_true_iff in H as [H1 H2].
        apply splits_spec in Hin. apply Hi in H1. apply IH in H2 as (ws & Lws & ->).
        exists (a :: ws). split; [constructor; assumption | simpl; symmetry; exact Hin].
      + intros (ws0 & H & ->). apply LlSeq_cons_inv in H as (a & ws & -> & La & Lws).
        exists (a, concat ws). split; [apply splits_spec; reflexivity|].
        simpl. apply andb_true_iff. split; [apply Hi; exact La | apply IH; eauto].
  Qed.

  Lemma alt_dec_spec_len : forall alts,
    Forall (fun a => forall w, f a w = true <-> Llen mixed a w) alts ->
    forall w, alt_dec f alts w = true <-> LlAlt mixed alts w.
  Proof.
    induction alts as [|a r IH]; intros HF w.
    - simpl. split; [discriminate | intro H; inversion H].
    - inversion HF as [|? ? Ha Hr]; subst. specialize (IH Hr).
      cbn [alt_dec]. rewrite orb_true_iff, Ha, IH. split.
      + intros [H|H]; [apply LlAlt_here | apply LlAlt_there]; assumption.
      + intro H. apply LlAlt_cons_inv in H. exact H.
  Qed.
End DecLen.

Theorem inLlen_correct mixed : forall sp w, inLlen mixed sp w = true <-> Llen mixed sp w.
Proof.
  induction sp as [n lo hi|items IH|alts lo hi IH] using spec_ind'; intro w.
  - change (inLlen mixed (El n lo hi) w) with (inL mixed (El n lo hi) w).
    rewrite inL_El, !andb_true_iff, is_rep_spec, Nat.leb_le, le_hi_b_spec. split.
    + intros [[E A] B]. rewrite E. apply Ll_El; assumption.
    + intro H. apply Ll_El_inv in H as (k & -> & A & B). rewrite repeat_length. auto.
  - rewrite inLlen_Seq, (seq_dec_spec_len mixed _ items IH). split.
    + intros (ws & H & ->). apply Ll_Seq. exact H.
    + intro H. apply Ll_Seq_inv in H. exact H.
  - rewrite inLlen_Cho, existsb_exists.
    pose proof (alt_dec_spec_len mixed _ alts IH) as Halt.
    set (alt := alt_dec (inLlen mixed) alts) in *.
    split.
    + intros (k & Hin & Hk).
      apply (counts_spec_gen (LlAlt mixed alts) alt Halt) in Hin; [|lia].
      destruct Hin as (ws & Hws & -> & <-).
      assert (Forall (LlAlt mixed alts) ws) as Hws'.
      { eapply Forall_impl; [|exact Hws]. intros x [_ Hx]. exact Hx. }
      unfold count_ok_len in Hk. destruct (alt []) eqn:Eeps.
      * (* pad with empty occurrences *)
        apply Halt in Eeps. apply andb_true_iff in Hk as [Hk1 Hk2].
        apply le_hi_b_spec in Hk1. apply orb_true_iff in Hk2.
        set (k' := if mixed then length ws else Nat.max (length ws) lo).
        replace (concat ws) with (concat (ws ++ repeat [] (k' - length ws)))
          by (rewrite concat_app, concat_repeat_nil, app_nil_r; reflexivity).
        assert (length (ws ++ repeat [] (k' - length ws)) = k') as Elen.
        { rewrite app_length, repeat_length. subst k'. destruct mixed; lia. }
        apply Ll_Cho.
        -- apply LlOccs_Forall. apply Forall_app. split; [exact Hws'|].
           apply Forall_forall. intros x Hx. apply repeat_spec in Hx. subst x. exact Eeps.
        -- rewrite Elen. subst k'. destruct mixed; [left; reflexivity | right; lia].
        -- rewrite Elen. subst k'. destruct Hk2 as [Hm|Hlo].
           ++ rewrite Hm. exact Hk1.
           ++ apply le_hi_b_spec in Hlo. destruct mixed; [exact Hk1|].
              destruct hi as [h|]; simpl in *; [lia | exact I].
      * apply count_ok_spec in Hk as [A B].
        apply Ll_Cho; [apply LlOccs_Forall; exact Hws' | exact A | exact B].
    + intro H. apply Ll_Cho_inv in H as (ws & Lws & A & B & ->).
      apply LlOccs_Forall in Lws.
      exists (length (filter nonempty_b ws)). split.
      * apply (counts_spec_gen (LlAlt mixed alts) alt Halt); [lia|].
        exists (filter nonempty_b ws). split; [|split; [symmetry; apply concat_filter_nonempty | reflexivity]].
        apply Forall_forall. intros x Hx. apply filter_In in Hx as [Hx1 Hx2]. split.
        -- intros ->. discriminate.
        -- rewrite Forall_forall in Lws. apply Lws. exact Hx1.
      * unfold count_ok_len. pose proof (filter_length_le nonempty_b ws) as Hle.
        destruct (alt []) eqn:Eeps.
        -- apply andb_true_iff. split.
           ++ apply le_hi_b_spec. destruct hi as [h|]; simpl in *; [lia | exact I].
           ++ apply orb_true_iff. destruct A as [A|A]; [left; exact A | right].
              apply le_hi_b_spec. destruct hi as [h|]; simpl in *; [lia | exact I].
        -- (* no occurrence can be empty *)
           assert (filter nonempty_b ws = ws) as Efl.
           { apply filter_all. apply Forall_forall. intros x Hx.
             destruct x; [|reflexivity]. exfalso.
             rewrite Forall_forall in Lws. apply Lws in Hx. apply Halt in Hx. congruence. }
           rewrite Efl. apply count_ok_spec. auto.
Qed.

(** lenient language of a top-level children section *)
Definition Llentop (mixed : bool) (top : option spec) (w : list pystr) : Prop :=
  match top with None => w = [] | Some sp => Llen mixed sp w end.

Corollary inLlentop_correct mixed top w : inLlentop mixed top w = true <-> Llentop mixed top w.
Proof.
  destruct top as [sp|]; simpl; [apply inLlen_correct | apply is_nil_spec].
Qed.

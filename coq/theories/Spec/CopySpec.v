(* Spec/CopySpec.v — C12, the vocabulary of the statement: two trees are "equal in every field
   and in child order, ids excepted" when they coincide after the id of every node is blanked. *)
From MP Require Import Common.Base Common.Tree.

Definition erase_nd (d : nd) : nd :=
  {| n_id := []; n_name := n_name d; n_content := n_content d; n_tail := n_tail d; n_prefix := n_prefix d;
     n_attrs := n_attrs d; n_extras := n_extras d; n_nsmap := n_nsmap d |}.

Fixpoint erase (t : ftree) : ftree :=
  let 'FT d ks := t in FT (erase_nd d) (map erase ks).

Definition equal_up_to_ids (t t' : ftree) : Prop := erase t = erase t'.

(** sanity: blanking ids forgets nothing else *)
Lemma erase_fields t t' :
  equal_up_to_ids t t' ->
  n_name (ft_d t) = n_name (ft_d t') /\ n_content (ft_d t) = n_content (ft_d t') /\
  n_tail (ft_d t) = n_tail (ft_d t') /\ n_prefix (ft_d t) = n_prefix (ft_d t') /\
  n_attrs (ft_d t) = n_attrs (ft_d t') /\ n_extras (ft_d t) = n_extras (ft_d t') /\
  n_nsmap (ft_d t) = n_nsmap (ft_d t') /\ length (ft_kids t) = length (ft_kids t').
Proof.
  destruct t as [d ks], t' as [d' ks']; unfold equal_up_to_ids; simpl. intro H.
  injection H as H1 H2 H3 H4 H5 H6 H7 H8. repeat split; auto.
  apply (f_equal (@length ftree)) in H8. rewrite !map_length in H8. exact H8.
Qed.

(* Spec/Infoset.v — the ElementTree (lxml) view of a parsed document, as data.
   This is what [lxml.etree.fromstring] hands to metapype_io._process_element; the
   harness dumps it from lxml with a small independent walker (lxml is an oracle).
   [lxml_of] computes the same view from the result of the specification parser
   [Spec.Xml.xparse] (validated against the lxml dump on every generated document). *)
From MP Require Import Common.Base Common.XStr Spec.Xml.
Local Open Scope N_scope.

Inductive lkind := LElem | LComment | LPI.

(** tag: Clark form (brace uri brace local) or the plain local name; for comments and PIs
    the tag is not a string in lxml (it is a factory function); it is left empty for
    comments and holds the target for PIs.
    nsmap: in-scope bindings in lxml's order, the key None is the default namespace.
    attrib: non-declaration attributes in document order, names in Clark form. *)
Inductive xel : Type :=
  XEl (kind : lkind) (tag : pystr) (prefix : option pystr)
      (nsmap : list (option pystr * pystr)) (text tail : option pystr)
      (attrib : list (pystr * pystr)) (kids : list xel).

Definition l_kind (e : xel) := let 'XEl k _ _ _ _ _ _ _ := e in k.
Definition l_tag (e : xel) := let 'XEl _ t _ _ _ _ _ _ := e in t.
Definition l_prefix (e : xel) := let 'XEl _ _ p _ _ _ _ _ := e in p.
Definition l_nsmap (e : xel) := let 'XEl _ _ _ m _ _ _ _ := e in m.
Definition l_text (e : xel) := let 'XEl _ _ _ _ t _ _ _ := e in t.
Definition l_tail (e : xel) := let 'XEl _ _ _ _ _ t _ _ := e in t.
Definition l_attrib (e : xel) := let 'XEl _ _ _ _ _ _ a _ := e in a.
Definition l_kids (e : xel) := let 'XEl _ _ _ _ _ _ _ k := e in k.

Definition opt_text (x : pystr) : option pystr := if is_nil x then None else Some x.

Definition clark (u l : pystr) : pystr := [123] ++ u ++ [125] ++ l.

(** expanded (Clark) form of a qualified name in a scope; unprefixed names are in no
    namespace (the subset has no default namespace).  An unbound prefix is excluded by
    [ns_ok]; the name is then left as written. *)
Definition clark_of (scope : list (pystr * pystr)) (n : pystr) : pystr :=
  match split_colon n with
  | (None, l) => l
  | (Some p, l) => match uri_of scope p with
                   | Some u => clark u l
                   | None => n
                   end
  end.

Fixpoint lxml_of (scope : list (pystr * pystr)) (x : xnode) {struct x} : xel :=
  let 'XN k name al text kids tail := x in
  match k with
  | KElem =>
      let sc := scope_ext (own_decls al) scope in
      XEl LElem (clark_of sc name) (fst (split_colon name))
          (map (fun kv => (Some (fst kv), snd kv)) sc)
          (opt_text text) (opt_text tail)
          (map (fun a => (clark_of sc (fst a), snd a)) (filter (fun a => negb (is_decl a)) al))
          (map (lxml_of sc) kids)
  | KComment => XEl LComment [] None [] (Some text) (opt_text tail) [] []
  | KPI => XEl LPI name None [] (Some text) (opt_text tail) [] []
  end.

(** * The value of an imported tree *)
(** the value of an imported node; the nsmap may carry the key None (default namespace) *)
Record ind := {
  i_name : pystr;
  i_content : option pystr;
  i_tail : option pystr;
  i_prefix : option pystr;
  i_attrs : list (pystr * pystr);
  i_extras : list (pystr * pystr);
  i_nsmap : list (option pystr * pystr)
}.

Inductive itree : Type := IT (d : ind) (kids : list itree).
Definition it_d (t : itree) := let 'IT d _ := t in d.
Definition it_kids (t : itree) := let 'IT _ k := t in k.

Inductive res (A : Type) : Type :=
| Ok (a : A)
| Crash (kind : pystr).
Arguments Ok {A} a.
Arguments Crash {A} kind.

(** dicts keyed by Optional[str] *)
Definition okey_eqb (a b : option pystr) : bool := opt_eqb pystr_eqb a b.

Fixpoint oassoc (k : option pystr) (d : list (option pystr * pystr)) : option pystr :=
  match d with
  | [] => None
  | (k', v) :: r => if okey_eqb k k' then Some v else oassoc k r
  end.

Fixpoint odict_set (k : option pystr) (v : pystr) (d : list (option pystr * pystr))
  : list (option pystr * pystr) :=
  match d with
  | [] => [(k, v)]
  | (k', v') :: r => if okey_eqb k k' then (k', v) :: r else (k', v') :: odict_set k v r
  end.


(* Spec/InsertSpec.v — C17: vocabulary of the statement, written from the property text.
   "Declared order" is the order of the rule's flattened child names; the rank of a
   name is the position of its first occurrence there. *)
From Coq Require Import Sorted.
From MP Require Import Common.Base.
From MP Require Import Model.Rule.
From MP Require Import Model.Insert.
From MP Require Import Spec.Lang.
From MP Require Import Spec.Attr.

Definition insert_at {A} (i : nat) (x : A) (w : list A) : list A := firstn i w ++ x :: skipn i w.

(** rank of a name in the declared order; names outside the rule rank after everything *)
Definition rank (names : list pystr) (c : pystr) : nat :=
  match index_of c names with Some r => r | None => length names end.

(** children are in the rule's declared order: ranks never decrease *)
Definition in_declared_order (names : list pystr) (w : list pystr) : Prop :=
  StronglySorted (fun a b => rank names a <= rank names b) w.

(** "first position whose child has a larger rank, else the length" *)
Definition first_larger (names : list pystr) (x : pystr) (w : list pystr) (i : nat) : Prop :=
  i <= length w /\
  (forall j c, j < i -> nth_error w j = Some c -> rank names c <= rank names x) /\
  (forall c, nth_error w i = Some c -> rank names x < rank names c).

(** ** side conditions on a children spec (decidable; table obligations) *)

(** every name of the spec occurs in some valid sequence: each element may occur at
    least once (max <> 0, min <= max), each choice may be taken at least once, and a
    choice that must be taken offers at least one name *)
Definition le_hib1 (lo : nat) (hi : option nat) : bool :=
  match hi with None => true | Some h => (Nat.max lo 1 <=? h)%nat end.

Fixpoint occurs_ok (sp : spec) : bool :=
  match sp with
  | El _ lo hi => le_hib1 lo hi
  | Seq items => forallb occurs_ok items
  | Cho alts lo hi =>
      forallb occurs_ok alts && le_hib1 lo hi &&
      ((lo =? 0)%nat || negb (is_nil (flat_map names_of alts)))
  end.

Definition is_el_le1 (sp : spec) : bool :=
  match sp with El _ lo _ => (lo <=? 1)%nat | _ => false end.

(** every choice that may be taken more than once (max <> 1) is unbounded and offers only
    plain elements whose minimum is at most 1 *)
Fixpoint iter_ok (sp : spec) : bool :=
  match sp with
  | El _ _ _ => true
  | Seq items => forallb iter_ok items
  | Cho alts lo hi =>
      match hi with
      | Some 1 => forallb iter_ok alts
      | None => forallb is_el_le1 alts
      | Some _ => false
      end
  end.

(** [insert_ok]: each name is declared once, and [iter_ok] *)
Definition insert_ok (sp : spec) : bool := nodupb (names_of sp) && iter_ok sp.

Definition insert_ok_top (top : option spec) : bool :=
  match top with None => true | Some sp => insert_ok sp end.
Definition occurs_ok_top (top : option spec) : bool :=
  match top with None => true | Some sp => occurs_ok sp end.

(* Spec/JsonSpec.v — the vocabulary of the C06 statement, written from the property text,
   independent of Model/Json.v.

   "all trees whose namespace prefixes include their parent's (the invariant every import
    and attach operation establishes) and whose attribute/extras values are JSON strings"

   A tree is an [ftree] (Common/Tree.v): ids, names, child order, content, tail,
   attributes, extras, prefix and namespace maps are ALL its fields, so "reproduces it
   exactly" is Leibniz equality of [ftree]s.  Attribute / extras / namespace values are
   [pystr] by the type, which is the "values are JSON strings" clause. *)
From MP Require Import Common.Base Common.Tree.

(** The three dicts of a node are Python dicts: no key occurs twice.  (A representation
    invariant of the association-list encoding, not a restriction on trees.) *)
Definition dicts_ok (d : nd) : Prop :=
  NoDup (keys (n_attrs d)) /\ NoDup (keys (n_extras d)) /\ NoDup (keys (n_nsmap d)).

Inductive tree_ok : ftree -> Prop :=
| tree_ok_intro d kids : dicts_ok d -> Forall tree_ok kids -> tree_ok (FT d kids).

(** "namespace prefixes include their parent's": every prefix declared in a node's map is
    also a prefix of each of its children's maps (bound to whatever the child binds it to),
    at every level. *)
Inductive ns_closed : ftree -> Prop :=
| ns_closed_intro d kids :
    Forall (fun c => incl (keys (n_nsmap d)) (keys (n_nsmap (ft_d c)))) kids ->
    Forall ns_closed kids ->
    ns_closed (FT d kids).

(** "the fields it carries (id, name, attributes, content, children)" and "empty namespace
    data": what a tree looks like through the legacy codec. *)
Fixpoint legacy_view (t : ftree) : ftree :=
  let 'FT d kids := t in
  FT {| n_id := n_id d; n_name := n_name d; n_content := n_content d; n_tail := None;
        n_prefix := None; n_attrs := n_attrs d; n_extras := []; n_nsmap := [] |}
     (map legacy_view kids).

(** tree height, for inductions *)
Fixpoint theight (t : ftree) : nat :=
  let 'FT _ kids := t in S (fold_right (fun c a => Nat.max (theight c) a) 0 kids).

(** a usable induction principle for the nested type *)
Section FtreeInd.
  Variable P : ftree -> Prop.
  Hypothesis step : forall d kids, Forall P kids -> P (FT d kids).
  Fixpoint ftree_ind' (t : ftree) : P t :=
    let 'FT d kids := t in
    step d kids ((fix go (l : list ftree) : Forall P l :=
                    match l with
                    | [] => Forall_nil P
                    | x :: r => Forall_cons x (ftree_ind' x) (go r)
                    end) kids).
End FtreeInd.

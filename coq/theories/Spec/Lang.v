(* Spec/Lang.v — the regular language a children spec denotes (C01, C16, C17).
   Written from the property text; makes no reference to the matcher of Model/Rule.v
   (it only uses the [spec] syntax tree defined there). *)
From MP Require Import Common.Base Model.Rule.

Definition le_hi (k : nat) (hi : option nat) : Prop :=
  match hi with None => True | Some h => k <= h end.

(** [L mixed s w]: the child-name sequence [w] belongs to the language of [s].
    Strict reading: an occurrence of a choice is a NON-EMPTY match of one alternative.
    Mixed-content rules waive the minimum of choices. *)
Inductive L (mixed : bool) : spec -> list pystr -> Prop :=
| L_El n lo hi k : lo <= k -> le_hi k hi -> L mixed (El n lo hi) (repeat n k)
| L_Seq items ws : LSeq mixed items ws -> L mixed (Seq items) (concat ws)
| L_Cho alts lo hi ws :
    LOccs mixed alts ws ->
    (mixed = true \/ lo <= length ws) -> le_hi (length ws) hi ->
    L mixed (Cho alts lo hi) (concat ws)
with LSeq (mixed : bool) : list spec -> list (list pystr) -> Prop :=
| LSeq_nil : LSeq mixed [] []
| LSeq_cons i items w ws : L mixed i w -> LSeq mixed items ws -> LSeq mixed (i :: items) (w :: ws)
with LOccs (mixed : bool) : list spec -> list (list pystr) -> Prop :=
| LOccs_nil alts : LOccs mixed alts []
| LOccs_cons alts w ws : w <> [] -> LAlt mixed alts w -> LOccs mixed alts ws -> LOccs mixed alts (w :: ws)
with LAlt (mixed : bool) : list spec -> list pystr -> Prop :=
| LAlt_here a alts w : L mixed a w -> LAlt mixed (a :: alts) w
| LAlt_there a alts w : LAlt mixed alts w -> LAlt mixed (a :: alts) w.

Scheme L_ind' := Induction for L Sort Prop
  with LSeq_ind' := Induction for LSeq Sort Prop
  with LOccs_ind' := Induction for LOccs Sort Prop
  with LAlt_ind' := Induction for LAlt Sort Prop.
Combined Scheme L_mutind from L_ind', LSeq_ind', LOccs_ind', LAlt_ind'.

(** Lenient reading [Llen]: an alternative that matches the empty sequence may count as
    an occurrence.  [L ⊆ Llen]; membership questions whose answer differs between the
    two are exactly those the property leaves unspecified. *)
Inductive Llen (mixed : bool) : spec -> list pystr -> Prop :=
| Ll_El n lo hi k : lo <= k -> le_hi k hi -> Llen mixed (El n lo hi) (repeat n k)
| Ll_Seq items ws : LlSeq mixed items ws -> Llen mixed (Seq items) (concat ws)
| Ll_Cho alts lo hi ws :
    LlOccs mixed alts ws ->
    (mixed = true \/ lo <= length ws) -> le_hi (length ws) hi ->
    Llen mixed (Cho alts lo hi) (concat ws)
with LlSeq (mixed : bool) : list spec -> list (list pystr) -> Prop :=
| LlSeq_nil : LlSeq mixed [] []
| LlSeq_cons i items w ws : Llen mixed i w -> LlSeq mixed items ws -> LlSeq mixed (i :: items) (w :: ws)
with LlOccs (mixed : bool) : list spec -> list (list pystr) -> Prop :=
| LlOccs_nil alts : LlOccs mixed alts []
| LlOccs_cons alts w ws : LlAlt mixed alts w -> LlOccs mixed alts ws -> LlOccs mixed alts (w :: ws)
with LlAlt (mixed : bool) : list spec -> list pystr -> Prop :=
| LlAlt_here a alts w : Llen mixed a w -> LlAlt mixed (a :: alts) w
| LlAlt_there a alts w : LlAlt mixed alts w -> LlAlt mixed (a :: alts) w.

(** language of a top-level children section: [None] (empty section) allows no children *)
Definition Ltop (mixed : bool) (top : option spec) (w : list pystr) : Prop :=
  match top with
  | None => w = []
  | Some sp => L mixed sp w
  end.

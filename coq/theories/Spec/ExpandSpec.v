(* Spec/ExpandSpec.v — declarative statement of reference expansion (C16), written from the
   property text.  It shares with the model only the tree type and the two names
   "references" / "id".

     Resolvable ([spec_ok]): no id attribute value occurs twice in the tree, and the content of
     every references node (proper descendants of the root) is one of those values.
     Expansion ([expands]): every node keeps its record and its place, except that each child
     called "references" is replaced, in place, by copies of the children of the element that
     carries the id it names; a copy ([copy_of]) has the same shape and the same fields, and
     whatever ids.  Nothing is said here about which ids the copies get: that they are new and
     pairwise distinct is a separate statement (C16_copies_fresh). *)
From MP Require Import Common.Base Common.Tree.

Definition REFS : pystr := s "references".
Definition IDA : pystr := s "id".

Definition is_ref (t : ftree) : bool := pystr_eqb (ft_name t) REFS.

(** the id attribute of an element, if any *)
Definition id_of (t : ftree) : option pystr := assoc IDA (n_attrs (ft_d t)).

(** (id value, element carrying it), document order *)
Definition id_pairs (t : ftree) : list (pystr * ftree) :=
  flat_map (fun x => match id_of x with Some v => [(v, x)] | None => [] end) (preorder t).

Definition id_values (t : ftree) : list pystr := keys (id_pairs t).

Fixpoint nodupb (l : list pystr) : bool :=
  match l with
  | [] => true
  | x :: r => negb (smem x r) && nodupb r
  end.

(** proper descendants, document order *)
Definition descendants (t : ftree) : list ftree := flat_map preorder (ft_kids t).

Definition refs_of (t : ftree) : list ftree := filter is_ref (descendants t).

(** the element a references node names *)
Definition target (t : ftree) (r : ftree) : option ftree :=
  match n_content (ft_d r) with
  | Some v => assoc v (id_pairs t)
  | None => None
  end.

Definition spec_ok (t : ftree) : bool :=
  nodupb (id_values t) &&
  forallb (fun r => match target t r with Some _ => true | None => false end) (refs_of t).

(** what replaces a references node: the children of its target *)
Definition src_kids (t : ftree) (r : ftree) : list ftree :=
  match target t r with Some x => ft_kids x | None => [] end.

(** same fields, id apart *)
Definition same_but_id (d d' : nd) : Prop :=
  n_name d = n_name d' /\ n_content d = n_content d' /\ n_tail d = n_tail d' /\ n_prefix d = n_prefix d' /\
  n_attrs d = n_attrs d' /\ n_extras d = n_extras d' /\ n_nsmap d = n_nsmap d'.

Inductive copy_of : ftree -> ftree -> Prop :=
| CO d d' ks ks' : same_but_id d d' -> Forall2 copy_of ks ks' -> copy_of (FT d ks) (FT d' ks').

(** child lists: references children replaced by copies, the others related by [P] *)
Inductive splice (P : ftree -> ftree -> Prop) (src : ftree -> list ftree) : list ftree -> list ftree -> Prop :=
| SP_nil : splice P src [] []
| SP_ref r ks cs ks' :
    is_ref r = true -> Forall2 copy_of (src r) cs -> splice P src ks ks' ->
    splice P src (r :: ks) (cs ++ ks')
| SP_other k k' ks ks' :
    is_ref k = false -> P k k' -> splice P src ks ks' ->
    splice P src (k :: ks) (k' :: ks').

Inductive expands (src : ftree -> list ftree) : ftree -> ftree -> Prop :=
| EXP d ks ks' : splice (expands src) src ks ks' -> expands src (FT d ks) (FT d ks').

(** the property's precondition on the shape of the tree: referenced elements hold no
    references node, and no references node holds another *)
Definition has_ref (t : ftree) : bool := existsb is_ref (preorder t).

Definition refs_flat (t : ftree) : bool :=
  forallb (fun r => negb (existsb is_ref (descendants r)) &&
                    match target t r with Some x => negb (has_ref x) | None => true end) (refs_of t).

(** copies land under a parent with the same namespace items (attaching them then changes
    nothing; what attaching does otherwise is C13's subject) *)
Fixpoint ns_agree_at (t : ftree) (u : ftree) : bool :=
  let 'FT d kids := u in
  forallb (fun k => if is_ref k
                    then forallb (fun c => dict_eqb (n_nsmap d) (n_nsmap (ft_d c))) (src_kids t k)
                    else ns_agree_at t k) kids.
Definition ns_agree (t : ftree) : bool := ns_agree_at t t.

(** attribute keys are unique (a Python dict) *)
Definition attrs_wf (t : ftree) : Prop :=
  Forall (fun x => NoDup (keys (n_attrs (ft_d x)))) (preorder t).

(** nodes that are not inside a references subtree *)
Inductive outside_refs : ftree -> ftree -> Prop :=
| OR_root t : outside_refs t t
| OR_child t d kids c : outside_refs t (FT d kids) -> In c kids -> is_ref c = false -> outside_refs t c.

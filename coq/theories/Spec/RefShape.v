(* Spec/RefShape.v — the shape of children sections that allow a "references" child (C16):
     Cho [A; El references 1 1] 1 1                      (the element is spelled out, or refers)
     Seq [Cho [A; El references 1 1] 1 1; El role 1 None] (the same, followed by one or more roles)
   with "references" not among the names of A and role <> "references".  Substitution of the
   spelled-out children for the references child is [subst_refs]. *)
From MP Require Import Common.Base Model.Rule.

Definition REFS_NAME : pystr := s "references".

(** [Some A] when [sp] is Cho [A; El references 1 1] 1 1 with "references" not a name of A *)
Definition ref_cho (sp : spec) : option spec :=
  match sp with
  | Cho [A; El n 1 (Some 1)] 1 (Some 1) =>
      if pystr_eqb n REFS_NAME && negb (smem REFS_NAME (names_of A)) then Some A else None
  | _ => None
  end.

Definition ref_shape_ok (top : spec) : bool :=
  match top with
  | Cho _ _ _ => match ref_cho top with Some _ => true | None => false end
  | Seq [c; El role 1 None] =>
      match ref_cho c with Some _ => negb (pystr_eqb role REFS_NAME) | None => false end
  | _ => false
  end.

(** every "references" in [w] replaced by the word [src] *)
Definition subst_refs (w src : list pystr) : list pystr :=
  flat_map (fun x => if pystr_eqb x REFS_NAME then src else [x]) w.

(** table obligation: every rule whose children section mentions "references" has the shape *)
Definition rule_ref_shape_ok (r : rule_raw) : bool :=
  match parse_children (rr_children r) with
  | Some (Some top) => if smem REFS_NAME (names_of top) then ref_shape_ok top else true
  | _ => true
  end.

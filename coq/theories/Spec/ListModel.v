(* Spec/ListModel.v — C09: the ordered-list model of the edits, the forest invariant, the
   proviso, and what each query must answer — written from the property text.
   Only the TYPES [st], [op], [dir], [rtree] are shared with Model/Edits.v (a state is data);
   none of its functions is used.  Lists are manipulated with firstn / skipn / ++ / nth /
   seq / find only. *)
From MP Require Import Common.Base.
From MP Require Import Model.Edits.

(** * positions *)
(** first position holding [c] *)
Definition pos (c : nat) (l : list nat) : option nat :=
  find (fun i => Nat.eqb (nth i l (S c)) c) (seq 0 (length l)).

(** where list.insert puts the new element: negative indices count from the end; clamped *)
Definition clamp (z : Z) (len : nat) : nat :=
  if (z <? 0)%Z then Z.to_nat (Z.max 0 (z + Z.of_nat len)) else Z.to_nat (Z.min z (Z.of_nat len)).

(** the list with positions i and j exchanged *)
Definition swap_at (i j : nat) (l : list nat) : list nat :=
  map (fun k => nth (if Nat.eqb k i then j else if Nat.eqb k j then i else k) l 0) (seq 0 (length l)).

(** nearest position left / right of [i] whose node has the same name as the node at [i] *)
Definition same_name (nm : nat -> nat) (l : list nat) (i j : nat) : bool :=
  Nat.eqb (nm (nth j l 0)) (nm (nth i l 0)).
Definition sib_left (nm : nat -> nat) (l : list nat) (i : nat) : option nat :=
  find (same_name nm l i) (rev (seq 0 i)).
Definition sib_right (nm : nat -> nat) (l : list nat) (i : nat) : option nat :=
  find (same_name nm l i) (seq (S i) (length l - S i)).

(** * one edit on the child list of its target *)
Inductive outcome := Done (l' : list nat) (r : option nat) | Refused.

Definition target (o : op) : nat :=
  match o with
  | AddChild p _ _ | RemoveChild p _ | ReplaceChild p _ _ _ | Shift p _ _ _ | RemoveChildren p => p
  end.

Definition step_list (nm : nat -> nat) (o : op) (l : list nat) : outcome :=
  match o with
  | AddChild _ c None => Done (l ++ [c]) None
  | AddChild _ c (Some z) => let k := clamp z (length l) in Done (firstn k l ++ [c] ++ skipn k l) None
  | RemoveChild _ c =>
      match pos c l with
      | None => Refused
      | Some i => Done (firstn i l ++ skipn (S i) l) None
      end
  | ReplaceChild _ old new _ =>
      if Nat.eqb (nm new) (nm old) then
        match pos old l with
        | None => Refused
        | Some i => Done (firstn i l ++ [new] ++ skipn (S i) l) None
        end
      else Refused
  | Shift _ c d sib =>
      match pos c l with
      | None => Refused
      | Some i =>
        let j := match d, sib with
                 | LEFT, false => if Nat.eqb i 0 then None else Some (i - 1)
                 | RIGHT, false => if Nat.ltb (S i) (length l) then Some (S i) else None
                 | LEFT, true => sib_left nm l i
                 | RIGHT, true => sib_right nm l i
                 end in
        match j with
        | None => Done l (Some i)                    (* already at the edge: nothing moves *)
        | Some j => Done (swap_at i j l) (Some j)
        end
      end
  | RemoveChildren _ => Done [] None
  end.

(** the whole forest: only the target's list changes *)
Definition step (nm : nat -> nat) (o : op) (ks : nat -> list nat) : option ((nat -> list nat) * option nat) :=
  match step_list nm o (ks (target o)) with
  | Refused => None
  | Done l' r => Some (fun q => if Nat.eqb q (target o) then l' else ks q, r)
  end.

(** * the forest invariant *)
Inductive desc (s : st) : nat -> nat -> Prop :=
| desc_kid p c : In c (kids s p) -> desc s p c
| desc_step p c d : In c (kids s p) -> desc s c d -> desc s p d.

Record Inv (s : st) : Prop := {
  inv_parent : forall p c, In c (kids s p) -> parent s c = Some p;   (* a listed child's parent is the lister *)
  inv_listed : forall p c, parent s c = Some p -> In c (kids s p);   (* and nobody else claims a parent *)
  inv_nodup : forall p, NoDup (kids s p);                            (* listed at most once by a node *)
  inv_acyclic : forall x, ~ desc s x x                               (* no node below itself *)
}.

(** the proviso: the node being attached is a detached root, distinct from and not an
    ancestor of the target.  Edits that refuse before changing anything need none. *)
Definition detached (s : st) (c : nat) : Prop := forall q, ~ In c (kids s q).
Definition attach_ok (s : st) (p c : nat) : Prop := detached s c /\ c <> p /\ ~ desc s c p.
Definition pre (s : st) (o : op) : Prop :=
  match o with
  | AddChild p c _ => attach_ok s p c
  | ReplaceChild p old new _ => name s new = name s old -> In old (kids s p) -> attach_ok s p new
  | _ => True
  end.

(** states agree on every observable *)
Definition st_eq (a b : st) : Prop :=
  forall i, kids a i = kids b i /\ parent a i = parent b i /\ name a i = name b i /\ reg a i = reg b i.

(** * the ordered tree below a node, and what the queries must answer *)
Inductive tree_of (s : st) : nat -> rtree -> Prop :=
| TreeOf i ks : Forall2 (tree_of s) (kids s i) ks -> tree_of s i (RT i (name s i) ks).

(** document order, the node itself first *)
Fixpoint rpre (t : rtree) : list rtree :=
  let 'RT _ _ ks := t in t :: flat_map rpre ks.

Definition named (nm : nat) (t : rtree) : bool := Nat.eqb (rt_name t) nm.

Definition spec_find_child nm t := hd_error (filter (named nm) (rt_kids t)).
Definition spec_find_all_children nm t := filter (named nm) (rt_kids t).
Definition spec_find_descendant nm t := hd_error (filter (named nm) (tl (rpre t))).
Definition spec_find_all_descendants nm t := filter (named nm) (tl (rpre t)).
Definition spec_single_by_path (path : list nat) (t : rtree) : option rtree :=
  match path with
  | [] => None
  | _ => fold_left (fun cur nm => match cur with Some x => spec_find_child nm x | None => None end) path (Some t)
  end.
Definition spec_all_by_path (path : list nat) (t : rtree) : list rtree :=
  match path with
  | [] => []
  | _ => fold_left (fun cur nm => flat_map (spec_find_all_children nm) cur) path [t]
  end.

(** ancestry of [i]: the chain of listers from a detached root down to [i] *)
Inductive chain (s : st) : list nat -> Prop :=
| chain_one x : chain s [x]
| chain_cons x y r : In y (kids s x) -> chain s (y :: r) -> chain s (x :: y :: r).

Definition is_ancestry (s : st) (i : nat) (l : list nat) : Prop :=
  chain s l /\ (exists r rest, l = r :: rest /\ detached s r) /\ (exists front, l = front ++ [i]).

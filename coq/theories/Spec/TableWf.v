(* Spec/TableWf.v — C10: what "the rule table is closed and consistent with the known
   element names" means, written from the property text as decidable checks over a
   [tables] value (they are closed by complete enumeration of Gen/Tables.v on every
   run).  Prop readings of the checks are proved in Proofs/C10_Sound.v. *)
From MP Require Import Common.Base.
From MP Require Import Model.Rule.
From MP Require Import Spec.Attr.

(** ** every element name resolves to a rule that exists *)
Definition rules_exist (tb : tables) : bool :=
  forallb (fun p => smem (snd p) (keys (tb_rules tb))) (tb_node_map tb).

(** ** structural well-formedness of one rule *)
Definition le_hib (k : nat) (hi : option nat) : bool :=
  match hi with None => true | Some h => (k <=? h)%nat end.

(** integer minimum not above maximum (or maximum unbounded), at every level *)
Fixpoint bounds_ok (sp : spec) : bool :=
  match sp with
  | El _ lo hi => le_hib lo hi
  | Seq items => forallb bounds_ok items
  | Cho alts lo hi => le_hib lo hi && forallb bounds_ok alts
  end.

(** the children section parses as nested sequences/choices (non-negative integer
    bounds are part of parsing), no sequence sits directly inside a sequence *)
Definition wf_children (l : list rj) : bool :=
  match parse_children l with
  | Some None => true
  | Some (Some sp) => no_seq_in_seq sp && bounds_ok sp
  | None => false
  end.

(** [implemented]: the content-rule names the validator dispatches on *)
Definition wf_rule (implemented : list pystr) (r : rule_raw) : bool :=
  wf_attrs (rr_attrs r) && wf_children (rr_children r) &&
  forallb (fun c => smem c implemented) (rr_content_rules r).

Definition all_rules_wf (implemented : list pystr) (tb : tables) : bool :=
  forallb (fun p => wf_rule implemented (snd p)) (tb_rules tb).

(** names of the rules that are NOT well-formed (what the harness reports) *)
Definition ill_formed (implemented : list pystr) (tb : tables) : list pystr :=
  flat_map (fun p => if wf_rule implemented (snd p) then [] else [fst p]) (tb_rules tb).

(** ** child names permitted by reachable rules *)
Definition rule_child_names (r : rule_raw) : list pystr :=
  match parse_children (rr_children r) with
  | Some top => names_of_top top
  | None => []
  end.

(** child names permitted by the rules some element name maps to *)
Definition permitted_children (tb : tables) : list pystr :=
  flat_map (fun p => match assoc (snd p) (tb_rules tb) with
                     | Some r => rule_child_names r
                     | None => []
                     end) (tb_node_map tb).

(** lexicographic order on code-point lists, used only to present the gap list in
    an order that does not depend on the order of the tables *)
Fixpoint pystr_leb (a b : pystr) : bool :=
  match a, b with
  | [], _ => true
  | _ :: _, [] => false
  | x :: a', y :: b' => if (x <? y)%N then true else if (y <? x)%N then false else pystr_leb a' b'
  end.

Fixpoint insert_sorted (x : pystr) (l : list pystr) : list pystr :=
  match l with
  | [] => [x]
  | y :: r => if pystr_eqb x y then l
              else if pystr_leb x y then x :: l else y :: insert_sorted x r
  end.

(** sorted, duplicate-free *)
Definition sort_set (l : list pystr) : list pystr := fold_right insert_sorted [] l.

(** permitted child names that are not element names: "single-node validation allows
    a child that whole-tree validation must reject" *)
Definition gaps (tb : tables) : list pystr :=
  sort_set (filter (fun c => negb (smem c (keys (tb_node_map tb)))) (permitted_children tb)).

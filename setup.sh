#!/bin/sh
# Build the whole Coq development from files on disk (offline). Run once after a fresh restore.
set -e
cd "$(dirname "$0")"
/venv/bin/python harness/gen_tables.py
cd coq
rm -f Makefile Makefile.conf .Makefile.d
coq_makefile -f _CoqProject -o Makefile
timeout 3000 make -j16
echo "setup: ok"

"""C12 — copy is deep, equal and independent.

Random trees (1-6 nodes, built through the public API with attach / declare histories so that
nsmap dicts are shared the way the library shares them) -> copy() of a random node.
(S) the statement on the implementation: equality of every field and child order (ids
    excepted), fresh + registered ids, parent links inside the copy, no shared node / dict /
    child-list object, and the frame clause: EVERY single edit (setters, add/remove attribute,
    extras, add/remove namespace, add/remove/replace child, remove_children) on EVERY node of
    either tree leaves a full snapshot of the other tree unchanged.
(B) the Gallina model (Model/Copy.v, Model/HeapEdits.v) evaluated inside Coq on the same
    scripts: every field of every node object, child/parent links, identity classes of all
    dicts and the registry must agree after the copy and after sampled edits."""
from harness import common, heaplib as HL

NAMES = ["a", "b", "c"]
PFX = ["p", "q"]
NSP = ["p", "q", None]                # None: the default-namespace key (what from_xml gives for xmlns="...")
URI = ["u", "v", ""]                 # "" : falsy but legal
KEYS = ["k", "l"]
VALS = ["x", "y", 'z"<&', ""]


def gen_tree_script(rng, k):
    """A script that creates k nodes and edits / attaches them into a forest; returns (script, parent[])"""
    sc = []
    parent = [None] * k
    for i in range(k):
        sc.append(("create", rng.choice(NAMES), "n%d" % i if rng.random() < 0.5 else None,
                   rng.choice([None, "t", "", "text %d" % i])))
    pending = []
    for i in range(k):
        if rng.random() < 0.4:
            pending.append(("tail", i, rng.choice(["\n", "tl"])))
        if rng.random() < 0.3:
            pending.append(("prefix", i, rng.choice(PFX)))
        for _ in range(rng.randint(0, 2)):
            pending.append(("attr", i, rng.choice(KEYS), rng.choice(VALS)))
        for _ in range(rng.randint(0, 1)):
            pending.append(("extras", i, rng.choice(KEYS), rng.choice(VALS)))
        for _ in range(rng.randint(0, 2)):
            pending.append(("ns", i, rng.choice(NSP), rng.choice(URI)))
        if rng.random() < 0.15:
            pending.append(("rmns", i, rng.choice(NSP)))
    # attach: node i>0 gets a parent among earlier nodes with high probability (keeps a forest)
    for i in range(1, k):
        if rng.random() < 0.85:
            pending.append(("attach", rng.randrange(i), i, rng.choice([None, None, 0, -1, 1])))
    # some nodes leave the registry before anything is copied (a live node may be copied after it was
    # unregistered: its copies must still be registered under fresh ids)
    wholly = rng.random() < 0.08
    for i in range(k):
        if wholly or rng.random() < 0.12:
            pending.append(("delete", ("obj", i), False))
    rng.shuffle(pending)
    # ns operations after attaches create the interesting sharing; keep the shuffled order
    for c in pending:
        if c[0] == "attach":
            parent[c[2]] = c[1]
        sc.append(c)
    return sc, parent


def subtree(w, n):
    out = []

    def walk(x):
        out.append(w.num(x))
        for c in x.children:
            walk(c)
    walk(w.objs[n])
    return out


def snap(w, n):
    """full value snapshot of the tree below object n, ids and in-tree parent links included"""
    def walk(x, par):
        return (x.id, x.name, x.content, x.tail, x.prefix, tuple(x.attributes.items()), tuple(x.extras.items()),
                tuple(x.nsmap.items()), None if par is None else (x.parent.id if x.parent is not None else "<none>"),
                tuple(walk(c, x) for c in x.children))
    return walk(w.objs[n], None)


def _walk(x):
    yield x
    for c in x.children:
        yield from _walk(c)


def snap_noid(x):
    return (x.name, x.content, x.tail, x.prefix, tuple(x.attributes.items()), tuple(x.extras.items()),
            tuple(x.nsmap.items()), tuple(snap_noid(c) for c in x.children))


def edits_for(w, n, nxt):
    """every single edit on object n; an edit is a list of script commands (fresh nodes are
    created first; nxt = the object number the next created node gets)"""
    x = w.objs[n]
    out = [[("content", n, "EDIT")], [("content", n, None)], [("tail", n, "EDIT")], [("prefix", n, "e")],
           [("attr", n, "newkey", "EDIT")], [("extras", n, "newkey", "EDIT")],
           [("ns", n, "newp", "EDITURI")], [("create", "a", None, None), ("attach", n, nxt, None)],
           [("create", "a", None, "c"), ("attach", n, nxt, 0)],
           # direct mutation through the exposed dict / list properties (implementation only, not modelled)
           [("rawattr", n, "rawkey", "EDIT")], [("rawextras", n, "rawkey", "EDIT")], [("rawns", n, "rawp", "EDITURI")],
           [("create", "a", None, None), ("rawchild", n, nxt)]]
    for k in list(x.attributes)[:2]:
        out.append([("attr", n, k, "EDIT")])
        out.append([("rmattr", n, k)])
    for k in list(x.extras)[:1]:
        out.append([("extras", n, k, "EDIT")])
    for p in list(x.nsmap)[:2]:
        out.append([("ns", n, p, "EDITURI")])
        out.append([("rmns", n, p)])
    if x.children:
        c0 = w.num(x.children[0])
        cl = w.num(x.children[-1])
        out.append([("rmchild", n, c0)])
        out.append([("create", x.children[0].name, None, None), ("replace", n, c0, nxt, True)])
        out.append([("create", x.children[-1].name, None, "r"), ("replace", n, cl, nxt, False)])
        out.append([("rmchildren", n)])
    return out


PY_ONLY = ("rmchildren", "rawattr", "rawextras", "rawns", "rawchild")


def apply_edit(w, ed):
    for c in ed:
        r = w.apply(c)
        if r is not None:
            return r
    return None


def check_copy_statement(ctx, w, n, n2, before_ids, script):
    """(S) clauses about the copy itself. n: original object number, n2: number of the copy's root."""
    Node = w.Node
    o, c = w.objs[n], w.objs[n2]
    rep = {"kind": "impl-vs-statement", "script": [list(x) for x in script], "copied_object": n}
    if snap_noid(o) != snap_noid(c):
        ctx.fail("C12:equal", "the copy differs from the original in a field or in child order",
                 dict(rep, original=snap_noid(o), copy=snap_noid(c)))
    on, cn = subtree(w, n), subtree(w, n2)
    ids = [w.objs[i].id for i in cn]
    if len(set(ids)) != len(ids) or set(ids) & before_ids:
        ctx.fail("C12:fresh", "ids of the copy are not fresh / not pairwise distinct", dict(rep, ids=ids))
    for i in cn:
        if Node.get_node_instance(w.objs[i].id) is not w.objs[i]:
            ctx.fail("C12:registered", "a node of the copy is not retrievable from the registry by its id",
                     dict(rep, node=i, id=w.objs[i].id))
    for i in cn:
        x = w.objs[i]
        for ch in x.children:
            if ch.parent is not x:
                ctx.fail("C12:parents", "a parent link below the copy's root does not point at the node that holds the child",
                         dict(rep, child=w.num(ch) if w.known(ch) else "?", holder=i))
    oo = set(id(w.objs[i]) for i in on)
    for i in cn:
        x = w.objs[i]
        if id(x) in oo:
            ctx.fail("C12:disjoint", "copy and original share a node object", dict(rep, node=i))
    odicts = set()
    for i in on:
        x = w.objs[i]
        odicts |= {id(x.attributes), id(x.extras), id(x.nsmap), id(x.children)}
    for i in cn:
        x = w.objs[i]
        if {id(x.attributes), id(x.extras), id(x.nsmap), id(x.children)} & odicts:
            ctx.fail("C12:disjoint", "copy and original share a dict or child-list object", dict(rep, node=i))


def run(ctx):
    built = ctx.build(extra_targets=["theories/Model/HeapRun.v"])
    thorough = ctx.tier == "thorough"
    ntrees = 400 if thorough else 40
    nmodel_edits = 10 if thorough else 5
    ctx.extra["rule"] = ("random forests of 1-6 nodes built by create / setter / attribute / extras / declare / undeclare / attach "
                         "histories in shuffled order; copy() of a random node; then every single edit of the list in edits_for() on every "
                         "node of the copy and of the original, each from a freshly rebuilt state; non-trivial = distinct (script, edit) pairs "
                         "whose edit changes the edited tree")
    terms, metas = [], []
    for t in range(ntrees):
        k = ctx.rng.randint(1, 6)
        script, parent = gen_tree_script(ctx.rng, k)
        # copy targets weighted by (subtree size)^2, so that multi-node copies dominate
        size = [1] * k
        for i in range(k - 1, 0, -1):
            if parent[i] is not None:
                size[parent[i]] += size[i]
        target = ctx.rng.choices(range(k), weights=[s * s for s in size])[0]
        # one copy, or (half of the cases) a second copy: of the same node again, of the first
        # copy, or of another node -- ids must be fresh with respect to everything in use before
        copies = [target]
        if ctx.rng.random() < 0.5:
            w_tmp, _, r_tmp = HL.run_script(script + [("copy", target)])
            if r_tmp is None:
                copies.append(ctx.rng.choice([target, k, ctx.rng.randrange(len(w_tmp.objs))]))
        pre = script
        ok = True
        for j, tg in enumerate(copies[:-1]):
            wj0, _, _ = HL.run_script(pre)
            ids0 = set(wj0.Node.store.keys()) | {o.id for o in wj0.objs}
            nroot = len(wj0.objs)
            wj, _, rj = HL.run_script(pre + [("copy", tg)])
            if rj is not None:
                ok = False
                break
            check_copy_statement(ctx, wj, tg, nroot, ids0, pre + [("copy", tg)])
            ctx.case(("copy", tuple(pre), tg), True)
            pre = pre + [("copy", tg)]
        target = copies[-1]
        ctx.count("copies_in_script=%d" % len(copies))
        full = pre + [("copy", target)]
        term, w, raised = HL.coq_case(full)
        if raised is not None or not ok:
            ctx.fail("C12:raises", f"building or copying raised {raised[1] if raised else '?'}",
                     {"kind": "impl-vs-statement", "script": [list(x) for x in full], "raised": raised})
            continue
        # ids in use before the copy: re-run the prefix
        w0, _, _ = HL.run_script(pre)
        before_ids = set(w0.Node.store.keys()) | {o.id for o in w0.objs}
        k = len(w0.objs)            # object number of the (last) copy's root
        # lesson (s): the argument itself must be unchanged by copy(): every existing object, snapshotted
        # immediately before the call on the same objects and compared immediately after
        wx, _, _ = HL.run_script(pre)
        before_all = [snap(wx, i) for i in range(len(wx.objs))]
        nb = len(wx.objs)
        rx = wx.apply(("copy", target))
        after_all = [snap(wx, i) for i in range(nb)]
        if rx is None and after_all != before_all:
            changed = [i for i in range(nb) if after_all[i] != before_all[i]]
            ctx.fail("C12:original-changed", "copy() changed an existing tree (the original or another tree)",
                     {"kind": "impl-vs-statement", "script": [list(x) for x in full], "changed_objects": changed,
                      "before": [before_all[i] for i in changed[:2]], "after": [after_all[i] for i in changed[:2]]})
        w, _, _ = HL.run_script(full)
        n2 = k                      # the copy's root is the first object created by copy()
        check_copy_statement(ctx, w, target, n2, before_ids, full)
        ctx.case(("copy", tuple(full)), True)
        ctx.count("tree_nodes=%d" % len(subtree(w, target)))
        shared = len({id(o.nsmap) for o in w.objs[:k]}) < k
        ctx.count("shared_nsmap_in_original" if shared else "no_shared_nsmap")
        terms.append(term)
        metas.append(full)
        if t < 3:
            ctx.sample({"script": [list(x) for x in full]})
        # ---- frame clause: every single edit on every node of either tree
        nobj = len(w.objs)
        onodes, cnodes = subtree(w, target), subtree(w, n2)
        all_edits = []
        for side, nodes, other in (("copy", cnodes, target), ("original", onodes, n2)):
            for n in nodes:
                for ed in edits_for(w, n, nobj):
                    all_edits.append((side, n, other, ed))
        sampled = set(ctx.rng.sample(range(len(all_edits)), min(nmodel_edits, len(all_edits))))
        for ei, (side, n, other, ed) in enumerate(all_edits):
            w2, _, _ = HL.run_script(full)
            before_other = snap(w2, other)
            before_self = snap(w2, target if side == "original" else n2)
            r = apply_edit(w2, ed)
            after_other = snap(w2, other)
            changed = snap(w2, target if side == "original" else n2) != before_self
            ctx.case(("edit", tuple(full), side, n, tuple(ed)), changed)
            ctx.count("edit:" + ed[-1][0])
            if r is not None:
                ctx.count("edit_raised:" + r)
            # history sensitivity: copy the edited tree AGAIN (same objects, after an in-place edit); the new copy
            # must equal the tree as it is now, with ids nobody uses
            if r is None:
                edited_root = w2.objs[target if side == "original" else n2]
                in_use = set(w2.Node.store.keys()) | {o.id for o in w2.objs}
                try:
                    again = edited_root.copy()
                    if snap_noid(again) != snap_noid(edited_root):
                        ctx.fail("C12:equal-after-edit", f"a copy taken after an in-place edit ({ed[-1][0]}) differs from the edited tree",
                                 {"kind": "impl-vs-statement", "script": [list(x) for x in full], "edit": [list(x) for x in ed],
                                  "edited_tree": side, "tree_now": snap_noid(edited_root), "copy": snap_noid(again)})
                    new_ids = [x.id for x in _walk(again)]
                    if len(set(new_ids)) != len(new_ids) or set(new_ids) & in_use:
                        ctx.fail("C12:fresh-after-edit", "ids of a copy taken after an edit are not fresh",
                                 {"kind": "impl-vs-statement", "script": [list(x) for x in full], "edit": [list(x) for x in ed], "ids": new_ids})
                except Exception as e:
                    ctx.fail("C12:raises-after-edit", f"copy() after {ed[-1][0]} raised {type(e).__name__}",
                             {"kind": "impl-vs-statement", "script": [list(x) for x in full], "edit": [list(x) for x in ed]})
                after_other = snap(w2, other) if after_other == before_other else after_other
            if after_other != before_other:
                ctx.fail(f"C12:frame:{ed[-1][0]}",
                         f"an edit ({ed[-1][0]}) applied inside the {side} is visible in the other tree",
                         {"kind": "impl-vs-statement", "script": [list(x) for x in full], "edit": [list(x) for x in ed],
                          "edited_tree": side, "edited_object": n, "other_before": before_other, "other_after": after_other})
            if ei in sampled and not any(c[0] in PY_ONLY for c in ed):
                term2, _, _ = HL.coq_case(full + ed)
                terms.append(term2)
                metas.append(full + ed)
    # ---- one wide tree (more than 256 children: past the small-int cache), statement only
    wide = [("create", "a", None, None)] + [("create", "b", None, "c%d" % i) for i in range(300)]
    wide += [("attach", 0, i + 1, None) for i in range(300)] + [("ns", 0, "p", "u"), ("attr", 300, "k", "")]
    w0, _, _ = HL.run_script(wide)
    ids0 = set(w0.Node.store.keys()) | {o.id for o in w0.objs}
    ww, _, rw = HL.run_script(wide + [("copy", 0)])
    if rw is not None:
        ctx.fail("C12:raises", f"copying a node with 300 children raised {rw[1]}", {"kind": "impl-vs-statement", "script": "300 children", "raised": rw})
    else:
        check_copy_statement(ctx, ww, 0, 301, ids0, [["root with 300 children"], ["copy", 0]])
        ctx.case(("copy", "wide-300"), True)
    # ---- (B) model vs implementation
    bad, errors = HL.coq_failing(common, "C12", "corr", terms, shard=40)
    ctx.extra["traces_validated_against_impl"] = len(terms) - len(bad)
    ctx.extra["model_cases"] = len(terms)
    for name, out in errors:
        ctx.fail("corr:coq-error", f"case file {name} did not evaluate",
                 {"kind": "broken-correspondence", "file": name, "output": out}, concrete=False)
    for i in bad[:3]:
        w, cmds, raised = HL.run_script(metas[i])
        ctx.fail("corr:copy", "model and implementation disagree on a copy/edit script (fields, links, identity classes or registry)",
                 {"kind": "broken-correspondence", "theorem": "C12 (model/implementation correspondence)",
                  "script": [list(x) for x in metas[i]], "implementation": [w.observe()[0], w.observe()[1]] if raised is None else raised,
                  "model": HL.coq_show(common, "C12", cmds)}, concrete=False)
    if not built:
        ctx.obligations_failed("%d random trees, every single edit on every node of copy and original" % ntrees)


def replay(ctx, data):
    r = data.get("replay", {})
    script = [tuple(x) for x in r.get("script", [])]
    if not script:
        print("no script in the replay file: running the full check")
        return run(ctx)
    w, _, raised = HL.run_script(script)
    print("script:", script, "raised:", raised)
    ed = [tuple(x) for x in r.get("edit", [])]
    if ed:
        other = None
        print("edit:", ed, "->", apply_edit(w, ed))
    for i, o in enumerate(w.observe()[0]):
        print(i, o)

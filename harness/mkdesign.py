#!/usr/bin/env python3
"""Assemble DESIGN.md from docs/design_head.md, notes/Cxx.md, docs/design_tail.md,
known_findings.json, seeded/*/ and evidence/*.json."""
import glob
import json
import os
import re
import subprocess

V = os.path.dirname(os.path.dirname(os.path.abspath(__file__)))


def rd(p):
    with open(os.path.join(V, p), encoding="utf-8") as f:
        return f.read()


props = [json.loads(l) for l in open(os.path.join(V, "properties.jsonl"))]
kf = json.load(open(os.path.join(V, "known_findings.json")))

# ---- section 5: notes, headings demoted by two levels
sec5 = ["## 5. Per property, as built\n",
        "One subsection per property, written by the work package that built it (`notes/Cxx.md`, "
        "included verbatim with headings demoted). `notes/Valid.md`, when present, describes the "
        "composition theorems that link whole-tree validation to the per-node declarative specs.\n"]
for p in props:
    f = os.path.join(V, "notes", p["id"] + ".md")
    if not os.path.exists(f):
        sec5.append(f"### {p['id']} — {p['title']}\n\n(no notes)\n")
        continue
    txt = open(f, encoding="utf-8").read().strip()
    lines = []
    first = True
    for ln in txt.splitlines():
        m = re.match(r"^(#+)\s+(.*)$", ln)
        if m:
            if first:
                lines.append(f"### {m.group(2)}")
                first = False
            else:
                lines.append("#" * min(6, len(m.group(1)) + 2) + " " + m.group(2))
        else:
            lines.append(ln)
    sec5.append("\n".join(lines) + "\n")
vf = os.path.join(V, "notes", "Valid.md")
if os.path.exists(vf):
    txt = open(vf, encoding="utf-8").read().strip()
    txt = re.sub(r"^# ", "### Composition — ", txt, count=1, flags=re.M)
    txt = re.sub(r"^## ", "#### ", txt, flags=re.M)
    sec5.append(txt + "\n")

# ---- section 6: defects
commits = {}
for e in kf.get("fixed", []):
    commits.setdefault(e["commit"], {"props": [], "what": e["what"]})["props"].append(e["property"])
order = subprocess.run(["git", "-C", "/repo", "log", "--format=%h", "--reverse"], capture_output=True, text=True).stdout.split()
rows = []
for h in order:
    if h in commits:
        c = commits[h]
        rows.append(f"| `{h}` | {' '.join(sorted(set(c['props'])))} | {c['what']} |")
sec6 = ["## 6. Defects found in /repo and how each was handled\n",
        "Every entry was reproduced by running `/repo` (never inferred from a model). Policy: a defect whose repair is a patch a "
        "maintainer would accept (corrects the behaviour, does not special-case the input, touches only what the defect requires, "
        "keeps the 60 tests green) got one unguarded `fix:` commit, recorded in `known_findings.json` under `fixed`; its failing "
        "input stays in the generators/corpus as a regression case that must pass (a `fixed` entry suppresses nothing). The models "
        "follow the repaired code. Everything else is a keyed known finding.\n",
        f"### {len(rows)} `fix:` commits (oldest first)\n",
        "| commit | properties | what failed / what the fix does |", "|---|---|---|"] + rows + [""]
sec6 += ["### Known findings (genuine, recorded rather than repaired)\n",
         "| property | key | what fails | why not repaired |", "|---|---|---|---|"]
why = {"C10": "closing the gap needs new rules and element mappings for the missing element (a schema extension, not a small repair)",
       "C08": "lxml does not expose the source prefix of an attribute; any choice among alias prefixes is a policy change, not a small repair"}
for e in kf.get("findings", []):
    sec6.append(f"| {e['property']} | `{e['key']}` | {e['what']} | {why.get(e['property'], '')} |")
sec6.append("")
sec6.append("Outside the claims (recorded in the notes, not findings): re-using a node that `replace_child(delete_old=True)` "
            "discarded from the registry (C09/C14 proviso); a `references` node placed inside the element it refers to "
            "(`expand` does not terminate; excluded by C16's precondition).\n")

# ---- section 8: seeds
sec8 = ["## 8. Seeded changes: which check catches which change\n",
        "Each change was written by a fresh sub-agent that saw only the property text and a scratch worktree (nothing from /verif), "
        "breaks that property while all 60 tests pass, and was confirmed by the coordinator in another scratch worktree "
        "(`harness/seedtool.py verify`: demo passes without, tests pass with, demo fails with). Five rounds of 40 (two per property) and a sixth of 20: "
        "round 1 (ids `Cxx`, `Cxxb`) was available to the builders while they tuned their checks; rounds 2-5 (`c/d`, `e/f`, `g/h`, `i/j`) were "
        "each first run BLIND against the checks as they stood, then used to strengthen the generators *generically* (never by "
        "special-casing a patch): blind detection 31/40, 26/40, 32/40 (29 with a concrete replay), 31/40 (30 concrete; two seeded "
        "changes made the implementation loop forever and hung the check, which led to the watchdog of section 4); a sixth blind round (`k`: one change for each of the 20 properties, written after all strengthening by agents that saw only the property text) was caught 20/20 at quick tier, each with a concrete replay. The classes of "
        "input each blind round showed to be missing are the lessons (a)-(s) of `AGENT_BRIEF.md`: history sensitivity / state leaking "
        "between calls, optional parameters, fresh string objects, sizes past 256, falsy-but-legal values, related arguments, dropped "
        "references, mutable return values, document-first generation, element-name-keyed code paths, deep positions, parser "
        "tolerances, non-termination, type-confusable values, side effects of refused operations, producers mutating their argument. "
        "One seed (C03h) edits the rule table itself and is not a violation of C03 as stated. `result_*.json` beside each patch is "
        "the latest run (`seedtool.py run <id>`: patch applied in a scratch worktree, `./check` pointed at it through `VERIF_REPO`).\n",
        "| seed | property | change (what it needs to manifest) | first (blind) run | latest quick run | latest thorough run |", "|---|---|---|---|---|---|"]
nseeds = 0
for d in sorted(glob.glob(os.path.join(V, "seeded", "*"))):
    mf = os.path.join(d, "meta.json")
    if not os.path.exists(mf):
        continue
    nseeds += 1
    m = json.load(open(mf))

    def res(t):
        rf = os.path.join(d, f"result_{t}.json")
        if not os.path.exists(rf):
            return "not run"
        r = json.load(open(rf))
        if r.get("caught"):
            return "caught, concrete replay" if r.get("concrete_replay") else "caught (no-failing-input-found)"
        return "MISSED"
    summ = " ".join(str(m.get("summary", "")).split())
    needs = " ".join(str(m.get("needs", "")).split())
    summ = summ.replace("|", "¦")
    needs = needs.replace("|", "¦")
    if len(summ) > 260:
        summ = summ[:257] + "…"
    if len(needs) > 200:
        needs = needs[:197] + "…"
    blind = "tuned (round 1)"
    for rf in sorted(glob.glob(os.path.join(d, "result_blind_round*.json"))):
        r = json.load(open(rf))
        if r.get("caught"):
            blind = "caught, concrete" if r.get("concrete_replay") else "caught (no-failing-input-found)"
        else:
            blind = "MISSED" + (" (check hung)" if "did not terminate" in str(r.get("note", "")) else "")
    note = m.get("coordinator_note")
    if note:
        blind += " — not a violation of the property as stated (see meta.json)"
    sec8.append(f"| {os.path.basename(d)} | {m.get('property')} | {summ} — *needs:* {needs} | {blind} | {res('quick')} | {res('thorough')} |".replace("\n", " "))
sec8.append("")

# ---- section 9: sizes
sec9 = ["## 9. How to run; sizes and timings\n",
        "`./setup.sh` (full build from clean, ≈ 1 min on 16 cores) · `./check Cxx --tier quick|thorough` · "
        "`harness/runall.sh [quick|thorough]` · `harness/seedtool.py runall` · `harness/mkmanifest.py` · `harness/mkdesign.py`.\n",
        "Latest evidence files (numbers measured by the runs that wrote them):\n",
        "| property | tier | obligations | discharged | evaluations | distinct non-trivial | wall s |", "|---|---|---|---|---|---|---|"]
for p in props:
    ef = os.path.join(V, "evidence", p["id"] + ".json")
    if os.path.exists(ef):
        e = json.load(open(ef))
        c = e["coverage"]
        sec9.append(f"| {p['id']} | {e['tier']} | {c.get('obligations')} | {c.get('discharged')} | {c.get('evaluations')} | {c.get('distinct_nontrivial')} | {e.get('wall_s')} |")
nv = sum(1 for _ in glob.glob(os.path.join(V, "coq", "theories", "*", "*.v")))
loc = 0
for f in glob.glob(os.path.join(V, "coq", "theories", "*", "*.v")):
    if "/Gen/" in f:
        continue
    loc += sum(1 for _ in open(f, encoding="utf-8"))
pyloc = sum(sum(1 for _ in open(f, encoding="utf-8")) for f in glob.glob(os.path.join(V, "harness", "*.py")))
sec9.append("")
sec9.append(f"Development size: {nv} Coq files, {loc} lines of Gallina/proof (excluding the generated tables), {pyloc} lines of Python harness.\n")

head = rd("docs/design_head.md").replace("{N_DEFECTS}", str(len(rows) + len(kf.get("findings", [])))).replace("{N_SEEDS}", str(nseeds))
out = head + "\n".join(sec5) + "\n" + "\n".join(sec6) + "\n" + rd("docs/design_tail.md") + "\n" + "\n".join(sec8) + "\n" + "\n".join(sec9)
with open(os.path.join(V, "DESIGN.md"), "w", encoding="utf-8") as f:
    f.write(out)
print(f"DESIGN.md: {len(out.splitlines())} lines, {len(rows)} fix commits, {nseeds} seeds")

"""C20 — whitespace normalisation is idempotent and structure-preserving.

Text branch: proved for all strings about Model/Normalize.v:norm; tied to normalize() by
  (B) is_py_space vs str.isspace on EVERY code point (one Coq evaluation of the sweep),
      py_strip/lstrip/rstrip/split/join/replace/norm vs the real str methods / normalize()
      on a dense whitespace-heavy pool (all strings of length <= 4 over 9 characters) and
      random longer strings;
  (S) the property statement executed on normalize() with plain-Python oracles.
XML branch: see run_xml()."""
import itertools

from harness import common
from harness.common import cstr, clist

NBSP = "\xa0"
ALPHABET = [" ", "\t", "\n", NBSP, "a", "b", "\u2003", "\x85", "\x1f"]
EXTRA = ["\r", "\x0b", "\x0c", "\x1c", "\u1680", "\u2028", "\u202f", "\u3000", "\u200b", "\ufeff", "c", "\xe9",
         "\U0001F600", "\ud800", "<", "&"]
HEADER = "From MP Require Import Common.Base Model.PyString Model.Normalize Model.NormalizeRun.\n"


# ---------------------------------------------------------------- plain-Python oracles (S)
def ws_words(x):
    """maximal runs of non-whitespace characters (written out; not str.split)"""
    out, cur = [], ""
    for ch in x:
        if ch.isspace():
            if cur:
                out.append(cur)
            cur = ""
        else:
            cur += ch
    if cur:
        out.append(cur)
    return out


def text_statement_violations(x, normalize):
    """The property statement for the text branch, on the implementation. Returns list of (key, what, observed)."""
    bad = []
    try:
        y = normalize(x)
    except Exception as e:  # the statement promises a result for every string
        return [("C20:text:raises", f"normalize raised {type(e).__name__}", repr(e))]
    if not isinstance(y, str):
        return [("C20:text:type", "normalize did not return a str", repr(y))]
    try:
        yy = normalize(y)
    except Exception as e:
        return [("C20:text:raises", f"normalize raised {type(e).__name__} on its own output", repr(e))]
    if yy != y:
        bad.append(("C20:text:idempotent", "normalize(normalize(s)) != normalize(s)", [y, yy]))
    if NBSP in y:
        bad.append(("C20:text:nbsp", "result contains a non-breaking space", y))
    if y[:1].isspace() or y[-1:].isspace():
        bad.append(("C20:text:edge-space", "result starts or ends with whitespace", y))
    if "  " in y:
        bad.append(("C20:text:run-of-spaces", "result contains two adjacent spaces", y))
    if ws_words(y) != ws_words(x.replace(NBSP, " ")):
        bad.append(("C20:text:words", "the words or their order changed", [ws_words(x.replace(NBSP, " ")), ws_words(y)]))
    if [c for c in y if not c.isspace()] != [c for c in x if not c.isspace()]:
        bad.append(("C20:text:characters", "non-whitespace characters changed", y))
    return bad


def fresh(x):
    """a NEW str object with the same characters"""
    return "".join(list(x))


def ref_norm(x):
    """normalize(x) for plain text, written out with loops (no str.split / str.strip)"""
    pieces, cur = [], ""
    for ch in x:
        ch = " " if ch == NBSP else ch
        if ch == " ":
            pieces.append(cur)
            cur = ""
        else:
            cur += ch
    pieces.append(cur)
    out = []
    for w in pieces:
        i, j = 0, len(w)
        while i < j and w[i].isspace():
            i += 1
        while j > i and w[j - 1].isspace():
            j -= 1
        if j > i:
            out.append(w[i:j])
    return " ".join(out)


def text_result_violations(x, y):
    """the text clauses of the property on a GIVEN result y for input x (no further call of normalize)"""
    bad = []
    if not isinstance(y, str):
        return [("C20:text:type", "normalize did not return a str")]
    if NBSP in y:
        bad.append(("C20:text:nbsp", "result contains a non-breaking space"))
    if y[:1].isspace() or y[-1:].isspace():
        bad.append(("C20:text:edge-space", "result starts or ends with whitespace"))
    if "  " in y:
        bad.append(("C20:text:run-of-spaces", "result contains two adjacent spaces"))
    if ws_words(y) != ws_words(x.replace(NBSP, " ")):
        bad.append(("C20:text:words", "the words or their order changed"))
    if y != ref_norm(x):
        bad.append(("C20:text:reference", f"result differs from the written-out normaliser: {ref_norm(x)!r}"))
    return bad


# ---------------------------------------------------------------- text pool
def text_pool(ctx):
    pool = []
    for n in range(0, 5):
        for t in itertools.product(ALPHABET, repeat=n):
            pool.append("".join(t))
    n_short = len(pool)
    n_rand = 3000 if ctx.tier == "thorough" else 400
    full = ALPHABET + EXTRA
    rng = ctx.rng
    for _ in range(n_rand):
        k = rng.choice([5, 6, 8, 12, 20, 40])
        heavy = rng.random() < 0.7
        alpha = ALPHABET if heavy else full
        x = "".join(rng.choice(alpha) if rng.random() < 0.85 else rng.choice(full) for _ in range(k))
        pool.append(x)
    return pool, n_short


def coq_strs(l):
    return clist(cstr(x) for x in l)


def impl_text_obs(x, normalize):
    return [[normalize(x), x.strip(), x.lstrip(), x.rstrip(), x.replace(NBSP, " "),
             " ".join(x.split(" ")), "-+".join(x.split())],
            x.split(" "), x.split()]


def coq_obs(o):
    return clist(coq_strs(l) for l in o)


def parse_N_list(v):
    v = v.strip()
    if v in ("[]", "nil"):
        return []
    assert v.startswith("[") and v.endswith("]"), v[:200]
    return [int(t.strip().replace("%N", "")) for t in v[1:-1].split(";") if t.strip()]


def run_text(ctx):
    from metapype.model.normalize import normalize
    pool, n_short = text_pool(ctx)
    ctx.count("text:exhaustive_len<=4_over_9_chars", n_short)
    ctx.count("text:random_longer", len(pool) - n_short)
    cases, wants = [], []
    crashed = False
    for x in pool:
        viol = text_statement_violations(x, normalize)
        for key, what, obs in viol:
            ctx.fail(key, what, {"kind": "impl-vs-statement", "branch": "text", "input": x,
                                 "input_codepoints": [ord(c) for c in x], "observed": obs})
        has_ws = any(c.isspace() for c in x)
        ctx.case(("t", x), has_ws)
        if any(k in ("C20:text:raises", "C20:text:type") for k, _, _ in viol):
            crashed = True
            continue
        cases.append(cstr(x))
        wants.append(coq_obs(impl_text_obs(x, normalize)))
        if len(x) > 6:
            ctx.sample({"branch": "text", "input": x, "normalize": normalize(x)}, limit=3)
    # statelessness: the same inputs again, in another order, interleaved, through every way of passing is_xml
    first = {}
    for x in pool:
        try:
            first[x] = normalize(x)
        except Exception:
            pass
    again = list(first)
    ctx.rng.shuffle(again)
    for k, x in enumerate(again[:3000]):
        ctx.count("text:second_pass")
        for how, f in (("normalize(x)", lambda: normalize(fresh(x))), ("normalize(x, False)", lambda: normalize(fresh(x), False)),
                       ("normalize(x, is_xml=False)", lambda: normalize(fresh(x), is_xml=False)),
                       ("normalize(content=x)", lambda: normalize(content=fresh(x)))):
            try:
                y = f()
            except Exception as e:
                y = "RAISED " + type(e).__name__
            if y != first[x]:
                ctx.fail("C20:text:stateful", f"{how} returned a different result when called again later in the same process",
                         {"kind": "impl-vs-statement", "branch": "text", "input": x, "input_codepoints": [ord(c) for c in x],
                          "first": first[x], "later": y, "call": how, "preceded_by": again[max(0, k - 3):k]})
                break
    # (B) model vs implementation, evaluated in Coq; plus the code-point sweep
    shard = 800
    jobs = [("C20_sweep", HEADER + "Eval vm_compute in sweep is_py_space 1114112.\n")]
    for i in range(0, len(cases), shard):
        text = (HEADER + "Definition cases := " + clist(cases[i:i + shard]) + ".\n" +
                "Definition want := " + clist(wants[i:i + shard]) + ".\n" +
                "Eval vm_compute in mismatches obs_eqb (map text_obs cases) want.\n")
        jobs.append((f"C20_text_{i // shard}", text))
    res = common.coq_eval_many(jobs)
    # sweep
    rc, out = res[0]
    py_spaces = [c for c in range(0x110000) if chr(c).isspace()]
    ctx.count("isspace:code_points_swept", 0x110000)
    if rc != 0:
        ctx.fail("corr:coq-error", "the is_py_space sweep did not evaluate", {"kind": "broken-correspondence", "output": out[-1500:]}, concrete=False)
    else:
        vals = common.parse_eval_values(out)
        got = parse_N_list(vals[0]) if len(vals) == 1 else None
        ctx.evaluations += 0x110000
        if got != py_spaces:
            diff = sorted(set(got or []) ^ set(py_spaces))
            ctx.fail("corr:isspace", f"is_py_space differs from str.isspace on code points {diff[:10]}",
                     {"kind": "broken-correspondence", "theorem": "C20_space_set (model of str.isspace)",
                      "code_points": diff[:50]}, concrete=False)
    ok = 0
    for k, (rc, out) in enumerate(res[1:]):
        name = jobs[k + 1][0]
        if rc != 0:
            ctx.fail("corr:coq-error", f"case file {name} did not evaluate", {"kind": "broken-correspondence", "file": name, "output": out[-1500:]}, concrete=False)
            continue
        vals = common.parse_eval_values(out)
        if len(vals) != 1:
            ctx.fail("corr:coq-error", f"unparsable output of {name}", {"kind": "broken-correspondence", "file": name, "output": out[-500:]}, concrete=False)
            continue
        bad = common.parse_nat_list(vals[0])
        n_here = min(shard, len(cases) - k * shard)
        ok += n_here - len(bad)
        for j in bad[:3]:
            x = pool_input(cases, k * shard + j, pool)
            rc2, out2 = common.coq_eval("C20_text_show", HEADER + f"Eval vm_compute in text_obs {cstr(x)}.\n")
            ctx.fail("corr:text", "model and implementation disagree on a string primitive / normalize()",
                     {"kind": "broken-correspondence", "theorem": "C20 text branch (model/implementation correspondence)",
                      "input": x, "input_codepoints": [ord(c) for c in x],
                      "implementation": impl_text_obs(x, normalize), "model": " ".join(out2.split())[:1500]}, concrete=False)
    return ok, crashed


def pool_input(cases, idx, pool):
    # cases were appended in pool order, skipping crashed inputs; recover by literal
    lit = cases[idx]
    for x in pool:
        if cstr(x) == lit:
            return x
    return lit


# ================================================================== XML branch
EXPECTED_PROTECTED = ["markup", "literalLayout", "objectName", "attributeName", "para"]
XSL = "{http://www.w3.org/1999/XSL/Transform}"
XSI = "http://www.w3.org/2001/XMLSchema-instance"
XWS = " \t\r\n"


def read_stylesheet():
    """Parse the stylesheet string of normalize.py and check it has the shape norm_xml models.
    Returns (protected list, None) or (None, reason)."""
    import re
    from lxml import etree
    from metapype.model import normalize as NZ
    src = getattr(NZ, "normalize_whitespace", None)
    if not isinstance(src, str):
        return None, "normalize.normalize_whitespace is not a string"
    try:
        root = etree.XML(src)
    except Exception as e:
        return None, f"stylesheet is not well-formed: {e}"

    def sig(e):
        """(local tag, sorted attributes, children signatures), comments and blank text ignored"""
        if not isinstance(e.tag, str):
            return None
        if (e.text or "").strip() or any((c.tail or "").strip() for c in e):
            return ("TEXT",)
        return (e.tag.replace(XSL, "xsl:"), tuple(sorted(e.attrib.items())), tuple(s for s in (sig(c) for c in e) if s is not None))
    if root.tag != XSL + "stylesheet" or root.get("version") != "1.0":
        return None, "root is not xsl:stylesheet version 1.0"
    kids = [sig(c) for c in root if isinstance(c.tag, str)]
    if len(kids) != 5:
        return None, f"expected xsl:output + four templates, found {len(kids)} top-level elements"
    out, t_id, t_text, t_prot, t_attr = kids      # the ORDER matters: the later @* template must win over @*|node()
    if out != ("xsl:output", (("indent", "yes"), ("omit-xml-declaration", "no")), ()):
        return None, f"unexpected xsl:output {out}"
    want_id = ("xsl:template", (("match", "@*|node()"),),
               (("xsl:copy", (), (("xsl:apply-templates", (("select", "@*"),), ()), ("xsl:apply-templates", (("select", "node()"),), ()))),))
    if t_id != want_id:
        return None, f"identity template has an unexpected shape: {t_id}"
    NORM = "normalize-space(translate(., '\xa0', ' '))"
    TRANS = "translate(., '\xa0', ' ')"
    want_attr = ("xsl:template", (("match", "@*"),),
                 (("xsl:attribute", (("name", "{name()}"),), (("xsl:value-of", (("select", NORM),), ()),)),))
    if t_attr != want_attr:
        return None, f"attribute template has an unexpected shape: {t_attr}"
    want_prot = ("xsl:template", (("match", "text()"), ("priority", "0")), (("xsl:value-of", (("select", TRANS),), ()),))
    if t_prot != want_prot:
        return None, f"protected-text template has an unexpected shape: {t_prot}"
    if t_text[0] != "xsl:template" or len(t_text[1]) != 1 or t_text[1][0][0] != "match" or \
            t_text[2] != (("xsl:value-of", (("select", NORM),), ()),):
        return None, f"text template has an unexpected shape: {t_text}"
    m = re.fullmatch(r"text\(\)\[not\(\s*(ancestor::[A-Za-z_][\w.-]*(?:\s+or\s+ancestor::[A-Za-z_][\w.-]*)*)\s*\)\]", t_text[1][0][1])
    if not m:
        return None, f"text template match pattern not recognised: {t_text[1][0][1]}"
    names = re.findall(r"ancestor::([A-Za-z_][\w.-]*)", m.group(1))
    # the function body must still be: replace on the string, parse, transform with THIS stylesheet
    import ast
    import inspect
    fn = ast.parse(inspect.getsource(NZ.normalize)).body[0]
    body = ast.dump(fn)
    for needle in ("normalize_whitespace", "XSLT", "replace"):
        if needle not in body:
            return None, f"normalize() no longer mentions {needle}"
    return names, None


# ---------------------------------------------------------------- infosets as plain data: ("E", name, [[k, v]...], [kids]) | ("T", text)
def x_of_lxml(e):
    kids = []
    if e.text:
        kids.append(("T", e.text))
    for c in e:
        if isinstance(c.tag, str):
            kids.append(x_of_lxml(c))
        if c.tail:
            if kids and kids[-1][0] == "T":
                kids[-1] = ("T", kids[-1][1] + c.tail)     # text split by a comment / PI
            else:
                kids.append(("T", c.tail))
    return ("E", e.tag, [[k, v] for k, v in e.attrib.items()], kids)


def x_of_et(e):
    kids = []
    if e.text:
        kids.append(("T", e.text))
    for c in e:
        kids.append(x_of_et(c))
        if c.tail:
            kids.append(("T", c.tail))
    return ("E", e.tag, [[k, v] for k, v in e.attrib.items()], kids)


def coq_x(n):
    if n[0] == "T":
        return f"(XT {cstr(n[1])})"
    return f"(XE {cstr(n[1])} {clist('(' + cstr(k) + ', ' + cstr(v) + ')' for k, v in n[2])} {clist(coq_x(k) for k in n[3])})"


def x_skeleton(n):
    return (n[1], [k for k, _ in n[2]], [x_skeleton(k) for k in n[3] if k[0] == "E"])


def xnorm_py(v):
    """XPath normalize-space, written out"""
    out, cur = [], ""
    for ch in v:
        if ch in XWS:
            if cur:
                out.append(cur)
            cur = ""
        else:
            cur += ch
    if cur:
        out.append(cur)
    return " ".join(out)


def slots(n):
    """content of an element as text slots around its child elements: ([t0, t1, .., tn], [e1..en])"""
    texts, elems = [None], []
    for k in n[3]:
        if k[0] == "T":
            texts[-1] = (texts[-1] or "") + k[1]
        else:
            elems.append(k)
            texts.append(None)
    return texts, elems


def xml_statement(inp, out, protected, anc=False, path="/"):
    """The XML part of the property, element by element (same skeleton assumed). Returns list of (key, what)."""
    bad = []
    if inp[1] != out[1] or [k for k, _ in inp[2]] != [k for k, _ in out[2]]:
        return [("C20:xml:structure", f"element or attribute names differ at {path}: {inp[1]} {[k for k, _ in inp[2]]} vs {out[1]} {[k for k, _ in out[2]]}")]
    for (k, v), (_, w) in zip(inp[2], out[2]):
        if w != xnorm_py(v.replace(NBSP, " ")):
            bad.append(("C20:xml:attribute", f"attribute {k} of {path}{inp[1]}: {v!r} became {w!r}, space-normalised value is {xnorm_py(v.replace(NBSP, ' '))!r}"))
    here = anc or inp[1] in protected
    ti, ei = slots(inp)
    to, eo = slots(out)
    if len(ei) != len(eo):
        return bad + [("C20:xml:structure", f"number of child elements differs in {path}{inp[1]}")]
    if here:
        want = [None if t is None else t.replace(NBSP, " ") for t in ti]
        if all(t is None for t in ti):
            if any(t is not None and t.strip(XWS) for t in to):
                bad.append(("C20:xml:protected", f"text appeared inside protected {path}{inp[1]}: {to!r}"))
        elif to != want:
            bad.append(("C20:xml:protected", f"text inside protected {path}{inp[1]} changed: {ti!r} -> {to!r}"))
    else:
        want = [None if t is None else (xnorm_py(t.replace(NBSP, " ")) or None) for t in ti]
        if all(t is None for t in want):
            if any(t is not None and t.strip(XWS) for t in to):
                bad.append(("C20:xml:text", f"text appeared in {path}{inp[1]}: {to!r}"))
        elif to != want:
            bad.append(("C20:xml:text", f"text of {path}{inp[1]} is not the space-normalised input: {ti!r} -> {to!r}, expected {want!r}"))
    for a, b in zip(ei, eo):
        bad += xml_statement(a, b, protected, here, path + inp[1] + "/")
    return bad


# ---------------------------------------------------------------- document generator
ELEMS = ["a", "b", "title", "section", "para", "literalLayout", "markup", "objectName", "attributeName", "emphasis", "value", "keyword"]
ATTRS = ["id", "x", "scope", "system", "xsi:type", "xsi:schemaLocation", "xsi:nil"]
TEXT_TOKENS = ["alpha", "b", "c1", " ", " ", "  ", "\t", "\n", "\n   ", NBSP, NBSP + " ", "&amp;", "&lt;", "&#9;", "&#10;", "&#13;", "é"]
ATTR_TOKENS = ["v", "w1", " ", "  ", "\t", "\n", NBSP, "&#9;", "&#10;", "&#13;", "&quot;", "&amp;", "&lt;", "é"]


CDATA_TOKENS = ["<![CDATA[C & N]]>", "<![CDATA[ <x> ]]>", "<![CDATA[a]]><![CDATA[b]]>", "<![CDATA[  ]]>", "<![CDATA[w]]>",
                "<![CDATA[ lead]]>", "<![CDATA[trail ]]>", "<![CDATA[]]>", "<![CDATA[x\n y]]> <![CDATA[z]]>"]


def gen_text(rng, charref_nbsp):
    toks = TEXT_TOKENS + (["&#160;", "&#xA0;"] if charref_nbsp else [])
    if rng.random() < 0.25:          # CDATA sections next to ordinary text: before / after / between, whitespace outside the boundary
        toks = toks + CDATA_TOKENS * 2
    n = rng.choice([0, 1, 1, 2, 3, 5, 8])
    s_ = "".join(rng.choice(toks) for _ in range(n))
    if s_ and rng.random() < 0.08 and "]]>" not in s_ and "&" not in s_:
        s_ = "<![CDATA[" + s_ + " <x> ]]>"
    return s_


def gen_elem(rng, depth, charref_nbsp, root=False):
    name = "eml:eml" if root and rng.random() < 0.3 else rng.choice(ELEMS)
    attrs = []
    for a in rng.sample(ATTRS, rng.choice([0, 0, 1, 2, 3])):
        toks = ATTR_TOKENS + (["&#160;"] if charref_nbsp else [])
        attrs.append((a, "".join(rng.choice(toks) for _ in range(rng.choice([0, 1, 2, 4])))))
    decl = ""
    if root:
        decl = f' xmlns:xsi="{XSI}"' + (' xmlns:eml="https://eml.ecoinformatics.org/eml-2.2.0"' if name.startswith("eml:") else "")
    s_ = "<" + name + decl + "".join(f' {k}="{v}"' for k, v in attrs)
    n_kids = 0 if depth <= 0 else rng.choice([0, 0, 1, 2, 3])
    inner = gen_text(rng, charref_nbsp)
    for _ in range(n_kids):
        inner += gen_elem(rng, depth - 1, charref_nbsp) + gen_text(rng, charref_nbsp)
    if not inner and rng.random() < 0.5:
        return s_ + "/>"
    return s_ + ">" + inner + "</" + name + ">"


FIXED_DOCS = [
    '<?xml version="1.0"?><test a=" test  me "><child>   This is a   test   </child></test>',
    '<a x=" 1  2 " xmlns:xsi="' + XSI + '" xsi:y="p\tq"><b>  hello   world </b><para>  keep   this <i> and  this</i> tail  </para> t1 <c/> t2 </a>',
    '<a><para><i>x</i></para><q><r>  </r></q></a>',
    '<a>' + NBSP + 'x' + NBSP + '<para>' + NBSP + 'y' + NBSP + '</para><literalLayout> l1\n  l2\t</literalLayout></a>',
    '<a><objectName> my  file.csv </objectName><attributeName>\tcol  1 </attributeName><markup> **b** </markup></a>',
    '<a><section><para> in  para <emphasis> e  m </emphasis></para> after  para </section></a>',
    '<a v="x&#10;y&#9;z"><![CDATA[  <raw>  ]]></a>',
    '<a>x<b/>  <b/>y</a>',
    '<a><para/><para>   </para><b>   </b></a>',
    '<title>Soil <![CDATA[C & N]]> stocks</title>',
    '<a><b><![CDATA[x]]> y</b><b>x <![CDATA[y]]></b><b>x<![CDATA[ ]]>y</b><b><![CDATA[p]]><![CDATA[q]]> r <![CDATA[<s>]]></b></a>',
    '<a><para>keep <![CDATA[ <raw>  & ]]> this </para><literalLayout><![CDATA[ l1 ]]>\n<![CDATA[ l2 ]]></literalLayout><objectName> f<![CDATA[ 1 ]]>.csv</objectName></a>',
    '<a> <![CDATA[  ]]> <b> <![CDATA[only]]> </b></a>',
    '<a/>', '<a></a>', '<a> </a>', '<a x=""/>', '<a x=" "> \n </a>', '<para/>', '<para> </para>', '<a x="" xmlns:xsi="' + XSI + '" xsi:nil=""><b/></a>',
    '<a>&#160;z&#160;</a>',                                   # regression: NBSP as character reference (fixed in 595f276)
    '<a x="&#160;p&#xA0;&#160;q "><para>&#160;y&#xA0;</para> t&#160; </a>',
]


def run_xml(ctx):
    from lxml import etree
    import xml.etree.ElementTree as ET
    from metapype.model.normalize import normalize
    protected, why = read_stylesheet()
    if protected is None:
        ctx.fail("tie:xslt", f"the stylesheet in normalize.py no longer has the shape the model describes: {why}",
                 {"kind": "broken-tie", "reason": why}, concrete=False)
        protected_model = EXPECTED_PROTECTED
    else:
        protected_model = protected
        ctx.extra["xslt_protected"] = protected
        if sorted(protected) != sorted(EXPECTED_PROTECTED):
            ctx.fail("tie:xslt:protected-list", f"the stylesheet protects {protected}, the property names {EXPECTED_PROTECTED}",
                     {"kind": "broken-tie", "stylesheet": protected, "property": EXPECTED_PROTECTED}, concrete=False)
    rng = ctx.rng
    n_docs = 2500 if ctx.tier == "thorough" else 350
    docs = [(d, False) for d in FIXED_DOCS]
    for i in range(n_docs):
        charref = rng.random() < 0.2
        d = gen_elem(rng, rng.choice([1, 2, 3, 4]), charref, root=True)
        if rng.random() < 0.3:
            d = '<?xml version="1.0" encoding="UTF-8"?>\n' + d + "\n"
        docs.append((d, charref))
    cases, metas = [], []
    for d, charref in docs:
        has_ref = "&#160;" in d or "&#xA0;" in d
        replay = {"kind": "impl-vs-statement", "branch": "xml", "document": d}
        try:
            inp = x_of_lxml(etree.XML(d.encode("utf-8")))
        except Exception as e:       # generator bug, not a property failure
            ctx.note(f"generated document rejected by the parser: {e}")
            continue
        n_prot = d.count("<para") + d.count("<literalLayout") + d.count("<markup") + d.count("<objectName") + d.count("<attributeName")
        ctx.case(("x", d), True)
        ctx.count("xml:documents")
        ctx.count("xml:with_protected_element", 1 if n_prot else 0)
        ctx.count("xml:with_nbsp", 1 if NBSP in d else 0)
        ctx.count("xml:with_nbsp_charref", 1 if has_ref else 0)
        ctx.count("xml:with_cdata", 1 if "<![CDATA[" in d else 0)

        def fail(key, what, extra=None):
            ctx.fail(key, what, dict(replay, **(extra or {})))
        try:
            out = normalize(d, is_xml=True)
        except Exception as e:
            fail("C20:xml:raises", f"normalize(doc, is_xml=True) raised {type(e).__name__}: {e}")
            continue
        replay["observed"] = out
        try:
            o1 = x_of_lxml(etree.XML(out.encode("utf-8")))
            o2 = x_of_et(ET.fromstring(out))
        except Exception as e:
            fail("C20:xml:well-formed", f"the result is not well-formed: {type(e).__name__}: {e}")
            continue
        if o1 != o2:
            fail("C20:xml:well-formed", "lxml and xml.etree read the result differently")
            continue
        if x_skeleton(o1) != x_skeleton(inp):
            fail("C20:xml:structure", "elements / attribute names / order changed")
            continue
        stmt = xml_statement(inp, o1, EXPECTED_PROTECTED)      # the list of the PROPERTY TEXT, not the stylesheet's
        for key, what in stmt[:2]:
            fail(key, what)
        try:
            again = normalize(out, is_xml=True)
            if again != out:
                fail("C20:xml:idempotent", "normalize(normalize(doc)) != normalize(doc)", {"second": again})
        except Exception as e:
            fail("C20:xml:raises", f"normalizing the result raised {type(e).__name__}: {e}")
        ctx.sample({"branch": "xml", "document": d[:300], "normalize": out[:300]}, limit=5)
        cases.append("{| xc_protected := " + clist(cstr(p) for p in protected_model) + "; xc_input := " + coq_x(inp) +
                     "; xc_output := " + coq_x(o1) + " |}")
        metas.append((d, out))
    # statelessness: every document again in another order, alternating with text-branch calls, positional and keyword is_xml
    order = list(range(len(metas)))
    rng.shuffle(order)
    for k in order:
        d, out = metas[k]
        ctx.count("xml:second_pass")
        normalize(" interleaved \t text " + str(k))
        for how, f in (("normalize(d, is_xml=True)", lambda: normalize(fresh(d), is_xml=True)), ("normalize(d, True)", lambda: normalize(fresh(d), True))):
            try:
                y = f()
            except Exception as e:
                y = "RAISED " + type(e).__name__
            if y != out:
                ctx.fail("C20:xml:stateful", f"{how} returned a different result when called again later in the same process",
                         {"kind": "impl-vs-statement", "branch": "xml", "document": d, "first": out, "later": y, "call": how})
                break
    # the SAME string in BOTH modes in one process, in both orders, always as fresh str objects:
    #  (i) documents already normalised as XML above are now normalised as plain text;
    #  (ii) new documents are normalised as plain text FIRST and as XML afterwards;
    #  (iii) then each once more in the first mode. Every result must satisfy the clauses of ITS mode.
    def xml_problems(d, out):
        try:
            inp_ = x_of_lxml(etree.XML(d.encode("utf-8")))
            o_ = x_of_lxml(etree.XML(out.encode("utf-8")))
        except Exception as e:
            return [("C20:xml:well-formed", f"the result is not well-formed: {type(e).__name__}: {e}")]
        if x_skeleton(o_) != x_skeleton(inp_):
            return [("C20:xml:structure", "elements / attribute names / order changed")]
        return xml_statement(inp_, o_, EXPECTED_PROTECTED)

    def call(fn):
        try:
            return fn()
        except Exception as e:
            return None if False else ("RAISED " + type(e).__name__ + ": " + str(e)[:80])
    new_docs = [gen_elem(rng, rng.choice([1, 2, 3]), rng.random() < 0.2, root=True) for _ in range(150 if ctx.tier != "thorough" else 800)]
    new_docs += ['<a/>', '<a> </a>', '<t>  two  words </t>', '<para>  p </para>', '<a x=" 1 "/>']
    cross = [(d, "xml-then-text", out) for d, out in metas] + [(d, "text-then-xml", None) for d in new_docs]
    rng.shuffle(cross)
    for d, order, xml_first in cross:
        ctx.count("cross-mode:" + order)
        ctx.case(("cross", order, d), True)
        rep = {"kind": "impl-vs-statement", "branch": "both", "order": order, "document": d}
        if order == "text-then-xml":
            y_text = call(lambda: normalize(fresh(d)))
            y_xml = call(lambda: normalize(fresh(d), is_xml=True))
            y_text2 = call(lambda: normalize(fresh(d), False))
        else:
            y_xml = xml_first
            y_text = call(lambda: normalize(fresh(d)))
            y_xml2 = call(lambda: normalize(fresh(d), True))
            if y_xml2 != xml_first:
                ctx.fail("C20:xml:stateful", "XML normalisation of a document changed after the same string was normalised as plain text",
                         dict(rep, first=xml_first, later=y_xml2))
            y_text2 = y_text
        probs = []
        if isinstance(y_text, str) and y_text.startswith("RAISED "):
            probs.append(("C20:text:raises", y_text))
        else:
            probs += [(k, "as plain text (" + order + "): " + w) for k, w in text_result_violations(d, y_text)]
        if y_text2 != y_text:
            probs.append(("C20:text:stateful", "plain-text normalisation of a string changed after the same string was normalised as XML"))
        if isinstance(y_xml, str) and y_xml.startswith("RAISED "):
            probs.append(("C20:xml:raises", y_xml))
        else:
            probs += [(k, "as XML (" + order + "): " + w) for k, w in xml_problems(d, y_xml)]
        for key, what in probs[:2]:
            ctx.fail(key, what, dict(rep, as_text=y_text, as_xml=y_xml))
    # (B) the model in Coq
    shard = 120
    jobs = []
    for i in range(0, len(cases), shard):
        text = (HEADER + "Definition cases := " + clist(cases[i:i + shard]) + ".\n" +
                "Eval vm_compute in mismatches Bool.eqb (map run_xcase cases) (map (fun _ => true) cases).\n")
        jobs.append((f"C20_xml_{i // shard}", text))
    ok = 0
    for k, (rc, out) in enumerate(common.coq_eval_many(jobs)):
        name = jobs[k][0]
        if rc != 0:
            ctx.fail("corr:coq-error", f"case file {name} did not evaluate", {"kind": "broken-correspondence", "file": name, "output": out[-1500:]}, concrete=False)
            continue
        vals = common.parse_eval_values(out)
        if len(vals) != 1:
            ctx.fail("corr:coq-error", f"unparsable output of {name}", {"kind": "broken-correspondence", "file": name, "output": out[-500:]}, concrete=False)
            continue
        bad = common.parse_nat_list(vals[0])
        ok += min(shard, len(cases) - k * shard) - len(bad)
        for j in bad[:3]:
            d, o = metas[k * shard + j]
            rc2, out2 = common.coq_eval("C20_xml_show", HEADER + f"Eval vm_compute in norm_xml (xc_protected ({cases[k * shard + j]})) (xc_input ({cases[k * shard + j]})).\n")
            ctx.fail("corr:xml", "the infoset model norm_xml and the re-parsed output of normalize(doc, is_xml=True) disagree",
                     {"kind": "broken-correspondence", "theorem": "C20x_* (model/implementation correspondence, XML branch)",
                      "document": d, "implementation": o, "model": " ".join(out2.split())[:3000]}, concrete=False)
    return ok


def run(ctx):
    built = ctx.build(extra_targets=["theories/Model/NormalizeRun.v"])
    ctx.extra["rule"] = ("text: every string of length <= 4 over {space, tab, LF, NBSP, 'a', 'b', U+2003, U+0085, U+001F} plus random "
                         "longer strings (70% over the same alphabet, rest with further Unicode whitespace, astral, surrogate, markup "
                         "characters); non-trivial = distinct inputs containing at least one whitespace character. "
                         "str.isspace: all 1,114,112 code points. xml: fixed + random documents (depth <= 4, 12 element names incl. the 5 "
                         "protected ones nested, unprefixed / xsi-prefixed attributes, text / tails / attribute values mixing spaces, tabs, "
                         "newlines, NBSP, entity and character references, CDATA); every distinct document is non-trivial")
    import time
    t0 = time.time()
    ok_text, _ = run_text(ctx)
    t1 = time.time()
    ok_xml = run_xml(ctx)
    ctx.extra["phase_seconds"] = {"build_incl_lock_wait": round(t0 - ctx.t0, 1), "text": round(t1 - t0, 1), "xml": round(time.time() - t1, 1)}
    ctx.extra["traces_validated_against_impl"] = ok_text + ok_xml
    ctx.extra["traces_text"] = ok_text
    ctx.extra["traces_xml"] = ok_xml
    if not built:
        ctx.obligations_failed("text pool + generated XML documents against the property statement")


def replay(ctx, data):
    from metapype.model.normalize import normalize
    r = data.get("replay", {})
    print(data.get("what"))
    if r.get("branch") == "text" and "input_codepoints" in r:
        x = "".join(chr(c) for c in r["input_codepoints"])
        for key, what, obs in text_statement_violations(x, normalize):
            ctx.fail(key, what, {"kind": "impl-vs-statement", "branch": "text", "input": x,
                                 "input_codepoints": [ord(c) for c in x], "observed": obs})
            print("still fails:", key, what, repr(obs))
    elif r.get("branch") == "both" and "document" in r:
        d = r["document"]
        rep = {"kind": "impl-vs-statement", "branch": "both", "order": r.get("order"), "document": d}
        seq = [False, True, False] if r.get("order") == "text-then-xml" else [True, False, True]
        outs = []
        for mode in seq:
            try:
                outs.append(normalize(fresh(d), mode))
            except Exception as e:
                outs.append("RAISED " + type(e).__name__)
            print(f"normalize(doc, is_xml={mode}):", repr(outs[-1])[:300])
        y_text = outs[seq.index(False)]
        probs = text_result_violations(d, y_text)
        if outs[0] != outs[2]:
            probs.append(("C20:xml:stateful" if seq[0] else "C20:text:stateful", "the same call gives another result after the other mode was used on the same string"))
        for key, what in probs:
            ctx.fail(key, what, dict(rep, results=outs))
            print("still fails:", key, what)
        if not probs:
            print("both modes behave independently on this string now")
    elif r.get("branch") == "xml" and "document" in r:
        from lxml import etree
        d = r["document"]
        rep = {"kind": "impl-vs-statement", "branch": "xml", "document": d}
        try:
            out = normalize(d, is_xml=True)
            print("normalize(doc):", repr(out))
            inp = x_of_lxml(etree.XML(d.encode("utf-8")))
            o1 = x_of_lxml(etree.XML(out.encode("utf-8")))
            again = normalize(out, is_xml=True)
        except Exception as e:
            ctx.fail("C20:xml:raises", f"{type(e).__name__}: {e}", rep)
            print("still fails:", type(e).__name__, e)
            return
        probs = ([("C20:xml:structure", "elements / attribute names / order changed")] if x_skeleton(o1) != x_skeleton(inp)
                 else xml_statement(inp, o1, EXPECTED_PROTECTED))
        if again != out:
            probs.append(("C20:xml:idempotent", "normalize(normalize(doc)) != normalize(doc)"))
        for key, what in probs:
            ctx.fail(key, what, dict(rep, observed=out))
            print("still fails:", key, what)
        if not probs:
            print("the statement holds on this document now")
    else:
        run(ctx)

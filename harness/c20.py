"""C20 — whitespace normalisation is idempotent and structure-preserving.

Text branch: proved for all strings about Model/Normalize.v:norm; tied to normalize() by
  (B) is_py_space vs str.isspace on EVERY code point (one Coq evaluation of the sweep),
      py_strip/lstrip/rstrip/split/join/replace/norm vs the real str methods / normalize()
      on a dense whitespace-heavy pool (all strings of length <= 4 over 9 characters) and
      random longer strings;
  (S) the property statement executed on normalize() with plain-Python oracles.
XML branch: see run_xml()."""
import itertools

from harness import common
from harness.common import cstr, clist

NBSP = "\xa0"
ALPHABET = [" ", "\t", "\n", NBSP, "a", "b", "\u2003", "\x85", "\x1f"]
EXTRA = ["\r", "\x0b", "\x0c", "\x1c", "\u1680", "\u2028", "\u202f", "\u3000", "\u200b", "\ufeff", "c", "\xe9",
         "\U0001F600", "\ud800", "<", "&"]
HEADER = "From MP Require Import Common.Base Model.PyString Model.Normalize Model.NormalizeRun.\n"


# ---------------------------------------------------------------- plain-Python oracles (S)
def ws_words(x):
    """maximal runs of non-whitespace characters (written out; not str.split)"""
    out, cur = [], ""
    for ch in x:
        if ch.isspace():
            if cur:
                out.append(cur)
            cur = ""
        else:
            cur += ch
    if cur:
        out.append(cur)
    return out


def text_statement_violations(x, normalize):
    """The property statement for the text branch, on the implementation. Returns list of (key, what, observed)."""
    bad = []
    try:
        y = normalize(x)
    except Exception as e:  # the statement promises a result for every string
        return [("C20:text:raises", f"normalize raised {type(e).__name__}", repr(e))]
    if not isinstance(y, str):
        return [("C20:text:type", "normalize did not return a str", repr(y))]
    try:
        yy = normalize(y)
    except Exception as e:
        return [("C20:text:raises", f"normalize raised {type(e).__name__} on its own output", repr(e))]
    if yy != y:
        bad.append(("C20:text:idempotent", "normalize(normalize(s)) != normalize(s)", [y, yy]))
    if NBSP in y:
        bad.append(("C20:text:nbsp", "result contains a non-breaking space", y))
    if y[:1].isspace() or y[-1:].isspace():
        bad.append(("C20:text:edge-space", "result starts or ends with whitespace", y))
    if "  " in y:
        bad.append(("C20:text:run-of-spaces", "result contains two adjacent spaces", y))
    if ws_words(y) != ws_words(x.replace(NBSP, " ")):
        bad.append(("C20:text:words", "the words or their order changed", [ws_words(x.replace(NBSP, " ")), ws_words(y)]))
    if [c for c in y if not c.isspace()] != [c for c in x if not c.isspace()]:
        bad.append(("C20:text:characters", "non-whitespace characters changed", y))
    return bad


# ---------------------------------------------------------------- text pool
def text_pool(ctx):
    pool = []
    for n in range(0, 5):
        for t in itertools.product(ALPHABET, repeat=n):
            pool.append("".join(t))
    n_short = len(pool)
    n_rand = 3000 if ctx.tier == "thorough" else 400
    full = ALPHABET + EXTRA
    rng = ctx.rng
    for _ in range(n_rand):
        k = rng.choice([5, 6, 8, 12, 20, 40])
        heavy = rng.random() < 0.7
        alpha = ALPHABET if heavy else full
        x = "".join(rng.choice(alpha) if rng.random() < 0.85 else rng.choice(full) for _ in range(k))
        pool.append(x)
    return pool, n_short


def coq_strs(l):
    return clist(cstr(x) for x in l)


def impl_text_obs(x, normalize):
    return [[normalize(x), x.strip(), x.lstrip(), x.rstrip(), x.replace(NBSP, " "),
             " ".join(x.split(" ")), "-+".join(x.split())],
            x.split(" "), x.split()]


def coq_obs(o):
    return clist(coq_strs(l) for l in o)


def parse_N_list(v):
    v = v.strip()
    if v in ("[]", "nil"):
        return []
    assert v.startswith("[") and v.endswith("]"), v[:200]
    return [int(t.strip().replace("%N", "")) for t in v[1:-1].split(";") if t.strip()]


def run_text(ctx):
    from metapype.model.normalize import normalize
    pool, n_short = text_pool(ctx)
    ctx.count("text:exhaustive_len<=4_over_9_chars", n_short)
    ctx.count("text:random_longer", len(pool) - n_short)
    cases, wants = [], []
    crashed = False
    for x in pool:
        viol = text_statement_violations(x, normalize)
        for key, what, obs in viol:
            ctx.fail(key, what, {"kind": "impl-vs-statement", "branch": "text", "input": x,
                                 "input_codepoints": [ord(c) for c in x], "observed": obs})
        has_ws = any(c.isspace() for c in x)
        ctx.case(("t", x), has_ws)
        if any(k in ("C20:text:raises", "C20:text:type") for k, _, _ in viol):
            crashed = True
            continue
        cases.append(cstr(x))
        wants.append(coq_obs(impl_text_obs(x, normalize)))
        if len(x) > 6:
            ctx.sample({"branch": "text", "input": x, "normalize": normalize(x)}, limit=3)
    # (B) model vs implementation, evaluated in Coq; plus the code-point sweep
    shard = 800
    jobs = [("C20_sweep", HEADER + "Eval vm_compute in sweep is_py_space 1114112.\n")]
    for i in range(0, len(cases), shard):
        text = (HEADER + "Definition cases := " + clist(cases[i:i + shard]) + ".\n" +
                "Definition want := " + clist(wants[i:i + shard]) + ".\n" +
                "Eval vm_compute in mismatches obs_eqb (map text_obs cases) want.\n")
        jobs.append((f"C20_text_{i // shard}", text))
    res = common.coq_eval_many(jobs)
    # sweep
    rc, out = res[0]
    py_spaces = [c for c in range(0x110000) if chr(c).isspace()]
    ctx.count("isspace:code_points_swept", 0x110000)
    if rc != 0:
        ctx.fail("corr:coq-error", "the is_py_space sweep did not evaluate", {"kind": "broken-correspondence", "output": out[-1500:]}, concrete=False)
    else:
        vals = common.parse_eval_values(out)
        got = parse_N_list(vals[0]) if len(vals) == 1 else None
        ctx.evaluations += 0x110000
        if got != py_spaces:
            diff = sorted(set(got or []) ^ set(py_spaces))
            ctx.fail("corr:isspace", f"is_py_space differs from str.isspace on code points {diff[:10]}",
                     {"kind": "broken-correspondence", "theorem": "C20_space_set (model of str.isspace)",
                      "code_points": diff[:50]}, concrete=False)
    ok = 0
    for k, (rc, out) in enumerate(res[1:]):
        name = jobs[k + 1][0]
        if rc != 0:
            ctx.fail("corr:coq-error", f"case file {name} did not evaluate", {"kind": "broken-correspondence", "file": name, "output": out[-1500:]}, concrete=False)
            continue
        vals = common.parse_eval_values(out)
        if len(vals) != 1:
            ctx.fail("corr:coq-error", f"unparsable output of {name}", {"kind": "broken-correspondence", "file": name, "output": out[-500:]}, concrete=False)
            continue
        bad = common.parse_nat_list(vals[0])
        n_here = min(shard, len(cases) - k * shard)
        ok += n_here - len(bad)
        for j in bad[:3]:
            x = pool_input(cases, k * shard + j, pool)
            rc2, out2 = common.coq_eval("C20_text_show", HEADER + f"Eval vm_compute in text_obs {cstr(x)}.\n")
            ctx.fail("corr:text", "model and implementation disagree on a string primitive / normalize()",
                     {"kind": "broken-correspondence", "theorem": "C20 text branch (model/implementation correspondence)",
                      "input": x, "input_codepoints": [ord(c) for c in x],
                      "implementation": impl_text_obs(x, normalize), "model": " ".join(out2.split())[:1500]}, concrete=False)
    return ok, crashed


def pool_input(cases, idx, pool):
    # cases were appended in pool order, skipping crashed inputs; recover by literal
    lit = cases[idx]
    for x in pool:
        if cstr(x) == lit:
            return x
    return lit


def run(ctx):
    built = ctx.build(extra_targets=["theories/Model/NormalizeRun.v"])
    ctx.extra["rule"] = ("text: every string of length <= 4 over {space, tab, LF, NBSP, 'a', 'b', U+2003, U+0085, U+001F} plus random "
                         "longer strings (70% over the same alphabet, rest with further Unicode whitespace, astral, surrogate, markup "
                         "characters); non-trivial = distinct inputs containing at least one whitespace character. "
                         "str.isspace: all 1,114,112 code points.")
    ok_text, _ = run_text(ctx)
    ctx.extra["traces_validated_against_impl"] = ok_text
    if not built:
        ctx.obligations_failed("text pool + generated XML documents against the property statement")


def replay(ctx, data):
    from metapype.model.normalize import normalize
    r = data.get("replay", {})
    print(data.get("what"))
    if r.get("branch") == "text" and "input_codepoints" in r:
        x = "".join(chr(c) for c in r["input_codepoints"])
        for key, what, obs in text_statement_violations(x, normalize):
            ctx.fail(key, what, {"kind": "impl-vs-statement", "branch": "text", "input": x,
                                 "input_codepoints": [ord(c) for c in x], "observed": obs})
            print("still fails:", key, what, repr(obs))
    else:
        run(ctx)

#!/usr/bin/env python3
"""Assemble MANIFEST.json from harness/meta/Cxx.json (one file per claimed property)."""
import json
import os

HERE = os.path.dirname(os.path.abspath(__file__))
VERIF = os.path.dirname(HERE)
props = [json.loads(l)["id"] for l in open(os.path.join(VERIF, "properties.jsonl"))]
checks, na = [], []
for p in props:
    mp = os.path.join(HERE, "meta", p + ".json")
    if os.path.exists(mp):
        m = json.load(open(mp))
        if m.get("not_applicable"):
            na.append({"property_id": p, "reason": m["not_applicable"]})
            continue
        checks.append({
            "property_id": p,
            "quick_cmd": f"./check {p} --tier quick",
            "thorough_cmd": f"./check {p} --tier thorough",
            "evidence_file": f"/verif/evidence/{p}.json",
            "replay_cmd_template": f"./check {p} --replay {{path}}",
            "engine": "coq-proof+correspondence",
            "level_claimed": {"category": "proof", "text": m["level_text"], "design_ref": m.get("design_ref", f"DESIGN.md section 5 ({p})")},
            "level_note": m["level_note"],
            "technique": m.get("technique", "machine-checked proof in Coq 8.16 about a Gallina model, model tied to /repo by generated tables and a differential correspondence run"),
        })
    else:
        na.append({"property_id": p, "reason": "check not built yet in this revision; planned, see DESIGN.md section 5 (" + p + ")"})
man = {
    "version": 1,
    "setup_cmd": "./setup.sh",
    "hooks": {"guard": "METAPYPE_VERIF", "enable": "no source hooks: checks import /repo/src directly (PYTHONPATH) and set METAPYPE_VERIF=1; random rules are installed by assigning into metapype.eml.rule.rules_dict from the harness process",
              "baseline_off_cmd": "cd /repo && /venv/bin/python -m pytest -ra -q -p no:cacheprovider --timeout=900 --continue-on-collection-errors",
              "source_commits": [], "add_only": True},
    "engines": [{"name": "coq-proof+correspondence", "path": "/verif/check", "serves_properties": [c["property_id"] for c in checks],
                 "kind_free_text": "Coq 8.16.1 theories under /verif/coq (generated Gen/Tables.v + hand-written models, specs, proofs) and a Python harness that runs the implementation and evaluates the Gallina models on the same cases inside Coq (vm_compute)"}],
    "checks": checks,
    "not_applicable": na,
    "notes": "fix: commits made to /repo are listed in known_findings.json under 'fixed'. See DESIGN.md.",
}
json.dump(man, open(os.path.join(VERIF, "MANIFEST.json"), "w"), indent=1)
print(f"MANIFEST: {len(checks)} checks, {len(na)} not_applicable")

"""Shared machinery of every check: table regeneration, Coq build, evaluation of
generated case files inside Coq (vm_compute), evidence, known findings,
violation reporting.  See DESIGN.md section 4."""
import fcntl
import hashlib
import json
import os
import random
import re
import subprocess
import sys
import time

VERIF = os.path.dirname(os.path.dirname(os.path.abspath(__file__)))
REPO = os.environ.get("VERIF_REPO", "/repo")
COQ = os.path.join(VERIF, "coq")
THEORIES = os.path.join(COQ, "theories")
CASES = os.path.join(COQ, "cases")
EVIDENCE = os.path.join(VERIF, "evidence")
REPLAYS = os.path.join(VERIF, "replays")
LOCK = os.path.join(VERIF, ".build.lock")
GUARD = "METAPYPE_VERIF"

FORBIDDEN = re.compile(
    r"\b(Admitted|admit|Axiom|Axioms|Parameter|Parameters|Conjecture|Conjectures|Admit Obligations|bypass_check|native_compute)\b"
    r"|Unset\s+Guard|Unset\s+Positivity|Unset\s+Universe|type-in-type|impredicative-set")
STMT = re.compile(r"^\s*(?:Local\s+|Global\s+|#\[[^\]]*\]\s*)*(Theorem|Lemma|Corollary|Example|Proposition|Fact|Remark)\s+([A-Za-z0-9_']+)", re.M)

TRUSTED_BASE = [
    "Coq 8.16.1 kernel (coqc full .vo builds; vm_compute used for table obligations and case evaluation; native_compute not used)",
    "harness/gen_tables.py translator (json+ast, fail-closed) producing Gen/Tables.v from /repo on every run",
    "correspondence harness (Python): case generators, Coq-literal printers, canonicalisers",
    "hand-written Gallina models of the Python algorithms, tied to /repo only by the correspondence run",
    "CPython + third-party libraries the code calls (float/int/datetime/rfc3986/lxml/json) enter as oracle answers computed on the concrete inputs",
    "statelessness: the models are pure functions of their arguments; that the modelled Python functions keep no state between calls or objects is an assumption, exercised (not proved) by the repeat/reuse phases of the harnesses",
    "thorough tier: coqchk -o re-checks the compiled cone independently and must report no axioms, no type-in-type, no unsafe fixpoints, no assumed positivity",
    "no Axiom/Parameter/Admitted in the development (scanned on every run); Print Assumptions of every property theorem is recorded under axioms_per_property_theorem",
]


def setup_impl_path():
    """Make `import metapype` resolve to /repo's working tree, whatever is installed."""
    src = os.path.join(REPO, "src")
    if src in sys.path:
        sys.path.remove(src)
    sys.path.insert(0, src)
    utils = os.path.join(REPO, "utils")
    if utils not in sys.path:
        sys.path.insert(1, utils)
    os.environ[GUARD] = "1"
    for m in list(sys.modules):
        if m == "metapype" or m.startswith("metapype."):
            f = getattr(sys.modules[m], "__file__", "") or ""
            if not f.startswith(src):
                del sys.modules[m]
    import logging
    logging.disable(logging.CRITICAL)


# ------------------------------------------------------------------ Coq literals
_SAFE = re.compile(r"^[A-Za-z0-9_:./ #=\-]*$")


def cstr(x):
    if _SAFE.match(x):
        return f'(s "{x}")'
    return "[" + "; ".join(str(ord(c)) for c in x) + "]%N"


def copt(x, f=cstr):
    return "None" if x is None else f"(Some {f(x)})"


def clist(items):
    return "[" + "; ".join(items) + "]"


def cbool(b):
    return "true" if b else "false"


def cnat(n):
    assert 0 <= n < 5000, n
    return f"{n}%nat"


def cpair(a, b):
    return f"({a}, {b})"


# ------------------------------------------------------------------ build
class BuildLock:
    def __enter__(self):
        self.f = open(LOCK, "w")
        fcntl.flock(self.f, fcntl.LOCK_EX)
        return self

    def __exit__(self, *a):
        fcntl.flock(self.f, fcntl.LOCK_UN)
        self.f.close()


def sh(cmd, cwd=None, timeout=1800, env=None):
    p = subprocess.run(cmd, cwd=cwd, shell=isinstance(cmd, str), stdout=subprocess.PIPE,
                       stderr=subprocess.STDOUT, text=True, timeout=timeout, env=env)
    return p.returncode, p.stdout


def regen_tables():
    rc, out = sh([sys.executable, os.path.join(VERIF, "harness", "gen_tables.py")])
    return rc, out.strip()


def ensure_makefile():
    mk = os.path.join(COQ, "Makefile")
    proj = os.path.join(COQ, "_CoqProject")
    if not os.path.exists(mk) or os.path.getmtime(mk) < os.path.getmtime(proj):
        rc, out = sh("coq_makefile -f _CoqProject -o Makefile", cwd=COQ)
        if rc != 0:
            raise RuntimeError("coq_makefile failed:\n" + out)


def cone_of(vfile_rel):
    """Transitive .v dependencies (inside theories/) of a theories-relative file, via coqdep."""
    seen = []
    todo = [vfile_rel]
    while todo:
        f = todo.pop()
        if f in seen:
            continue
        seen.append(f)
        path = os.path.join(COQ, f)
        if not os.path.exists(path):
            continue
        txt = open(path, encoding="utf-8").read()
        txt = re.sub(r"\(\*.*?\*\)", "", txt, flags=re.S)
        for m in re.finditer(r"(?:From\s+MP\s+)?Require\s+(?:Import\s+|Export\s+)?(.*?)\.(?=\s|$)", txt, flags=re.S):
            for mod in m.group(1).split():
                if mod.startswith("MP."):
                    mod = mod[3:]
                rel = "theories/" + mod.replace(".", "/") + ".v"
                todo.append(rel)
    return [f for f in seen if os.path.exists(os.path.join(COQ, f))]


def scan_forbidden(files):
    bad = []
    for f in files:
        p = os.path.join(COQ, f)
        if not os.path.exists(p):
            continue
        txt = open(p, encoding="utf-8").read()
        txt_nc = re.sub(r"\(\*.*?\*\)", "", txt, flags=re.S)
        for m in FORBIDDEN.finditer(txt_nc):
            bad.append(f"{f}: {m.group(0)}")
    return bad


def count_statements(files):
    n = 0
    names = []
    for f in files:
        p = os.path.join(COQ, f)
        if not os.path.exists(p):
            continue
        txt = open(p, encoding="utf-8").read()
        txt_nc = re.sub(r"\(\*.*?\*\)", "", txt, flags=re.S)
        for m in STMT.finditer(txt_nc):
            n += 1
            names.append(m.group(2))
    return n, names


def parse_assumptions(out):
    """Split coqc output of a Properties file into {theorem: [axioms]}.
    We print `Print Assumptions thm.` after each theorem; Coq answers either
    'Closed under the global context' or 'Axioms:' followed by lines."""
    res = []
    blocks = re.split(r"(?=Closed under the global context|Axioms:)", out)
    for b in blocks:
        if b.startswith("Closed under the global context"):
            res.append([])
        elif b.startswith("Axioms:"):
            ax = []
            for line in b.splitlines()[1:]:
                m = re.match(r"^([A-Za-z_][A-Za-z0-9_.']*)\s*:", line)
                if m:
                    ax.append(m.group(1))
            res.append(ax)
    return res


def coq_eval(name, text, timeout=900):
    """Compile a generated case file with coqc and return (rc, stdout)."""
    os.makedirs(CASES, exist_ok=True)
    path = os.path.join(CASES, name + ".v")
    with open(path, "w", encoding="utf-8") as f:
        f.write(text)
    rc, out = sh(["coqc", "-Q", "theories", "MP", "-Q", "cases", "MPCases", os.path.relpath(path, COQ)], cwd=COQ, timeout=timeout)
    return rc, out


def coq_eval_many(jobs, timeout=900, par=12):
    """jobs: list of (name, text). Runs coqc on all in parallel. Returns list of (rc, out)."""
    os.makedirs(CASES, exist_ok=True)
    procs = []
    results = [None] * len(jobs)
    idx = 0
    running = []
    while idx < len(jobs) or running:
        while idx < len(jobs) and len(running) < par:
            name, text = jobs[idx]
            path = os.path.join(CASES, name + ".v")
            with open(path, "w", encoding="utf-8") as f:
                f.write(text)
            p = subprocess.Popen(["coqc", "-Q", "theories", "MP", "-Q", "cases", "MPCases", os.path.relpath(path, COQ)],
                                 cwd=COQ, stdout=subprocess.PIPE, stderr=subprocess.STDOUT, text=True)
            running.append((idx, p, time.time()))
            idx += 1
        still = []
        for (i, p, t0) in running:
            if p.poll() is None:
                if time.time() - t0 > timeout:
                    p.kill()
                    results[i] = (124, "TIMEOUT")
                else:
                    still.append((i, p, t0))
            else:
                results[i] = (p.returncode, p.stdout.read())
        running = still
        if running:
            time.sleep(0.05)
    return results


def parse_eval_values(out):
    """Return the printed values of successive `Eval vm_compute in ...` commands as
    strings (text between '     = ' and the trailing '     : type')."""
    vals = []
    for m in re.finditer(r"^\s*= (.*?)\n\s*: [^\n]*(?:\n(?!\s*=)[^\n]*)*?(?=\n\s*=|\Z)", out, flags=re.S | re.M):
        vals.append(" ".join(m.group(1).split()))
    return vals


def parse_nat_list(v):
    v = v.strip()
    if v in ("[]", "nil"):
        return []
    assert v.startswith("[") and v.endswith("]"), v
    return [int(x.strip().replace("%nat", "")) for x in v[1:-1].split(";") if x.strip()]


# ------------------------------------------------------------------ known findings
def load_known():
    p = os.path.join(VERIF, "known_findings.json")
    if not os.path.exists(p):
        return {"findings": [], "fixed": []}
    with open(p, encoding="utf-8") as f:
        return json.load(f)


class Watchdog(BaseException):
    """Raised by the SIGALRM watchdog: the check's own work exceeded its time budget
    (e.g. the implementation under test no longer terminates on some input)."""


def arm_watchdog(seconds):
    import signal

    def _fire(signum, frame):
        raise Watchdog(f"time budget of {seconds}s for the check's own work exceeded")
    signal.signal(signal.SIGALRM, _fire)
    # re-fires every 30 s in case some handler swallowed the first exception
    signal.setitimer(signal.ITIMER_REAL, seconds, 30)


def disarm_watchdog():
    import signal
    signal.setitimer(signal.ITIMER_REAL, 0, 0)


# ------------------------------------------------------------------ context
class Ctx:
    def __init__(self, prop, tier, seed):
        self.prop = prop
        self.tier = tier
        self.seed = seed
        self.rng = random.Random(seed * 1000003 + sum(ord(c) for c in prop))
        self.t0 = time.time()
        self.obligations = 0
        self.discharged = 0
        self.theorems = []
        self.axioms = {}
        self.evaluations = 0
        self.nontrivial = set()
        self.samples = []
        self.dist = {}
        self.notes = []
        self.violations = []      # dicts: {key, what, replay(obj), concrete(bool)}
        self.known_lines = []
        self.checker_cmds = []
        self.assumptions = []
        self.corr_cases = 0
        self.extra = {}
        known = load_known()
        self.known = [k for k in known.get("findings", []) if k.get("property") == prop]
        self.fixed = [k for k in known.get("fixed", []) if k.get("property") == prop]

    # ---- bookkeeping
    def count(self, key, n=1):
        self.dist[key] = self.dist.get(key, 0) + n

    def case(self, sig=None, nontrivial=True):
        self.evaluations += 1
        if nontrivial and sig is not None:
            self.nontrivial.add(sig if isinstance(sig, (str, int, tuple)) else repr(sig))

    def sample(self, obj, limit=8):
        if len(self.samples) < limit:
            self.samples.append(obj)

    def note(self, msg):
        self.notes.append(msg)

    # ---- failures
    def fail(self, key, what, replay, concrete=True):
        """Record a property failure. key identifies the input/call-site class
        (matched against known_findings.json)."""
        for k in self.known:
            if k["key"] == key:
                line = f"KNOWN-FINDING: property={self.prop} {k['what']}"
                if line not in self.known_lines:
                    self.known_lines.append(line)
                return
        if any(v["key"] == key for v in self.violations):
            return
        self.violations.append({"key": key, "what": what, "replay": replay, "concrete": concrete})

    # ---- build + proof obligations
    def build(self, prop_file=None, extra_targets=()):
        """Regenerate tables, build the cone of theories/Properties/<prop>.v, re-run coqc on
        the property file to collect Print Assumptions. Returns True when all obligations check."""
        prop_file = prop_file or f"theories/Properties/{self.prop}.v"
        # The lock is held until finish(): Gen/Tables.v(o) is shared by every check, and the
        # case files evaluated later must see the tables of THIS run's repository.
        self._lock = BuildLock()
        self._lock.__enter__()
        # own-work time budget (lock waiting excluded): a hang in the implementation under test must
        # end as a reported violation, never as a hung check
        arm_watchdog(int(os.environ.get("VERIF_BUDGET_S", "700" if self.tier == "quick" else "4200")))
        if True:
            rc, out = regen_tables()
            self.extra["tables"] = out
            if rc != 0:
                self.fail("tie:translator", f"translator failed closed: {out}",
                          {"kind": "broken-tie", "translator_output": out}, concrete=False)
                return False
            ensure_makefile()
            cone = cone_of(prop_file)
            for t in extra_targets:
                for f in cone_of(t):
                    if f not in cone:
                        cone.append(f)
            bad = scan_forbidden(cone)
            if bad:
                self.fail("proof:forbidden-token", f"forbidden construct in development: {bad[:3]}",
                          {"kind": "broken-proof", "forbidden": bad}, concrete=False)
            self.obligations, self.theorems = count_statements(cone)
            targets = [prop_file[:-2] + ".vo"] + [t[:-2] + ".vo" for t in extra_targets]
            cmd = ["make", "-j16", "-k"] + targets
            self.checker_cmds.append("cd coq && " + " ".join(cmd))
            rc, out = sh(cmd, cwd=COQ, timeout=3000)
            if rc != 0:
                errs = re.findall(r'File "\./([^"]+)", line (\d+)[^\n]*\n(?:[^\n]*\n){0,6}?Error:[^\n]*(?:\n[^\n]+){0,4}', out)
                m = re.search(r'File "\./([^"]+)", line (\d+).*?Error:(.*?)(?:\n\n|make)', out, flags=re.S)
                where = f"{m.group(1)}:{m.group(2)}" if m else "unknown"
                msg = " ".join(m.group(3).split())[:400] if m else out[-400:]
                # find the enclosing statement name
                thm = None
                if m:
                    try:
                        lines = open(os.path.join(COQ, m.group(1)), encoding="utf-8").read().splitlines()
                        for ln in range(int(m.group(2)) - 1, -1, -1):
                            mm = STMT.match(lines[ln])
                            if mm:
                                thm = mm.group(2)
                                break
                    except Exception:
                        pass
                self.broken = {"file": where, "theorem": thm, "error": msg}
                self.discharged = 0
                self.extra["broken_obligation"] = self.broken
                return False
            # collect axioms: re-run coqc on the property file itself
            rc2, out2 = sh(["coqc", "-Q", "theories", "MP", prop_file], cwd=COQ, timeout=1200)
            self.checker_cmds.append(f"cd coq && coqc -Q theories MP {prop_file}")
            if rc2 != 0:
                self.broken = {"file": prop_file, "theorem": None, "error": out2[-400:]}
                self.extra["broken_obligation"] = self.broken
                return False
            outs = [(prop_file, out2)]
            for t in extra_targets:
                if "/Properties/" in t:
                    rc4, out4 = sh(["coqc", "-Q", "theories", "MP", t], cwd=COQ, timeout=1200)
                    self.checker_cmds.append(f"cd coq && coqc -Q theories MP {t}")
                    if rc4 != 0:
                        self.broken = {"file": t, "theorem": None, "error": out4[-400:]}
                        self.extra["broken_obligation"] = self.broken
                        return False
                    outs.append((t, out4))
            for pf, o in outs:
                ptxt = open(os.path.join(COQ, pf), encoding="utf-8").read()
                pnames = re.findall(r"Print Assumptions\s+([A-Za-z0-9_'.]+)\s*\.", ptxt)
                ax = parse_assumptions(o)
                if len(ax) != len(pnames):
                    self.note(f"could not align Print Assumptions output of {pf} ({len(ax)} blocks, {len(pnames)} commands)")
                for n, a in zip(pnames, ax):
                    self.axioms[n] = a
                    if a:
                        self.fail("proof:axioms:" + n, f"property theorem {n} depends on axioms {a}",
                                  {"kind": "broken-proof", "theorem": n, "axioms": a}, concrete=False)
            self.discharged = self.obligations
            if self.tier == "thorough":
                # independent re-check of the compiled cone with coqchk, and its axiom summary
                mod = "MP." + prop_file[len("theories/"):-2].replace("/", ".")
                rc3, out3 = sh(["coqchk", "-silent", "-o", "-Q", "theories", "MP", mod], cwd=COQ, timeout=2400)
                self.checker_cmds.append(f"cd coq && coqchk -silent -o -Q theories MP {mod}")
                summary = out3[out3.find("CONTEXT SUMMARY"):] if "CONTEXT SUMMARY" in out3 else out3[-600:]
                self.extra["coqchk"] = " ".join(summary.split())
                m = re.search(r"\* Axioms:(.*?)\* Constants/Inductives relying on type-in-type", summary, flags=re.S)
                axioms_txt = " ".join(m.group(1).split()) if m else "?"
                if rc3 != 0 or axioms_txt != "<none>" or "type-in-type: <none>" not in " ".join(summary.split()) \
                        or "unsafe (co)fixpoints: <none>" not in " ".join(summary.split()) \
                        or "positivity is assumed: <none>" not in " ".join(summary.split()):
                    self.fail("proof:coqchk", f"coqchk does not report a clean context: {axioms_txt}",
                              {"kind": "broken-proof", "coqchk": summary[-1500:]}, concrete=False)
            return True

    broken = None

    def obligations_failed(self, search_note=""):
        """Call when build() returned False and the concrete search found nothing."""
        if self.broken is None:
            return
        if any(v["concrete"] for v in self.violations):
            return
        self.fail("proof:" + str(self.broken.get("theorem") or self.broken.get("file")),
                  f"proof obligation no longer checks: {self.broken}",
                  {"kind": "broken-proof", "broken": self.broken, "search": search_note}, concrete=False)

    # ---- finish
    _lock = None

    def finish(self):
        disarm_watchdog()
        if self._lock is not None:
            self._lock.__exit__()
            self._lock = None
        wall = time.time() - self.t0
        os.makedirs(EVIDENCE, exist_ok=True)
        os.makedirs(REPLAYS, exist_ok=True)
        lines = []
        # If a concrete violation exists, drop the non-concrete ones of the same run (they are explained by it)
        viol = self.violations
        if any(v["concrete"] for v in viol):
            viol = [v for v in viol if v["concrete"]]
        self.extra['violations_total'] = len(viol)
        for v in viol[:5]:
            h = hashlib.sha1(json.dumps(v["replay"], sort_keys=True, default=str).encode()).hexdigest()[:10]
            path = os.path.join(REPLAYS, f"{self.prop}-{h}.json")
            with open(path, "w", encoding="utf-8") as f:
                json.dump({"property": self.prop, "key": v["key"], "what": v["what"], "seed": self.seed,
                           "tier": self.tier, "replay": v["replay"],
                           "how": f"./check {self.prop} --replay {path}"}, f, indent=1, default=str)
            line = f"VIOLATION property={self.prop} replay={path}"
            if not v["concrete"]:
                line += " no-failing-input-found"
            lines.append(line)
        cov = {
            "obligations": self.obligations,
            "discharged": self.discharged,
            "checker_cmd": " ; ".join(self.checker_cmds) or "none",
            "trusted_base": TRUSTED_BASE,
            "theorems": self.theorems[-60:],
            "axioms_per_property_theorem": self.axioms,
            "evaluations": self.evaluations,
            "distinct_nontrivial": len(self.nontrivial),
            "rule": self.extra.get("rule", "see samples"),
            "samples": self.samples or ["(no cases generated)"],
            "input_distribution": self.dist,
            "notes": self.notes,
            "known_finding_lines": self.known_lines,
        }
        for k, v in self.extra.items():
            if k != "rule":
                cov[k] = v
        ev = {
            "property_id": self.prop,
            "tier": self.tier,
            "seed": self.seed,
            "level": "proof",
            "coverage": cov,
            "assumptions": self.assumptions or ["see trusted_base"],
            "wall_s": round(wall, 2),
            "violations": len(lines),
        }
        with open(os.path.join(EVIDENCE, f"{self.prop}.json"), "w", encoding="utf-8") as f:
            json.dump(ev, f, indent=1, default=str)
        for l in self.known_lines:
            print(l)
        for l in lines:
            print(l)
        print(f"[{self.prop}] tier={self.tier} seed={self.seed} obligations={self.obligations} discharged={self.discharged} "
              f"evaluations={self.evaluations} nontrivial={len(self.nontrivial)} violations={len(lines)} wall={wall:.1f}s")
        return 1 if lines else 0

"""C13 — namespace operations stay inside the subtree they are applied to.

(B) correspondence: ALL histories over {attach, declare, re-declare, undeclare} on a forest of
    4 nodes / 2 prefixes / 2 URIs up to a depth bound (pruned by the renaming symmetry of
    nodes, prefixes and URIs: names appear in order of first mention), plus long random
    histories on 12-15 nodes; the Gallina model (Model/Namespace.v) is evaluated inside Coq on
    the same histories and must reproduce, for every node, the ordered nsmap items, the
    partition of the nodes by nsmap object identity, and the child lists.
(S) statement search: an abstract model written from the property text (per-node prefix->uri
    maps, declare / undeclare / attach on whole subtrees) is compared with the implementation
    after every step, and the locality clause is checked directly (bindings of every node
    outside the subtree are snapshotted before and compared after)."""
import time

from harness import common
from harness.common import clist

K_SMALL, P_SMALL, U_SMALL = 4, 2, 2
EMPTY = 9          # index of the empty string in both pools: "" is a legal (and falsy) prefix / URI


def fresh(s):
    """a NEW str object with the same value (never a shared literal): `is`/`==` slips stay visible"""
    return "".join(list(s))


def pstr(i):
    return fresh("" if i == EMPTY else "p%d" % i)


def ustr(i):
    return fresh("" if i == EMPTY else "u%d" % i)


def pidx(s):
    return EMPTY if s == "" else int(s[1:])
HEADER = "From MP Require Import Common.Base Common.Tree Model.Heap Model.Namespace Model.NsRun.\n"


# ------------------------------------------------------------------ implementation side
class Impl:
    def __init__(self, k):
        from metapype.model.node import Node
        Node.store.clear()
        self.nodes = [Node("n") for _ in range(k)]
        self.index = {id(n): i for i, n in enumerate(self.nodes)}

    def apply(self, op):
        ns = self.nodes
        if op[0] == "A":
            ns[op[1]].add_child(ns[op[2]], index=op[3])
        elif op[0] == "D":
            ns[op[1]].add_namespace(pstr(op[2]), ustr(op[3]))
        else:
            ns[op[1]].remove_namespace(pstr(op[2]))

    def observe(self):
        first = {}
        out = []
        for i, n in enumerate(self.nodes):
            cls = first.setdefault(id(n.nsmap), i)
            out.append(([(pidx(p), pidx(u)) for p, u in n.nsmap.items()], cls,
                        [self.index[id(c)] for c in n.children]))
        return out

    def bindings(self):
        return [dict(n.nsmap) for n in self.nodes]


# ------------------------------------------------------------------ the statement, as a plain abstract model
class Abstract:
    """Written from the property text only: a forest shape and one prefix->uri map per node."""

    def __init__(self, k):
        self.vis = [dict() for _ in range(k)]
        self.kids = [[] for _ in range(k)]
        self.parent = [None] * k

    def subtree(self, n):
        out, todo = [], [n]
        while todo:
            m = todo.pop()
            out.append(m)
            todo.extend(self.kids[m])
        return out

    def apply(self, op):
        """returns the set of nodes the operation was applied to (its subtree)"""
        if op[0] == "D":
            sub = self.subtree(op[1])
            for m in sub:
                self.vis[m][pstr(op[2])] = ustr(op[3])
            return sub
        if op[0] == "U":
            sub = self.subtree(op[1])
            for m in sub:
                self.vis[m].pop(pstr(op[2]), None)
            return sub
        par, c = op[1], op[2]
        self.kids[par].append(c)          # position is irrelevant to the namespace statement
        self.parent[c] = par
        sub = self.subtree(c)
        for q, u in list(self.vis[par].items()):
            if q not in self.vis[c]:
                for m in sub:
                    self.vis[m][q] = u
        return sub

    def can_attach(self, par, c):
        if par == c or self.parent[c] is not None:
            return False
        a = par
        while a is not None:
            if a == c:
                return False
            a = self.parent[a]
        return True


# ------------------------------------------------------------------ history generators
def enum_histories(depth, K=K_SMALL, P=P_SMALL, U=U_SMALL):
    """All histories up to `depth`, one per orbit of the renaming symmetry (nodes, prefixes and
    URIs are numbered in order of first mention). Attach only detached roots, never below itself."""
    out = []

    def rec(hist, parent, nn, np_, nu):
        if hist:
            out.append(tuple(hist))
        if len(hist) == depth:
            return
        for par in range(min(nn + 1, K)):
            nn1 = max(nn, par + 1)
            for c in range(min(nn1 + 1, K)):
                if c == par or parent[c] is not None:
                    continue
                a, ok = par, True
                while a is not None:
                    if a == c:
                        ok = False
                        break
                    a = parent[a]
                if not ok:
                    continue
                p2 = parent[:]
                p2[c] = par
                rec(hist + [("A", par, c, None)], p2, max(nn1, c + 1), np_, nu)
        for n in range(min(nn + 1, K)):
            nn1 = max(nn, n + 1)
            for p in range(min(np_ + 1, P)):
                np1 = max(np_, p + 1)
                for u in range(min(nu + 1, U)):
                    rec(hist + [("D", n, p, u)], parent, nn1, np1, max(nu, u + 1))
                rec(hist + [("D", n, p, EMPTY)], parent, nn1, np1, nu)      # the empty URI is not interchangeable
                rec(hist + [("U", n, p)], parent, nn1, np1, nu)

    rec([], [None] * K, 0, 0, 0)
    return out


def reissue_extensions(hists, depth):
    """Lesson (n): every history of maximal length is extended by ONE final step that re-issues an
    earlier namespace operation of the same history verbatim (idempotent re-application), when the
    operation's target has descendants by then (otherwise it is an ordinary shorter history up to
    renaming). Linear in the number of histories."""
    out = []
    for h in hists:
        if len(h) != depth:
            continue
        kids = {}
        for o in h:
            if o[0] == "A":
                kids.setdefault(o[1], []).append(o[2])
        seen = set()
        for o in h[:-1]:
            if o[0] in "DU" and kids.get(o[1]) and o not in seen:
                seen.add(o)
                out.append(tuple(h) + (o,))
    return out


def random_history(rng, k, length, P=3, U=3):
    ab = Abstract(k)
    hist = []
    for _ in range(length):
        r = rng.random()
        op = None
        if r < 0.35:
            pairs = [(a, b) for a in range(k) for b in range(k) if ab.can_attach(a, b)]
            if pairs:
                par, c = rng.choice(pairs)
                idx = None
                if rng.random() < 0.4:
                    idx = rng.randint(-3, len(ab.kids[par]) + 2)
                op = ("A", par, c, idx)
        if op is None and hist and rng.random() < 0.2:
            old = [o for o in hist if o[0] in "DU"]      # re-issue an earlier namespace operation verbatim
            if old:
                op = rng.choice(old)
        if op is None:
            n = rng.randrange(k)
            if r < 0.8:
                op = ("D", n, rng.choice(list(range(P)) + [EMPTY]), rng.choice(list(range(U)) + [EMPTY]))
            else:
                op = ("U", n, rng.choice(list(range(P)) + [EMPTY]))
        ab.apply(op)
        hist.append(op)
    return hist


# ------------------------------------------------------------------ Coq literals
def coq_op(op):
    if op[0] == "A":
        idx = "None" if op[3] is None else f"(Some ({op[3]})%Z)"
        return f"CA {op[1]} {op[2]} {idx}"
    if op[0] == "D":
        return f"CD {op[1]} {op[2]} {op[3]}"
    return f"CU {op[1]} {op[2]}"


def coq_state(st):
    return clist("(" + clist(f"({p},{u})" for p, u in items) + f", {cls}, " + clist(str(x) for x in kids) + ")"
                 for items, cls, kids in st)


def opname(op, redeclared):
    if op[0] == "A":
        return "attach"
    if op[0] == "U":
        return "undeclare"
    return "re-declare" if redeclared else "declare"


# ------------------------------------------------------------------ one history against the statement
def check_history(ctx, k, hist, want_trace=True):
    """Runs the implementation, checks the statement (S) after every step, returns the list of
    observed states (all steps or only the last)."""
    impl = Impl(k)
    ab = Abstract(k)
    states = []
    for step, op in enumerate(hist):
        before = impl.bindings()
        redecl = op[0] == "D" and pstr(op[2]) in before[op[1]] and before[op[1]][pstr(op[2])] != ustr(op[3])
        kind = opname(op, redecl)
        ctx.count("op:" + kind)
        try:
            impl.apply(op)
        except Exception as e:   # no operation of the alphabet may raise on a forest
            ctx.fail(f"C13:raises:{kind}", f"{kind} raised {type(e).__name__}: {e}",
                     {"kind": "impl-vs-statement", "nodes": k, "history": [list(o) for o in hist[:step + 1]],
                      "raised": type(e).__name__})
            return None
        sub = set(ab.apply(op))
        after = impl.bindings()
        outside = [m for m in range(k) if m not in sub and after[m] != before[m]]
        if outside:
            ctx.fail(f"C13:locality:{kind}",
                     f"{kind} changed the bindings seen on node(s) {outside} outside the subtree it was applied to",
                     {"kind": "impl-vs-statement", "nodes": k, "history": [list(o) for o in hist[:step + 1]],
                      "subtree_of_last_op": sorted(sub), "changed_outside": outside,
                      "before": {m: before[m] for m in outside}, "after": {m: after[m] for m in outside}})
        wrong = [m for m in range(k) if after[m] != ab.vis[m]]
        if wrong and not outside:
            ctx.fail(f"C13:visible:{kind}",
                     f"after {kind} node(s) {wrong} do not see the bindings the statement prescribes",
                     {"kind": "impl-vs-statement", "nodes": k, "history": [list(o) for o in hist[:step + 1]],
                      "observed": {m: after[m] for m in wrong}, "expected": {m: ab.vis[m] for m in wrong}})
        if wrong or outside:
            # keep the abstract model in step with what was observed is pointless: stop this history
            return None
        if want_trace or step == len(hist) - 1:
            states.append(impl.observe())
    return states


def coq_run(ctx, label, fn, case_terms, metas, shard):
    jobs = []
    for i in range(0, len(case_terms), shard):
        text = (HEADER + "Definition cases := " + clist(case_terms[i:i + shard]) + ".\n" +
                f"Eval vm_compute in failing {fn} cases.\n")
        jobs.append((f"C13_{label}_{i // shard}", text))
    res = common.coq_eval_many(jobs, par=14)
    bad = []
    for j, (rc, out) in enumerate(res):
        if rc != 0:
            ctx.fail("corr:coq-error", f"case file {jobs[j][0]} did not evaluate",
                     {"kind": "broken-correspondence", "file": jobs[j][0], "output": out[-1500:]}, concrete=False)
            continue
        vals = common.parse_eval_values(out)
        if len(vals) != 1:
            ctx.fail("corr:coq-error", f"unparsable output of {jobs[j][0]}",
                     {"kind": "broken-correspondence", "file": jobs[j][0], "output": out[-800:]}, concrete=False)
            continue
        bad.extend(j * shard + x for x in common.parse_nat_list(vals[0]))
    for i in bad[:3]:
        k, hist, want = metas[i]
        rc, out = common.coq_eval("C13_show", HEADER +
                                  f"Eval vm_compute in match run_ops (init_forest {k} empty_heap) " +
                                  clist(coq_op(o) for o in hist) + f" with Ok h => Some (show_state {k} h) | _ => None end.\n")
        ctx.fail(f"corr:{label}", "model and implementation disagree on a namespace history (items / identity classes / child lists)",
                 {"kind": "broken-correspondence", "theorem": "C13 (model/implementation correspondence)", "nodes": k,
                  "history": [list(o) for o in hist], "implementation_final_state(items,class,kids)": want[-1] if want and isinstance(want[0], list) else want,
                  "model_final_state": " ".join(out.split())[:1500]}, concrete=False)
    return len(case_terms) - len(bad)


def replay(ctx, data):
    """./check C13 --replay file: re-run the recorded history against the statement."""
    r = data.get("replay", {})
    hist = [tuple(o) for o in r.get("history", [])]
    k = r.get("nodes", K_SMALL)
    if not hist:
        print("replay file holds no history (broken proof or correspondence): running the full check")
        return run(ctx)
    st = check_history(ctx, k, hist, want_trace=True)
    print("history:", hist)
    print("implementation states (items, identity class, kids) per step:" if st else "the statement fails on this history")
    for s in st or []:
        print("  ", s)


def run(ctx):
    built = ctx.build(extra_targets=["theories/Model/NsRun.v"])
    t0 = time.time()           # the enumeration budget starts after the proof build
    thorough = ctx.tier == "thorough"
    depth = 5 if thorough else 4
    ctx.extra["rule"] = (f"(i) every history of length 1..{depth} over attach / declare / re-declare / undeclare on {K_SMALL} nodes, "
                         f"{P_SMALL} prefixes, {U_SMALL} URIs + the empty URI, one per orbit of the renaming symmetry (names numbered by first mention), "
                         "attach restricted to detached roots not above the parent; every history of maximal length extended by one verbatim re-issue of an earlier "
                         "declare/undeclare whose target has descendants; (ii) random histories of length 60 on 12-15 nodes, "
                         "3 prefixes, 3 URIs, random insertion indices; non-trivial = distinct history whose last step changes some binding or some sharing class")
    # ---- (i) exhaustive
    hists = enum_histories(depth)
    ext = reissue_extensions(hists, depth)
    ctx.count("reissue_extensions", len(ext))
    hists = sorted(hists + ext, key=len)     # shortest first: the first failure found is a shortest one
    ctx.count("exhaustive_histories", len(hists))
    terms, metas = [], []
    budget = 480 if thorough else 45
    cut = None
    # in the thorough tier the model is evaluated on every depth<=4 history and a seeded sample of depth 5
    sample_p = 1.0
    if thorough:
        n5 = sum(1 for h in hists if len(h) == 5)
        sample_p = min(1.0, 40000.0 / max(1, n5))
    for i, hist in enumerate(hists):
        if time.time() - t0 > budget:
            cut = i
            break
        st = check_history(ctx, K_SMALL, hist, want_trace=False)
        if st is None:
            continue
        final = st[-1]
        ctx.case(hist, nontrivial=True)
        if len(hist) <= 4 or (len(hist) == 5 and not thorough) or ctx.rng.random() < sample_p:
            terms.append(f"({K_SMALL}, {clist(coq_op(o) for o in hist)}, {coq_state(final)})")
            metas.append((K_SMALL, hist, final))
        if i % 4000 == 0:
            ctx.sample({"history": [list(o) for o in hist], "final(items,class,kids)": final}, limit=4)
    if cut is not None:
        ctx.note(f"exhaustive enumeration cut by the time budget after {cut} of {len(hists)} histories")
    ctx.extra["exhaustive_complete"] = cut is None
    ok1 = coq_run(ctx, "final", "final_case", terms, metas, 1200)
    # ---- (ii) random long histories
    nrand = 150 if thorough else 36
    rterms, rmetas = [], []
    for _ in range(nrand):
        k = ctx.rng.randint(12, 15)
        hist = random_history(ctx.rng, k, 60)
        st = check_history(ctx, k, hist, want_trace=True)
        if st is None:
            continue
        ctx.case(tuple(hist), nontrivial=True)
        ctx.count("random_histories")
        rterms.append(f"({k}, {clist(coq_op(o) for o in hist)}, {clist(coq_state(s) for s in st)})")
        rmetas.append((k, hist, st))
    ctx.sample({"random_history_nodes": rmetas[0][0], "first_ops": [list(o) for o in rmetas[0][1][:8]]} if rmetas else "none")
    ok2 = coq_run(ctx, "trace", "trace_case", rterms, rmetas, 6)
    ctx.extra["traces_validated_against_impl"] = ok1 + ok2
    ctx.extra["model_cases_final"] = len(terms)
    ctx.extra["model_cases_trace"] = len(rterms)
    if not built:
        ctx.obligations_failed("all histories to depth %d and %d random histories against the abstract statement" % (depth, nrand))

"""Shared pieces for the node/tree properties: deep snapshots of implementation trees,
building implementation trees from plain data, printing them as Coq [ftree] literals
(Common/Tree.v)."""
from harness.common import cstr, copt, clist, cpair


def snapshot(node):
    """Plain-data deep snapshot of a Node tree: every field, ordered dicts as lists of pairs.
    dict (id, name, content, tail, prefix, attrs, extras, nsmap, kids)."""
    return {
        "id": node.id,
        "name": node.name,
        "content": node.content,
        "tail": node.tail,
        "prefix": node.prefix,
        "attrs": [[k, v] for k, v in node.attributes.items()],
        "extras": [[k, v] for k, v in node.extras.items()],
        "nsmap": [[k, v] for k, v in node.nsmap.items()],
        "kids": [snapshot(c) for c in node.children],
    }


def deep_state(roots):
    """Everything observable about a forest, including aliasing: per node all fields,
    parent id, child ids, and the identity classes of the three dicts and the child list."""
    from metapype.model.node import Node
    nodes = {}
    order = []

    def walk(n):
        if id(n) in nodes:
            return
        nodes[id(n)] = n
        order.append(n)
        for c in n.children:
            walk(c)
    for r in roots:
        walk(r)
    cls = {}

    def ident(o):
        return cls.setdefault(id(o), len(cls))
    out = []
    for n in order:
        out.append({
            "id": n.id, "name": n.name, "content": n.content, "tail": n.tail, "prefix": n.prefix,
            "attrs": list(n.attributes.items()), "extras": list(n.extras.items()), "nsmap": list(n.nsmap.items()),
            "parent": None if n.parent is None else n.parent.id,
            "kids": [c.id for c in n.children],
            "attrs_obj": ident(n.attributes), "extras_obj": ident(n.extras), "nsmap_obj": ident(n.nsmap),
            "kids_obj": ident(n.children),
        })
    store = sorted(Node.store.keys())
    return {"nodes": out, "store": store}


def build(snap, parent=None, attach=True):
    """Build an implementation tree from a snapshot dict. With attach=True children are
    attached through add_child (namespace propagation as the library does it); otherwise
    the fields are set directly (exact reproduction of the snapshot)."""
    from metapype.model.node import Node
    n = Node(snap["name"], id=snap.get("id"), content=snap.get("content"))
    if snap.get("tail") is not None:
        n.tail = snap["tail"]
    if snap.get("prefix") is not None:
        n.prefix = snap["prefix"]
    for k, v in snap.get("attrs", []):
        n.add_attribute(k, v)
    for k, v in snap.get("extras", []):
        n.add_extras(k, v)
    n.nsmap = {k: v for k, v in snap.get("nsmap", [])}
    for k in snap.get("kids", []):
        c = build(k, n, attach)
        if attach:
            n.add_child(c)
        else:
            n.children.append(c)
            c.parent = n
    return n


def coq_dict(d):
    return clist(cpair(cstr(k), cstr(v)) for k, v in d)


def coq_nd(sn):
    return ("{| n_id := " + cstr(sn["id"]) + "; n_name := " + cstr(sn["name"]) +
            "; n_content := " + copt(sn.get("content")) + "; n_tail := " + copt(sn.get("tail")) +
            "; n_prefix := " + copt(sn.get("prefix")) + "; n_attrs := " + coq_dict(sn.get("attrs", [])) +
            "; n_extras := " + coq_dict(sn.get("extras", [])) + "; n_nsmap := " + coq_dict(sn.get("nsmap", [])) + " |}")


def coq_ftree(sn):
    return "(FT " + coq_nd(sn) + " " + clist(coq_ftree(k) for k in sn.get("kids", [])) + ")"


def reset_store():
    from metapype.model.node import Node
    Node.store.clear()

"""C04 — validation is total: only rule errors escape, collecting mode never raises.

(P) proof cone (Properties/C04.v: over closed tables no partial operation of the model can
    fail; table obligations: closedness, exception family, error-code enumeration);
(S) the statement executed directly on the implementation over adversarial trees: valid EML
    trees (tests/data/eml.xml, its subtrees, small documents) mutated by drop / duplicate /
    swap / rename-to-unknown / corrupt content / corrupt attributes / graft, random trees
    over known and unknown names, nesting up to depth 100: fail-fast raises nothing or a
    member of the MetapypeRuleError family; collecting mode raises nothing; every entry is
    (ValidationError member, str, offending Node of the tree, details...); errs == [] iff
    fail-fast succeeded; the same for validate.node on nodes of those trees;
(H) statelessness (an assumption of the theorems): the same tree object validated repeatedly (collect, collect
    again, fail-fast, into a non-empty list, after in-place edits and their undo) must behave like a freshly
    built identical tree - in particular "errs == [] iff fail-fast succeeds" must hold on every call, not only the first;
(B) model-vs-implementation correspondence on whole trees (<= 40 nodes) inside Coq."""
import copy

from harness import rulelib as RL
from harness import vtrees as VT


def all_nodes(root):
    out, stack = [], [root]
    while stack:
        n = stack.pop()
        out.append(n)
        stack.extend(n.children)
    return out


def statement(fn, tree_node_ids):
    """Run fn(errs_or_None) in both modes and check the C04 statement.
    Returns (ff, codes, problems) — problems: list of (key, what)."""
    from metapype.eml.exceptions import MetapypeRuleError
    from metapype.eml.validation_errors import ValidationError
    from metapype.model.node import Node
    problems = []
    try:
        VT.with_limit(lambda: fn(None))
        ff = "OK"
    except MetapypeRuleError as ex:
        ff = type(ex).__name__
    except VT.ValidationTimeout:
        ff = "CRASH:did-not-terminate"
        problems.append(("nontermination:fail-fast", "fail-fast validation did not terminate within 5 s"))
    except Exception as ex:  # noqa
        ff = "CRASH:" + type(ex).__name__
        problems.append(("foreign-exception:" + type(ex).__name__, f"fail-fast validation raised {type(ex).__name__}: {ex!s:.200}"))
    errs = []
    raised = None
    try:
        VT.with_limit(lambda: fn(errs))
    except VT.ValidationTimeout as ex:
        raised = ex
        problems.append(("nontermination:collecting", "collecting validation did not terminate within 5 s"))
        del errs[200:]
    except Exception as ex:  # noqa
        raised = ex
        problems.append(("collect-raised:" + type(ex).__name__, f"collecting validation raised {type(ex).__name__}: {ex!s:.200}"))
    codes = []
    for e in errs:
        ok = (isinstance(e, tuple) and len(e) >= 3 and isinstance(e[0], ValidationError) and isinstance(e[1], str)
              and isinstance(e[2], Node) and id(e[2]) in tree_node_ids)
        codes.append(e[0].name if isinstance(e, tuple) and e and isinstance(e[0], ValidationError) else "MALFORMED-ENTRY")
        if not ok:
            problems.append(("entry-shape", f"collected entry is not (ValidationError, str, node of the tree, ...): {e!r:.200}"))
    if raised is not None:
        codes.append("CRASH:" + type(raised).__name__)
    if raised is None and not ff.startswith("CRASH") and (ff == "OK") != (errs == []):
        problems.append(("modes", f"fail-fast gave {ff} but the collected list has {len(errs)} entries"))
    return ff, codes, problems


def random_tree(rng, names, budget, depth=0):
    n = [rng.choice(names), rng.choice(VT.CONTENT_POOL), [], []]
    for _ in range(rng.choice([0, 0, 0, 1, 2])):
        k = rng.choice(["id", "scope", "system", "lang", "zz", "function", "packageId"])
        if k not in [a[0] for a in n[2]]:
            n[2].append([k, rng.choice([x for x in VT.CONTENT_POOL if x is not None])])
    budget -= 1
    while budget > 0 and depth < 6 and rng.random() < 0.65:
        sub = rng.randrange(1, max(2, budget // 2 + 1))
        k = random_tree(rng, names, sub, depth + 1)
        budget -= VT.size(k)
        n[3].append(k)
    return n


def run(ctx):
    from metapype.eml import validate, rule as R
    from metapype.model.node import Node
    built = ctx.build(extra_targets=["theories/Model/RuleRun.v"])
    rng = ctx.rng
    thorough = ctx.tier == "thorough"
    big = VT.eml_tree()
    small = VT.small_valid_trees(40)
    known = list(R.node_mappings.keys())
    names = known + VT.FOREIGN_NAMES
    n_big, n_small, n_rand, n_coq = (200, 2500, 1500, 900) if thorough else (40, 380, 200, 250)
    ctx.extra["rule"] = ("adversarial trees: tests/data/eml.xml (282 nodes) with 1..6 seeded edits; its valid subtrees (2..40 nodes) and two small documents "
                         "with 0..5 edits; random trees over the %d known element names plus unknown names with content/attributes from the corruption pool "
                         "(None, '', NaN/inf spellings, huge digit strings, non-BMP, NUL, lone surrogates counted separately); description/section^k/para chains "
                         "of nesting depth 3..100 with edits; both modes on the whole tree and validate.node on up to 3 random nodes of it; "
                         "non-trivial = distinct tree that fails validation" % len(known))
    trees = []
    for _ in range(n_big):
        t = copy.deepcopy(big)
        trees.append(("eml.xml", t, VT.mutate(rng, t, n_ops=rng.randrange(1, 7))))
    for _ in range(n_small):
        t = copy.deepcopy(rng.choice(small))
        k = rng.choice([0, 1, 1, 2, 3, 5])
        trees.append(("subtree", t, VT.mutate(rng, t, n_ops=k) if k else []))
    for _ in range(n_rand):
        t = random_tree(rng, names if rng.random() < 0.5 else known, rng.randrange(1, 26))
        trees.append(("random", t, []))
    for levels in ([1, 5, 20, 50, 98] + ([rng.randrange(1, 99) for _ in range(20)] if thorough else [rng.randrange(1, 99) for _ in range(5)])):
        t = VT.deep_text(levels)
        trees.append(("deep", copy.deepcopy(t), []))
        for _ in range(3):
            t2 = copy.deepcopy(t)
            trees.append(("deep", t2, VT.mutate(rng, t2, n_ops=rng.randrange(1, 4))))
    # the corruption pool is C02's class-partitioned pool of every typed content kind
    from harness import c02 as C02
    pool = C02.uniq(VT.CONTENT_POOL + C02.float_pool(rng, 8) + C02.int_pool(rng, 8) + C02.time_pool(rng, 8) + C02.date_pool(rng, 8) +
                    C02.uri_pool(rng, 8) + C02.text_pool(rng, 8))
    ctx.extra["content_pool_size"] = len(pool)
    for origin, t, ops in list(trees):
        if origin in ("eml.xml", "subtree") and rng.random() < 0.5:
            t2 = copy.deepcopy(t)
            trees.append((origin, t2, ops + VT.mutate(rng, t2, n_ops=rng.randrange(1, 4), pool=pool)))
    # two independent problems in document order (every single-node error kind, incl. the kinds whose collected record
    # is a 3-tuple, followed by a children problem such as an allowed-but-misplaced child; and the other orders), and
    # nodes with more than 256 children / attributes
    pairs = VT.problem_pairs(rng, thorough)
    ctx.extra["problem_pairs"] = len(pairs)
    coq_pair_labels = set(lbl for lbl, _ in rng.sample(pairs, min(len(pairs), 600 if thorough else 160)))
    for lbl, t in pairs:
        trees.append(("pair", t, [lbl]))
    for lbl, t in VT.wide_trees(rng):
        trees.append(("wide", t, [lbl]))
    coq_cases, coq_wants, coq_meta = [], [], []
    max_depth = 0
    for origin, t, ops in trees:
        root = VT.build_tree(t)
        nodes = all_nodes(root)
        ids = {id(n) for n in nodes}
        ff, codes, problems = statement(lambda errs: validate.tree(root, errs), ids)
        hung = any(k.startswith("nontermination") for k, _ in problems)
        if VT.TIMEOUTS > 20:
            ctx.note("more than 20 validations did not terminate; remaining trees skipped")
            for key, what in problems:
                ctx.fail("C04:" + key, what, {"kind": "impl-vs-statement", "call": "validate.tree", "tree": t, "edits": ops, "observed_ff": ff, "observed_codes": codes[:20]})
            break
        surrogate = VT.has_lone_surrogate(t)
        d = VT.depth(t)
        max_depth = max(max_depth, d)
        ctx.case(repr(t), ff != "OK")
        ctx.count("origin:" + origin)
        ctx.count("outcome:" + ff)
        ctx.count("depth>=50" if d >= 50 else "depth<50")
        if surrogate:
            ctx.count("with_lone_surrogate")
        for key, what in problems:
            ctx.fail("C04:" + key + (":lone-surrogate" if surrogate else ""), what,
                     {"kind": "impl-vs-statement", "call": "validate.tree", "tree": t, "edits": ops, "observed_ff": ff, "observed_codes": codes})
        for n in ([] if hung else rng.sample(nodes, min(1 if origin == "pair" else 3, len(nodes)))):
            ffn, codesn, problems_n = statement(lambda errs, n=n: validate.node(n, errs), ids)
            ctx.case()
            for key, what in problems_n:
                ctx.fail("C04:node:" + key + (":lone-surrogate" if surrogate else ""), what,
                         {"kind": "impl-vs-statement", "call": "validate.node", "tree": t, "node_name": n.name, "node_content": n.content,
                          "node_attributes": list(n.attributes.items()), "node_children": [c.name for c in n.children],
                          "observed_ff": ffn, "observed_codes": codesn})
        Node.store.clear()
        # history: repeated validation of the same objects (second collecting call, non-empty list, in-place edits)
        if not hung and (origin not in ("eml.xml", "pair", "wide") or rng.random() < (0.3 if origin == "eml.xml" else 0.04)):
            call = rng.choice(["tree", "tree", "node"])
            for step, what, details in VT.history_problems(rng, t, call=call, pool=pool, n_edits=1 if VT.size(t) > 40 else 2):
                ctx.fail("C04:history:" + call + ":" + step.split("/")[-1], what, dict(details, edits=ops))
            ctx.case()
            ctx.count("history_sequences")
        ctx.sample({"origin": origin, "size": VT.size(t), "depth": d, "edits": ops, "ff": ff, "codes": codes[:6]}, limit=8)
        if origin == "pair":
            in_b = ops[0] in coq_pair_labels
        elif origin == "wide":
            in_b = VT.size(t) <= 258 and ops[0] in ("wide:metadata", "wide:attributes", "wide:keywordSet", "wide:max-exceeded")
        else:
            in_b = VT.size(t) <= 40 and len(coq_cases) < n_coq and (origin != "subtree" or ops)
        if in_b and not hung:
            coq_cases.append(RL.coq_tcase(t))
            coq_wants.append(RL.coq_outcome((ff, codes)))
            coq_meta.append({"tree": t, "edits": ops, "observed": [ff, codes]})
    ctx.extra["max_nesting_depth"] = max_depth
    # every element whose rule constrains content beyond "empty" x the whole pool, as a single node
    # (drives every content error branch of every typed rule in both modes)
    rules = RL.live_rules()
    typed = {}
    for name, rname in R.node_mappings.items():
        if rname in rules and rules[rname][2].get("content_rules") != ["emptyContent"]:
            typed.setdefault(name if thorough else rname, name)
    ncases, nwants, nmeta = [], [], []
    for name in typed.values():
        rj = rules[R.node_mappings[name]]
        attrs = [(k, (sp[1] if len(sp) > 1 else "v")) for k, sp in rj[0].items() if sp[0] is True]
        for content in pool:
            n = VT.build_node(name, content, attrs, [])
            ffn, codesn, problems_n = statement(lambda errs, n=n: validate.node(n, errs), {id(n)})
            Node.store.clear()
            surrogate = content is not None and C02.has_surrogate(content)
            ctx.case(("leaf", R.node_mappings[name], content), ffn != "OK")
            ctx.count("typed_leaf_nodes")
            for key, what in problems_n:
                ctx.fail("C04:leaf:" + key + (":lone-surrogate" if surrogate else ""), what,
                         {"kind": "impl-vs-statement", "call": "validate.node", "node_name": name, "node_content": content,
                          "node_attributes": attrs, "node_children": [], "observed_ff": ffn, "observed_codes": codesn})
            if rng.random() < (0.08 if not thorough else 0.05):
                ncases.append(RL.coq_ncase(name, content, attrs, []))
                nwants.append(RL.coq_outcome((ffn, codesn)))
                nmeta.append({"node_name": name, "node_content": content, "node_attributes": attrs, "observed": [ffn, codesn]})
    ctx.extra["typed_element_names"] = len(typed)
    badn, errorsn = RL.coq_compare(ctx, "corrN", "run_ncase tb", ncases, nwants)
    for name, out in errorsn:
        ctx.fail("corr:coq-error", f"case file {name} did not evaluate", {"kind": "broken-correspondence", "file": name, "output": out}, concrete=False)
    for i in badn[:3]:
        ctx.fail("corr:node", "model and implementation disagree on a single node",
                 {"kind": "broken-correspondence", "theorem": "C04 (model/implementation correspondence)", "case": nmeta[i],
                  "model": RL.coq_show(ctx, "corrN", "run_ncase tb", ncases[i])}, concrete=False)
    bad, errors = RL.coq_compare(ctx, "corr", "run_tcase tb", coq_cases, coq_wants, shard=50)
    ctx.extra["traces_validated_against_impl"] = (len(coq_cases) - len(bad) if not errors else 0) + (len(ncases) - len(badn) if not errorsn else 0)
    for name, out in errors:
        ctx.fail("corr:coq-error", f"case file {name} did not evaluate", {"kind": "broken-correspondence", "file": name, "output": out}, concrete=False)
    for i in bad[:3]:
        ctx.fail("corr:tree", "model and implementation disagree on a whole tree",
                 {"kind": "broken-correspondence", "theorem": "C04 (model/implementation correspondence)", "case": coq_meta[i],
                  "model": RL.coq_show(ctx, "corr", "run_tcase tb", coq_cases[i])}, concrete=False)
    changed = VT.table_diff()
    if changed:
        ctx.fail("C04:history:table-mutated", f"validation changed the live rule table (differs from rules.json): {changed[:5]}",
                 {"kind": "impl-vs-statement", "rules_changed": changed})
    if not built:
        ctx.obligations_failed("validated adversarial mutations of EML trees in both modes")


def replay(ctx, data):
    import json
    from metapype.eml import validate
    from metapype.model.node import Node
    r = data.get("replay", {})
    if r.get("kind") != "impl-vs-statement":
        print(json.dumps(data, indent=1)[:4000])
        return run(ctx)
    if "history" in r:
        import random
        call = r.get("call", "validate.tree").split(".")[-1]
        found = []
        for k in range(20):
            found = VT.history_problems(random.Random(k), r["tree"], call=call)
            if found:
                break
        print(f"history replay of validate.{call}: {'still differs: ' + found[0][1] if found else 'same objects and fresh tree agree'}")
        ctx.case()
        for step, what, details in found[:1]:
            ctx.fail(data.get("key", "C04:history"), what, details)
        return
    if "tree" in r and r.get("call") == "validate.tree":
        root = VT.build_tree(r["tree"])
        ids = {id(n) for n in all_nodes(root)}
        ff, codes, problems = statement(lambda errs: validate.tree(root, errs), ids)
    elif "tree" in r:
        root = VT.build_tree(r["tree"])
        nodes = all_nodes(root)
        ids = {id(n) for n in nodes}
        ff, codes, problems = "OK", [], []
        for n in nodes:
            f2, c2, p2 = statement(lambda errs, n=n: validate.node(n, errs), ids)
            if p2:
                ff, codes, problems = f2, c2, p2
                break
    else:
        n = VT.build_node(r["node_name"], r["node_content"], [tuple(a) for a in r["node_attributes"]], r["node_children"])
        ff, codes, problems = statement(lambda errs: validate.node(n, errs), {id(n)})
    Node.store.clear()
    print(f"observed ff={ff} codes={codes}; problems={problems}")
    ctx.case()
    for key, what in problems:
        ctx.fail(data.get("key", "C04:" + key), what, dict(r, observed_ff=ff, observed_codes=codes))

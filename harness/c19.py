"""C19 — evaluation is total and reports exactly the documented recommendations.

(B) the Gallina model (Model/Evaluate.v, instantiated with the generated dispatch / code
    tables) is evaluated inside Coq on the same trees as evaluate.tree / evaluate.node and
    compared on (code name, node id) lists, per-node results and crash class; the Coq Spec
    (Spec/Recommend.v: expected_at) is compared with the implementation on every tree that
    satisfies the hypothesis of C19_exact (shape_ok).
(S) the property statement on the implementation, with a plain-Python oracle written from
    the property text: never raises, appends only (EvaluationWarning member, str, Node)
    triples, leaves earlier entries alone, and the codes per node are the ones the
    recommendations imply."""
import copy
import os

from harness import common
from harness.common import cstr, copt, clist, cpair

HEADER = ("From MP Require Import Common.Base Common.Tree Gen.Tables Model.PyString Model.Evaluate "
          "Spec.Recommend Model.EvaluateRun.\n")
NBSP = "\xa0"
ORCID = "https://orcid.org"
PARTIES = ["associatedParty", "contact", "creator", "metadataProvider", "personnel"]
DESC_PARENTS = {
    "connectionDefinition": "CONNECTION_DEFINITION_DESCRIPTION_MISSING",
    "designDescription": "DESIGN_DESCRIPTION_DESCRIPTION_MISSING",
    "maintenance": "MAINTENANCE_DESCRIPTION_MISSING",
    "methodStep": "METHOD_STEP_DESCRIPTION_MISSING",
    "procedureStep": "PROCEDURE_STEP_DESCRIPTION_MISSING",
    "qualityControl": "QUALITY_CONTROL_DESCRIPTION_MISSING",
    "samplingDescription": "SAMPLING_DESCRIPTION_DESCRIPTION_MISSING",
    "studyExtent": "STUDY_EXTENT_DESCRIPTION_MISSING",
}
VOCAB = ["alpha", "beta", "gamma", "delta", "soil", "lake", "2019", "N2O", "flux", "data"]


# ------------------------------------------------------------------ snapshots
def E(name, content=None, attrs=None, kids=None):
    return {"name": name, "content": content, "attrs": [list(a) for a in (attrs or [])], "kids": list(kids or [])}


def assign_ids(t, counter=None, tag="n"):
    counter = counter if counter is not None else [0]
    t["id"] = f"{tag}{counter[0]}"
    counter[0] += 1
    for k in t["kids"]:
        assign_ids(k, counter, tag)
    return t


def preorder(t, parent=None):
    yield t, parent
    for k in t["kids"]:
        yield from preorder(k, t)


def fresh(x):
    """a NEW str object with the same characters (never a shared literal / interned constant)"""
    return None if x is None else "".join(list(x)) if len(x) != 1 else (x + "#")[:1]


def build_impl(snap, parent=None):
    from metapype.model.node import Node
    n = Node(fresh(snap["name"]), id=fresh(snap["id"]), content=fresh(snap["content"]))
    for k, v in snap["attrs"]:
        n.add_attribute(fresh(k), fresh(v))
    n.parent = parent
    for k in snap["kids"]:
        n.children.append(build_impl(k, n))
    return n


def coq_tree(t):
    attrs = clist(cpair(cstr(k), cstr(v)) for k, v in t["attrs"])
    return f"(mk {cstr(t['id'])} {cstr(t['name'])} {copt(t['content'])} {attrs} {clist(coq_tree(k) for k in t['kids'])})"


# ------------------------------------------------------------------ words
def sentence(rng, k, style="single"):
    ws = [rng.choice(VOCAB) for _ in range(k)]
    if style == "single":
        return " ".join(ws)
    out = ""
    for i, w in enumerate(ws):
        if i:
            if style == "multi":
                out += rng.choice([" ", "  ", "   "])
            elif style == "nbsp":
                out += rng.choice([NBSP, " " + NBSP, NBSP + " ", NBSP + NBSP])
            elif style == "mixed":
                out += rng.choice([" ", "\n", "\t", " \n  ", NBSP, "\n\n", "\t "])
            elif style == "tab":
                out += rng.choice(["\t", "\n", " "])
            else:
                out += " "
        out += w
    if style in ("multi", "nbsp", "mixed") and rng.random() < 0.5:
        out = rng.choice([" ", NBSP, "  "]) + out + rng.choice([" ", NBSP, "\n "])
    return out


def ws_words(x):
    out, cur = [], ""
    for ch in x or "":
        if ch.isspace():
            if cur:
                out.append(cur)
            cur = ""
        else:
            cur += ch
    if cur:
        out.append(cur)
    return out


# ------------------------------------------------------------------ generator: element variants
def individual_name(given, sur):
    kids = []
    if given is not None:
        kids.append(E("givenName", given))
    if sur is not None:
        kids.append(E("surName", sur))
    return E("individualName", kids=kids)


def party(kind, rng, given="Ann", sur="Lee", userid=None, email=None, org=False):
    kids = [E("organizationName", "Org")] if org else [individual_name(given, sur)]
    if email is not None:
        kids.append(E("electronicMailAddress", email))
    if userid == "orcid":
        kids.append(E("userId", "0000-0001", [("directory", ORCID)]))
    elif userid == "other":
        kids.append(E("userId", "u17", [("directory", "https://example.org")]))
    elif userid == "orcid-empty":
        kids.append(E("userId", "", [("directory", ORCID)]))
    elif userid == "orcid-none":
        kids.append(E("userId", None, [("directory", ORCID)]))
    elif userid == "nodir":
        kids.append(E("userId", "u18"))
    elif userid == "both":
        kids.append(E("userId", "u17", [("directory", "https://example.org")]))
        kids.append(E("userId", "0000-0002", [("directory", ORCID)]))
    elif userid == "orcid-then-other":
        kids.append(E("userId", "0000-0002", [("directory", ORCID)]))
        kids.append(E("userId", "u17", [("directory", "https://example.org/")]))
    if kind in ("associatedParty", "personnel"):
        kids.append(E("role", "author"))
    return E(kind, kids=kids)


USERIDS = [None, "orcid", "other", "orcid-empty", "orcid-none", "nodir", "both", "orcid-then-other"]
EMAILS = [None, "a@b.org", ""]
GIVENS = ["Ann", None, ""]
SURS = ["Lee", "", None]


def text_element(name, rng, total, shape):
    """A TextType element (abstract, description, intellectualRights) with `total` words spread
    according to `shape`."""
    style = rng.choice(["single", "multi", "nbsp", "mixed"])
    if shape == "content":
        return E(name, sentence(rng, total, style))
    if shape == "empty":
        return E(name)
    if shape == "empty-string":
        return E(name, "")
    if shape == "blank":
        return E(name, " \n ")
    if shape == "para-none":           # para without own text, inline child carries words that do not count
        return E(name, kids=[E("para", None, kids=[E("emphasis", sentence(rng, 25))])])
    if shape == "para-empty":
        return E(name, kids=[E("para", "")])
    if shape == "section-only":        # sections without any para (invalid, but known names)
        return E(name, kids=[E("section", kids=[E("title", "Heading words do not count at all " * 4)])])
    # distribute over parts
    parts = {"paras": 2, "mixed": 4, "deep": 3, "markdown": 1}[shape]
    cuts = sorted(rng.randint(0, total) for _ in range(parts - 1))
    sizes = [b - a for a, b in zip([0] + cuts, cuts + [total])]
    if shape == "paras":
        return E(name, kids=[E("para", sentence(rng, sizes[0], style)), E("para", sentence(rng, sizes[1], style))])
    if shape == "markdown":
        return E(name, kids=[E("markdown", sentence(rng, sizes[0], style))])
    if shape == "mixed":
        return E(name, sentence(rng, sizes[0], style) or None, kids=[
            E("para", sentence(rng, sizes[1], style), kids=[E("emphasis", "inline words are not counted")]),
            E("para", None, kids=[E("subscript", "x")]),
            E("markdown", sentence(rng, sizes[2], style)),
            E("section", kids=[E("title", "Section title"), E("para", sentence(rng, sizes[3], style))])])
    if shape == "deep":
        return E(name, kids=[
            E("section", kids=[E("section", kids=[E("para", sentence(rng, sizes[0], style))]),
                               E("para", sentence(rng, sizes[1], style))]),
            E("para", sentence(rng, sizes[2], style), kids=[E("itemizedlist", kids=[E("listitem", kids=[E("para", "")])])])])
    raise ValueError(shape)


TEXT_SHAPES = ["content", "paras", "mixed", "deep", "markdown"]
EMPTY_SHAPES = ["empty", "empty-string", "blank", "para-none", "para-empty", "section-only"]


def attribute_list():
    return E("attributeList", kids=[E("attribute", kids=[
        E("attributeName", "site"), E("attributeDefinition", "Site code"),
        E("measurementScale", kids=[E("nominal", kids=[E("nonNumericDomain", kids=[E("textDomain", kids=[E("definition", "text")])])])])])])


def text_format(rds):
    kids = [E("recordDelimiter", c) for c in rds]
    kids += [E("attributeOrientation", "column"), E("simpleDelimited", kids=[E("fieldDelimiter", ",")])]
    return E("textFormat", kids=kids)


def physical(rng, size="12", auths=("abc",), fmt="text", tf_rds=("\\n",), direct_rds=()):
    kids = [E("objectName", "f.csv")]
    if size is not False:
        kids.append(E("size", size, [("unit", "byte")]))
    for a in auths:
        kids.append(E("authentication", a, [("method", "MD5")]))
    for c in direct_rds:
        kids.append(E("recordDelimiter", c))
    if fmt == "text":
        kids.append(E("dataFormat", kids=[text_format(tf_rds)]))
    elif fmt == "external":
        kids.append(E("dataFormat", kids=[E("externallyDefinedFormat", kids=[E("formatName", "netCDF")])]))
    elif fmt == "two":
        kids.append(E("dataFormat", kids=[E("externallyDefinedFormat", kids=[E("formatName", "netCDF")])]))
        kids.append(E("dataFormat", kids=[text_format(tf_rds)]))
    elif fmt == "empty":
        kids.append(E("dataFormat"))
    return E("physical", kids=kids)


def data_table(rng, desc="Table of sites", physicals=None, nrec="10"):
    kids = [E("entityName", "sites")]
    if desc is not False:
        kids.append(E("entityDescription", desc))
    kids += physicals if physicals is not None else [physical(rng)]
    kids.append(attribute_list())
    if nrec is not False:
        kids.append(E("numberOfRecords", nrec))
    return E("dataTable", kids=kids)


def other_entity(desc="A zip file"):
    kids = [E("entityName", "zip")]
    if desc is not False:
        kids.append(E("entityDescription", desc))
    kids.append(E("entityType", "archive"))
    return E("otherEntity", kids=kids)


def coverage(kind):
    if kind == "empty":
        return E("coverage")
    if kind == "temporal":
        return E("coverage", kids=[E("temporalCoverage", kids=[E("singleDateTime", kids=[E("calendarDate", "2020")])])])
    return E("coverage", kids=[E("geographicCoverage", kids=[
        E("geographicDescription", "Somewhere"),
        E("boundingCoordinates", kids=[E("westBoundingCoordinate", "-100.0"), E("eastBoundingCoordinate", "-99.0"),
                                       E("northBoundingCoordinate", "45.0"), E("southBoundingCoordinate", "44.0")])])])


def keyword_sets(rng, counts):
    return [E("keywordSet", kids=[E("keyword", rng.choice(VOCAB)) for _ in range(c)] +
              ([E("keywordThesaurus", "LTER")] if rng.random() < 0.3 else [])) for c in counts]


def methods(rng, desc_shape, words=6, with_sampling=False, with_qc=False):
    kids = [E("methodStep", kids=[text_element("description", rng, words, desc_shape)])]
    if with_sampling:
        kids.append(E("sampling", kids=[
            E("studyExtent", kids=[text_element("description", rng, 3, rng.choice(TEXT_SHAPES + EMPTY_SHAPES))]),
            text_element("samplingDescription", rng, 4, "paras")]))
    if with_qc:
        kids.append(E("qualityControl", kids=[text_element("description", rng, 2, rng.choice(TEXT_SHAPES + EMPTY_SHAPES))]))
    return E("methods", kids=kids)


def project(rng, title_words=3):
    return E("project", kids=[E("title", sentence(rng, title_words)),
                              party("personnel", rng, userid=rng.choice(USERIDS), email=rng.choice(EMAILS))])


def dataset(rng, *, title, abstract=None, keywords=(), cov=None, tables=(), rights=None, meth=None, proj=None,
            maint=None, extra_parties=(), creator=None, contact=None):
    kids = [E("title", title)]
    kids.append(creator or party("creator", rng))
    kids += list(extra_parties)
    if abstract is not None:
        kids.append(abstract)
    kids += keyword_sets(rng, keywords)
    if rights is not None:
        kids.append(rights)
    if cov is not None:
        kids.append(coverage(cov))
    if maint is not None:
        kids.append(maint)
    kids.append(contact or party("contact", rng))
    if meth is not None:
        kids.append(meth)
    if proj is not None:
        kids.append(proj)
    kids += list(tables)
    return E("dataset", kids=kids)


def eml(ds):
    return E("eml", attrs=[("packageId", "edi.1.1"), ("system", "https://pasta.edirepository.org")], kids=[ds])


# ------------------------------------------------------------------ positions: every dispatched element under every ancestor chain the rules allow
def _is_elem(item):
    return isinstance(item, list) and len(item) == 3 and isinstance(item[0], str)


def _is_choice(item):
    return isinstance(item, list) and not _is_elem(item) and len(item) >= 3 and \
        (item[-1] is None or isinstance(item[-1], int)) and isinstance(item[-2], int) and not isinstance(item[-1], bool)


def _names_in(item):
    if _is_elem(item):
        return {item[0]}
    out = set()
    for sub in (item[:-2] if _is_choice(item) else item):
        if isinstance(sub, list):
            out |= _names_in(sub)
    return out


class RuleGraph:
    """The live rule table as a graph element -> allowed child elements, with minimal-tree costs."""

    def __init__(self):
        from metapype.eml import rule as R
        self.R = R
        self.rules = {}
        for el, rn in R.node_mappings.items():
            if rn in R.rules_dict:
                self.rules[el] = R.rules_dict[rn]
        self.kids = {el: sorted(n for n in _names_in(r[1]) if n in self.rules) for el, r in self.rules.items()}
        INF = 10 ** 9
        self.cost = {el: INF for el in self.rules}
        for _ in range(40):
            changed = False
            for el, r in self.rules.items():
                c = 1 + min(10 ** 9, self._cost_item(r[1]) if r[1] else 0)
                if c < self.cost[el]:
                    self.cost[el] = c
                    changed = True
            if not changed:
                break

    def _cost_item(self, item):
        if _is_elem(item):
            return item[1] * self.cost.get(item[0], 10 ** 9)
        if _is_choice(item):
            if item[-2] == 0:
                return 0
            return item[-2] * min(self._cost_item(a) if not _is_elem(a) else max(1, a[1]) * self.cost.get(a[0], 10 ** 9) for a in item[:-2])
        return self._cost_seq(item)

    def _cost_seq(self, items):
        return min(10 ** 9, sum(self._cost_item(i) for i in items))

    # --- chains
    def chains_to(self, start, target, max_len, cap=4000):
        """simple paths start -> ... -> target (by increasing length), at most `cap` queue pops"""
        from collections import deque
        out, q, pops = [], deque([[start]]), 0
        while q and pops < cap:
            pth = q.popleft()
            pops += 1
            if pth[-1] == target and len(pth) > 1:
                out.append(pth)
                continue
            if len(pth) >= max_len:
                continue
            for k in self.kids.get(pth[-1], []):
                if k not in pth or k == target:
                    q.append(pth + [k])
        return out

    # --- minimal valid tree containing a chain
    def element(self, name, chain=(), bare_leaf=False):
        """A smallest tree for `name` satisfying its rule; when `chain` is non-empty its first element is placed as a child
        (at a position the rule allows) and the rest of the chain below it."""
        r = self.rules.get(name)
        if r is None:
            return E(name)
        from harness import rulelib as RL
        if bare_leaf and not chain:
            return E(name)
        attrs = [(k, (spec[1] if len(spec) > 1 else "v")) for k, spec in r[0].items() if spec and spec[0] is True]
        self._placed = False
        kids = self._build_item(r[1], list(chain), bare_leaf) if r[1] else []
        return E(name, RL.canonical_content(r), attrs, kids)

    def _build_item(self, item, chain, bare_leaf):
        forced = chain[0] if chain else None
        if _is_elem(item):
            n, lo, hi = item
            out = []
            count = lo
            use_forced = forced == n and not self._placed and (hi is None or hi >= 1)
            if use_forced:
                count = max(lo, 1)
            for i in range(count):
                if use_forced and i == 0:
                    self._placed = True
                    placed_save = self._placed
                    out.append(self.element(n, chain[1:], bare_leaf))
                    self._placed = placed_save
                else:
                    save = self._placed
                    out.append(self.element(n))
                    self._placed = save
            return out
        if _is_choice(item):
            alts, lo = item[:-2], item[-2]
            out = []
            n_occ = lo
            if forced is not None and not self._placed:
                for a in alts:
                    if forced in _names_in(a):
                        out += self._build_item([a[0], max(1, a[1]), a[2]] if _is_elem(a) else a, chain, bare_leaf)
                        n_occ = max(0, lo - 1)
                        break
            if n_occ > 0:
                best = min(alts, key=lambda a: self._cost_item([a[0], max(1, a[1]), a[2]]) if _is_elem(a) else self._cost_item(a))
                for _ in range(n_occ):
                    out += self._build_item([best[0], max(1, best[1]), best[2]] if _is_elem(best) else best, [], False)
            return out
        return self._build_seq(item, chain, bare_leaf)

    def _build_seq(self, items, chain, bare_leaf):
        out = []
        for it in items:
            out += self._build_item(it, chain if not self._placed else [], bare_leaf)
        return out


def chain_skeleton(chain, leaf):
    """known-names-only tree: every ancestor has just the next chain element as its child"""
    t = leaf
    for name in reversed(chain[:-1]):
        t = E(name, kids=[t])
    return t


def position_cases(ctx):
    """Every dispatched element below every kind of ancestor chain the live rule table allows."""
    from metapype.eml import evaluate
    rng = ctx.rng
    thorough = ctx.tier == "thorough"
    g = RuleGraph()
    keys = sorted(evaluate.rules)
    for key in keys:
        chains = []
        for start in ("eml", "dataset"):
            chains += g.chains_to(start, key, 9 if thorough else 8, cap=20000 if thorough else 6000)
        if not chains:
            ctx.count("positions:no_chain:" + key)
            continue
        chains.sort(key=len)
        # distinct by the set of intermediate ancestors: every ancestor element that can occur above `key` is used at least once
        chosen, seen_anc = [], set()
        for c in chains:
            new = set(c[1:-1]) - seen_anc
            if new:
                chosen.append(c)
                seen_anc |= new
        extra = [c for c in chains if c not in chosen]
        rng.shuffle(extra)
        chosen += chains[:3] + extra[: (40 if thorough else 8)]
        ctx.count("positions:ancestors_covered:" + key, len(seen_anc))
        done = set()
        for c in chosen:
            if tuple(c) in done:
                continue
            done.add(tuple(c))
            # (a) known names only: bare chain, leaf without children (produces the element's warnings)
            yield "position:bare:" + key + ":" + ">".join(c), chain_skeleton(c, E(key)), []
            # (b) smallest tree the rules accept around the chain; leaf in its smallest valid form and as a bare element
            for bare_leaf in (False, True):
                try:
                    tree = g.element(c[0], c[1:], bare_leaf)
                except RecursionError:
                    continue
                if sum(1 for _ in preorder(tree)) <= 400:
                    yield ("position:rule:" if not bare_leaf else "position:rule-bare-leaf:") + key + ":" + ">".join(c), tree, []


# ------------------------------------------------------------------ case generation
def full_dataset(rng, **over):
    """A rich, valid dataset; keyword arguments override single parts."""
    args = dict(title=sentence(rng, 6), abstract=text_element("abstract", rng, 22, "paras"), keywords=(3, 3), cov="temporal",
                tables=(data_table(rng),), rights=text_element("intellectualRights", rng, 4, "content"),
                meth=methods(rng, "paras"), proj=project(rng))
    args.update(over)
    return dataset(rng, **args)


def gen_cases(ctx):
    """Yield (label, root snapshot (ids not yet assigned), path of the evaluated node)."""
    rng = ctx.rng
    thorough = ctx.tier == "thorough"
    # --- titles around the threshold, in a dataset (parent = dataset) and elsewhere
    for k in (0, 1, 3, 4, 5, 6):
        for style in ("single", "multi", "nbsp", "mixed", "tab"):
            t = sentence(rng, k, style)
            yield f"title:{k}:{style}", E("dataset", kids=[E("title", t)]), []
    for t in ("", " ", NBSP, " a  b c d ", "a b c d e", "a\tb c d e", "a\nb c d e", "a" + NBSP + "b c d e", "a b c d e", None):
        yield "title:edge", E("dataset", kids=[E("title", t)]), []
        yield "title:edge:root", E("title", t), []
        yield "title:edge:project", E("project", kids=[E("title", t)]), []
    # --- abstracts around the threshold
    shapes = TEXT_SHAPES
    for total in (0, 1, 18, 19, 20, 21):
        for shape in shapes:
            yield f"abstract:{total}:{shape}", dataset(rng, title=sentence(rng, 5), abstract=text_element("abstract", rng, total, shape)), []
    for shape in EMPTY_SHAPES:
        yield f"abstract:{shape}", dataset(rng, title=sentence(rng, 5), abstract=text_element("abstract", rng, 0, shape)), []
        yield f"rights:{shape}", dataset(rng, title=sentence(rng, 5), rights=text_element("intellectualRights", rng, 0, shape)), []
    for shape in shapes:
        yield f"rights:{shape}", dataset(rng, title=sentence(rng, 5), rights=text_element("intellectualRights", rng, 3, shape)), []
    # --- keywords
    for counts in ((), (0,), (4,), (5,), (6,), (2, 2), (2, 3), (3, 3), (0, 5), (1, 1, 1, 1), (1, 1, 1, 1, 1)):
        yield f"keywords:{sum(counts)}:{len(counts)}", dataset(rng, title=sentence(rng, 5), keywords=counts), []
    # --- sizes past the small-int cache: more than 256 keywords / keyword sets / parties / paras in one dataset
    for counts in ((255,), (256,), (257,), (300,), tuple([0] * 260), tuple([0] * 256 + [4]), tuple([0] * 256 + [5]), tuple([1] * 257)):
        yield f"keywords:big:{sum(counts)}:{len(counts)}", dataset(rng, title=sentence(rng, 5), keywords=counts), []
    yield "dataset:big:creators", dataset(rng, title=sentence(rng, 5),
                                          extra_parties=tuple(party("creator", rng, userid=rng.choice(USERIDS), email=rng.choice(EMAILS))
                                                              for _ in range(260))), []
    yield "abstract:big:paras", dataset(rng, title=sentence(rng, 5),
                                        abstract=E("abstract", kids=[E("para", "w") for _ in range(19)] + [E("para", None) for _ in range(257)])), []
    yield "abstract:big:paras20", dataset(rng, title=sentence(rng, 5),
                                          abstract=E("abstract", kids=[E("para", None) for _ in range(257)] + [E("para", "w") for _ in range(20)])), []
    yield "title:big", E("dataset", kids=[E("title", sentence(rng, 300, "multi"))]), []
    yield "party:big:userIds", E("creator", kids=[E("userId", "u%d" % i, [("directory", "https://example.org")]) for i in range(257)] +
                                 [E("userId", "0000-0003", [("directory", ORCID)])]), []
    yield "table:big:physical", E("dataTable", kids=[E("entityName", "n")] + [E("alternateIdentifier", "a%d" % i) for i in range(260)] +
                                  [physical(rng), E("numberOfRecords", "3")]), []
    # --- coverage / tables / methods / project present or absent
    for cov in (None, "empty", "temporal", "geographic"):
        yield f"coverage:{cov}", dataset(rng, title=sentence(rng, 5), cov=cov), []
    yield "dataset:minimal", dataset(rng, title=sentence(rng, 5)), []
    yield "dataset:other-entity-only", dataset(rng, title=sentence(rng, 5), tables=(other_entity(),)), []
    yield "dataset:full", eml(full_dataset(rng)), []
    yield "dataset:full:subtree", eml(full_dataset(rng)), [0]
    yield "dataset:full:none-missing", eml(full_dataset(
        rng, creator=party("creator", rng, userid="orcid", email="a@b.org"),
        contact=party("contact", rng, userid="orcid", email="c@d.org"),
        proj=E("project", kids=[E("title", "P"), party("personnel", rng, userid="orcid", email="e@f.org")]))), []
    # --- responsible parties
    for kind in PARTIES + ["publisher"]:
        for uid in USERIDS:
            for em in EMAILS:
                if not thorough and rng.random() < 0.55:
                    continue
                yield f"party:{kind}:{uid}:{em}", party(kind, rng, userid=uid, email=em, org=rng.random() < 0.2), []
    for g in GIVENS:
        for sn in SURS:
            yield f"name:{g}:{sn}", party("creator", rng, given=g, sur=sn), []
            yield f"name:{g}:{sn}:root", individual_name(g, sn), []
    yield "name:two-given", E("individualName", kids=[E("givenName", ""), E("givenName", "B"), E("surName", "C")]), []
    # --- data tables
    opts_size = ["12", "", None, False]
    opts_auth = [("abc",), (), ("",), ("abc", "def"), ("abc", ""), ("", "abc"), (None,)]
    opts_fmt = ["text", "external", "two", "empty", None]
    opts_tfrd = [("\\n",), (), ("",), ("\\n", "\\r"), ("", "\\n"), ("\\n", "")]
    opts_drd = [(), ("\\r\\n",), ("",), ("a", ""), ("", "a")]
    combos = []
    for sz in opts_size:
        combos.append(dict(size=sz))
    for a in opts_auth:
        combos.append(dict(auths=a))
    for f in opts_fmt:
        for tr in opts_tfrd:
            for dr in opts_drd:
                combos.append(dict(fmt=f, tf_rds=tr, direct_rds=dr))
    for c in combos:
        if not thorough and len(c) == 3 and rng.random() < 0.5:
            continue
        yield "table:physical:" + repr(sorted(c.items())), data_table(rng, physicals=[physical(rng, **c)]), []
    for desc in ("Table", "", None, False):
        for nrec in ("10", "", None, False):
            yield f"table:desc={desc!r}:nrec={nrec!r}", data_table(rng, desc=desc, nrec=nrec), []
        yield f"other:desc={desc!r}", other_entity(desc), []
    yield "table:no-physical", data_table(rng, physicals=[]), []
    yield "table:two-physical:first-bare", data_table(rng, physicals=[physical(rng, size=False, auths=(), fmt="external"), physical(rng)]), []
    yield "table:two-physical:second-bare", data_table(rng, physicals=[physical(rng), physical(rng, size=False, auths=(), fmt="external")]), []
    yield "table:two-desc", E("dataTable", kids=[E("entityDescription", ""), E("entityDescription", "x"), E("numberOfRecords", ""), E("numberOfRecords", "3")]), []
    # --- descriptions under every listed parent, elsewhere, and as a root
    for parent in list(DESC_PARENTS) + ["project", "dataset", "description"]:
        for shape in EMPTY_SHAPES + ["content", "paras", "markdown"]:
            if not thorough and parent not in DESC_PARENTS and rng.random() < 0.6:
                continue
            yield f"description:{parent}:{shape}", E(parent, kids=[text_element("description", rng, 3, shape)]), []
    for shape in EMPTY_SHAPES + ["content"]:
        yield f"description:root:{shape}", text_element("description", rng, 3, shape), []
        yield f"description:sub:{shape}", E("methodStep", kids=[text_element("description", rng, 3, shape)]), [0]
    # --- methods / maintenance inside datasets (valid placements)
    for shape in ("paras", "empty", "para-none", "content"):
        yield f"methods:{shape}", dataset(rng, title=sentence(rng, 5), meth=methods(rng, shape, with_sampling=True, with_qc=True),
                                          maint=E("maintenance", kids=[text_element("description", rng, 2, shape)])), []
    # --- random rich datasets and their mutations
    n_rand = 400 if thorough else 40
    for i in range(n_rand):
        strict = rng.random() < 0.6          # only choices that keep the tree valid
        uids = ([None, "orcid", "other", "both", "orcid-then-other"] if strict else USERIDS)
        ems = [None, "a@b.org"] if strict else EMAILS
        shapes_ok = TEXT_SHAPES if strict else TEXT_SHAPES + EMPTY_SHAPES
        o_size = ["12", False] if strict else opts_size
        o_auth = [("abc",), (), ("abc", "def")] if strict else opts_auth
        o_fmt = ["text", "external"] if strict else opts_fmt
        o_tfrd = [("\\n",), (), ("\\n", "\\r")] if strict else opts_tfrd
        o_drd = [()] if strict else opts_drd
        o_desc = ["d", False] if strict else ["d", "", False]
        o_nrec = ["3", False] if strict else ["3", "", False]

        def rand_party(kind):
            return party(kind, rng, given=rng.choice(["Ann", None] if strict else GIVENS), sur=rng.choice(["Lee"] if strict else SURS),
                         userid=rng.choice(uids), email=rng.choice(ems))
        ds = full_dataset(
            rng,
            title=sentence(rng, rng.choice([3, 4, 5, 6]), rng.choice(["single", "multi", "nbsp", "mixed", "tab"])),
            abstract=rng.choice([None, text_element("abstract", rng, rng.choice([1, 18, 19, 20, 21, 30]), rng.choice(TEXT_SHAPES)),
                                 text_element("abstract", rng, 0, rng.choice(shapes_ok))]),
            keywords=rng.choice([(), (4,), (5,), (2, 3), (6,), (1, 1)]),
            cov=rng.choice([None, "temporal", "geographic"] + ([] if strict else ["empty"])),
            tables=tuple(rng.choice([data_table(rng, desc=rng.choice(o_desc), nrec=rng.choice(o_nrec),
                                                physicals=[physical(rng, size=rng.choice(o_size), auths=rng.choice(o_auth),
                                                                    fmt=rng.choice(o_fmt), tf_rds=rng.choice(o_tfrd),
                                                                    direct_rds=rng.choice(o_drd))
                                                           for _ in range(rng.choice([0, 1, 1, 2]))]),
                                     other_entity(rng.choice(o_desc))]) for _ in range(rng.choice([0, 1, 2]))),
            rights=rng.choice([None, text_element("intellectualRights", rng, 3, rng.choice(shapes_ok))]),
            meth=rng.choice([None, methods(rng, rng.choice(shapes_ok), with_sampling=rng.random() < 0.5, with_qc=rng.random() < 0.5)]),
            proj=rng.choice([None, E("project", kids=[E("title", sentence(rng, rng.choice([2, 6]))), rand_party("personnel")])]),
            creator=rand_party("creator"), contact=rand_party("contact"),
            extra_parties=tuple(rand_party(rng.choice(["metadataProvider", "associatedParty"])) for _ in range(rng.choice([0, 1, 2]))))
        root = eml(ds)
        yield ("random:strict" if strict else "random"), root, []
        for m in range(3 if thorough else 2):
            mut = mutate(rng, copy.deepcopy(root))
            if mut is not None:
                yield "mutant:" + mut[0], mut[1], []


KNOWN_RENAMES = ["abstract", "coverage", "intellectualRights", "keywordSet", "methods", "project", "dataTable", "otherEntity", "physical",
                 "size", "authentication", "dataFormat", "textFormat", "recordDelimiter", "numberOfRecords", "entityDescription", "userId",
                 "electronicMailAddress", "givenName", "surName", "para", "markdown", "section", "title", "description", "creator", "contact",
                 "dataset", "individualName", "keyword", "methodStep", "maintenance", "qualityControl", "studyExtent", "samplingDescription"]


def mutate(rng, root):
    nodes = [(n, p) for n, p in preorder(root) if p is not None]
    if not nodes:
        return None
    n, p = rng.choice(nodes)
    i = next(j for j, k in enumerate(p["kids"]) if k is n)
    op = rng.choice(["drop", "dup", "rename", "dup-edit", "clear", "move"])
    if op == "drop":
        del p["kids"][i]
    elif op == "dup":
        p["kids"].insert(rng.randint(0, len(p["kids"])), copy.deepcopy(n))
    elif op == "dup-edit":
        c = copy.deepcopy(n)
        c["content"] = rng.choice([None, "", "changed text"])
        c["kids"] = c["kids"][: rng.randint(0, len(c["kids"]))]
        p["kids"].insert(rng.choice([i, i + 1, len(p["kids"])]), c)
    elif op == "rename":
        n["name"] = rng.choice(KNOWN_RENAMES)
    elif op == "clear":
        n["content"] = rng.choice([None, "", " "])
    elif op == "move":
        del p["kids"][i]
        q = rng.choice([m for m, _ in preorder(root)])
        q["kids"].insert(rng.randint(0, len(q["kids"])), n)
    return op + ":" + n["name"], root


# ------------------------------------------------------------------ (S) the statement, plain Python
def kids_named(t, name):
    return [k for k in t["kids"] if k["name"] == name]


def own_text(t):
    return t["content"] or ""


def descendants(t):
    for k in t["kids"]:
        yield k
        yield from descendants(k)


def text_blocks(t):
    return [d for d in descendants(t) if d["name"] in ("para", "markdown")]


def all_words(t):
    n = len(ws_words(own_text(t)))
    for b in text_blocks(t):
        n += len(ws_words(own_text(b)))
    return n


def py_shape_ok(t):
    """Hypothesis of C19_exact: what validation guarantees about single-valued children."""
    for n, _ in preorder(t):
        def cnt(x):
            return len(kids_named(n, x))

        def uniform(x):
            return cnt(x) <= 1 or all(k["content"] for k in kids_named(n, x))
        if n["name"] == "dataset" and not (cnt("abstract") <= 1 and cnt("coverage") <= 1 and cnt("intellectualRights") <= 1):
            return False
        if n["name"] == "physical" and not (cnt("size") <= 1 and cnt("dataFormat") <= 1 and uniform("authentication") and uniform("recordDelimiter")):
            return False
        if n["name"] == "textFormat" and not uniform("recordDelimiter"):
            return False
        # (the Coq spec reads THE FIRST numberOfRecords, as the code does; this oracle says "some", so it needs the singleton)
        if n["name"] == "dataTable" and cnt("numberOfRecords") > 1:
            return False
    return True


def expected_node(t, parent):
    """(must, either): `must` = codes the recommendations imply for this element; `either` = groups of
    alternatives where the property text does not decide (an element that is present but carries
    no words: 'missing' or 'too short'/'not empty' are both acceptable readings)."""
    must, either = [], []
    name = t["name"]
    pname = parent["name"] if parent is not None else None
    if name in PARTIES:
        uids = [u for u in kids_named(t, "userId") if u["content"]]
        if not any(dict(map(tuple, u["attrs"])).get("directory") == ORCID for u in uids):
            must.append("ORCID_ID_MISSING")
        if not uids:
            must.append("USER_ID_MISSING")
        if not any(k["content"] for k in kids_named(t, "electronicMailAddress")):
            must.append("EMAIL_MISSING")
    elif name == "individualName":
        if not (any(k["content"] for k in kids_named(t, "givenName")) and any(k["content"] for k in kids_named(t, "surName"))):
            must.append("INDIVIDUAL_NAME_INCOMPLETE")
    elif name == "title":
        if pname == "dataset" and t["content"] is not None:
            natural = len(ws_words(t["content"]))
            by_space = len([w for w in t["content"].replace(NBSP, " ").split(" ") if w.strip()])
            if natural < 5 and by_space < 5:
                must.append("TITLE_TOO_SHORT")
            elif natural < 5 or by_space < 5:
                either.append(("TITLE_TOO_SHORT", None))
    elif name == "description":
        if pname in DESC_PARENTS:
            if not own_text(t) and not text_blocks(t):
                must.append(DESC_PARENTS[pname])
            elif all_words(t) == 0:
                either.append((DESC_PARENTS[pname], None))
    elif name == "otherEntity":
        if not any(k["content"] for k in kids_named(t, "entityDescription")):
            must.append("OTHER_ENTITY_DESCRIPTION_MISSING")
    elif name == "dataTable":
        if not any(k["content"] for k in kids_named(t, "entityDescription")):
            must.append("DATATABLE_DESCRIPTION_MISSING")
        phys = kids_named(t, "physical")
        p = phys[0] if phys else None
        if not (p and any(k["content"] for k in kids_named(p, "size"))):
            must.append("DATATABLE_SIZE_MISSING")
        if not (p and any(k["content"] for k in kids_named(p, "authentication"))):
            must.append("DATATABLE_MD5_CHECKSUM_MISSING")
        if not any(k["content"] for k in kids_named(t, "numberOfRecords")):
            must.append("DATATABLE_NUMBER_OF_RECORDS_MISSING")
        rds = []
        if p:
            for df in kids_named(p, "dataFormat")[:1]:
                for tf in kids_named(df, "textFormat")[:1]:
                    rds = kids_named(tf, "recordDelimiter")
            rds = rds or kids_named(p, "recordDelimiter")
        if not any(k["content"] for k in rds):
            must.append("DATATABLE_RECORD_DELIMITER_MISSING")
    elif name == "dataset":
        ab = kids_named(t, "abstract")
        if not ab or (not own_text(ab[0]) and not text_blocks(ab[0])):
            must.append("DATASET_ABSTRACT_MISSING")
        elif all_words(ab[0]) == 0:
            either.append(("DATASET_ABSTRACT_MISSING", "DATASET_ABSTRACT_TOO_SHORT"))
        elif all_words(ab[0]) < 20:
            must.append("DATASET_ABSTRACT_TOO_SHORT")
        cov = kids_named(t, "coverage")
        if not (cov and cov[0]["kids"]):
            must.append("DATASET_COVERAGE_MISSING")
        if not kids_named(t, "dataTable"):
            must.append("DATATABLE_MISSING")
        ir = kids_named(t, "intellectualRights")
        if not ir or (not own_text(ir[0]) and not text_blocks(ir[0])):
            must.append("INTELLECTUAL_RIGHTS_MISSING")
        elif all_words(ir[0]) == 0:
            either.append(("INTELLECTUAL_RIGHTS_MISSING", None))
        ks = kids_named(t, "keywordSet")
        if not ks:
            must.append("KEYWORDS_MISSING")
        elif sum(len(kids_named(k, "keyword")) for k in ks) < 5:
            must.append("KEYWORDS_INSUFFICIENT")
        if not kids_named(t, "methods"):
            must.append("DATASET_METHOD_STEPS_MISSING")
        if not kids_named(t, "project"):
            must.append("DATASET_PROJECT_MISSING")
    return must, either


def acceptable(observed, must, either):
    obs = list(observed)
    for group in either:
        hit = [a for a in group if a is not None and a in obs]
        if hit:
            obs.remove(hit[0])
        elif None not in group:
            return False
    return sorted(obs) == sorted(must)


# ------------------------------------------------------------------ implementation run
class Sentinel:
    pass


def impl_run(snap_root, path):
    """Build the tree, run evaluate.tree at the node addressed by `path` with a non-empty warnings list,
    and evaluate.node on every node of that subtree."""
    from metapype.eml import evaluate
    from metapype.eml.evaluation_warnings import EvaluationWarning
    from metapype.model.node import Node
    root = build_impl(snap_root)
    at, snap_at = root, snap_root
    for i in path:
        at, snap_at = at.children[i], snap_at["kids"][i]
    pre_a, pre_b = (EvaluationWarning.TITLE_TOO_SHORT, "earlier entry", root), Sentinel()
    warnings = [pre_a, pre_b]
    res = {"crash": None, "new": None, "shape_errors": [], "prefix_ok": True, "nodes": []}
    try:
        r = evaluate.tree(at, warnings)
        if r is not None:
            res["shape_errors"].append("tree() returned " + repr(r))
    except Exception as e:
        res["crash"] = type(e).__name__
    res["prefix_ok"] = len(warnings) >= 2 and warnings[0] is pre_a and warnings[1] is pre_b
    new = warnings[2:]
    out = []
    for w in new:
        if not (isinstance(w, tuple) and len(w) == 3 and isinstance(w[0], EvaluationWarning) and isinstance(w[1], str) and isinstance(w[2], Node)):
            res["shape_errors"].append("entry is not an (EvaluationWarning, str, Node) triple: " + repr(w)[:200])
            continue
        out.append((w[0].name, w[2].id))
    res["new"] = out

    def walk(n):
        try:
            ev = evaluate.node(n)
            if ev is None:
                res["nodes"].append(None)
            else:
                res["nodes"].append([w[0].name for w in ev])
                for w in ev:
                    if w[2] is not n:
                        res["shape_errors"].append("evaluate.node reported a different node")
        except Exception as e:
            res["nodes"].append("CRASH:" + type(e).__name__)
        for c in n.children:
            walk(c)
    walk(at)
    Node.store.clear()
    return res, snap_at, (at.parent.name if at.parent is not None else None)


def is_valid(snap_root):
    from metapype.eml import validate
    from metapype.model.node import Node
    root = build_impl(snap_root)
    errs = []
    try:
        validate.tree(root, errs)
        ok = not errs
    except Exception:
        ok = False
    Node.store.clear()
    return ok


def coq_nres(x):
    if x is None:
        return "(NOk None)"
    if isinstance(x, str):
        return f"(NCrash {cstr(x[6:])})"
    return "(NOk (Some " + clist(cstr(c) for c in x) + "))"


def coq_warnings(l):
    return clist(cpair(cstr(c), cstr(i)) for c, i in l)


PREFIX = [("TITLE_TOO_SHORT", "pre0"), ("SENTINEL", "pre1")]


def statement_check(ctx, label, snap_root, snap_at, parent_name, res, replay):
    """(S) on one case. Returns True when the statement holds."""
    ok = True
    if res["crash"] is not None or any(isinstance(x, str) for x in res["nodes"]):
        kind = res["crash"] or next(x for x in res["nodes"] if isinstance(x, str))
        ctx.fail(f"C19:raises:{kind}", f"evaluation raised {kind} on a tree built from known element names", replay)
        return False
    if not res["prefix_ok"]:
        ctx.fail("C19:prefix", "entries already in the warnings list were disturbed", replay)
        ok = False
    if res["shape_errors"]:
        ctx.fail("C19:entry-shape", res["shape_errors"][0], replay)
        ok = False
    # exactness, per node in document order
    by_node = {}
    order = []
    for code, nid in res["new"]:
        if nid not in by_node:
            by_node[nid] = []
            order.append(nid)
        by_node[nid].append(code)
    doc = [n["id"] for n, _ in preorder(snap_at)]
    pos = {i: k for k, i in enumerate(doc)}
    if any(i not in pos for i in order) or [pos[i] for i in order] != sorted(pos[i] for i in order) or \
            any(res["new"][j][1] != res["new"][j + 1][1] and res["new"][j][1] in [x[1] for x in res["new"][j + 1:]] for j in range(len(res["new"]) - 1)):
        ctx.fail("C19:order", "warnings are not grouped per node in document order", replay)
        ok = False
    if py_shape_ok(snap_at):
        parents = {id(n): p for n, p in preorder(snap_at)}
        for n, p in preorder(snap_at):
            par = p if p is not None else ({"name": parent_name} if parent_name is not None else None)
            must, either = expected_node(n, par)
            obs = by_node.get(n["id"], [])
            if not acceptable(obs, must, either):
                ctx.fail(f"C19:exact:{n['name']}", f"element {n['name']} (parent {par['name'] if par else None}): reported {sorted(obs)}, "
                         f"the recommendations imply {sorted(must)}" + (f" plus one of {either}" if either else ""),
                         dict(replay, node=n["id"], observed=sorted(obs), expected=sorted(must), undecided=either))
                ok = False
                break
    return ok


# ------------------------------------------------------------------ history sensitivity (statelessness of evaluate)
TEXTY = {"para", "markdown", "title", "abstract", "description", "intellectualRights", "keyword", "userId", "electronicMailAddress",
         "givenName", "surName", "entityDescription", "size", "authentication", "recordDelimiter", "numberOfRecords", "section",
         "samplingDescription"}
ADDABLE = [lambda rng: E("para", sentence(rng, rng.choice([0, 1, 3, 25]), rng.choice(["single", "mixed"]))),
           lambda rng: E("markdown", sentence(rng, rng.choice([1, 22]))),
           lambda rng: E("section", kids=[E("para", sentence(rng, rng.choice([2, 21])))]),
           lambda rng: E("keyword", rng.choice(VOCAB)),
           lambda rng: E("keywordSet", kids=[E("keyword", "k") for _ in range(rng.choice([1, 5]))]),
           lambda rng: E("userId", "0000-0009", [("directory", ORCID)]),
           lambda rng: E("electronicMailAddress", "x@y.org"),
           lambda rng: E("givenName", "Eve"),
           lambda rng: E("abstract", kids=[E("para", sentence(rng, rng.choice([5, 30])))]),
           lambda rng: E("coverage", kids=[E("temporalCoverage", kids=[E("singleDateTime", kids=[E("calendarDate", "2021")])])]),
           lambda rng: E("entityDescription", "described"),
           lambda rng: E("numberOfRecords", "7"),
           lambda rng: E("description", kids=[E("para", "some text")])]


def snap_at(root, path):
    n = root
    for i in path:
        n = n["kids"][i]
    return n


def node_at(root, path):
    n = root
    for i in path:
        n = n.children[i]
    return n


def paths(t, here=()):
    yield list(here), t
    for i, k in enumerate(t["kids"]):
        yield from paths(k, here + (i,))


def targeted_edits(snap):
    """Deterministic edits aimed at every text-bearing node: make it long, make it empty, remove it."""
    out = []
    for pth, n in paths(snap):
        if n["name"] in ("para", "markdown", "title", "keyword", "userId", "abstract", "description", "intellectualRights") and pth:
            out.append(("content", pth, "one two three four five six seven eight nine ten eleven twelve thirteen fourteen fifteen "
                                        "sixteen seventeen eighteen nineteen twenty twentyone twentytwo"))
            out.append(("content", pth, None))
            out.append(("remove", pth))
    return out


def random_edit(rng, snap, counter):
    allp = list(paths(snap))
    texty = [(p_, n) for p_, n in allp if n["name"] in TEXTY]
    pth, n = rng.choice(texty if texty and rng.random() < 0.7 else allp)
    op = rng.choice(["content", "content", "remove", "add", "add", "attr", "rename"])
    if op == "content":
        return ("content", pth, rng.choice([None, "", sentence(rng, rng.choice([1, 4, 5, 19, 20, 25]), rng.choice(["single", "mixed", "nbsp"]))]))
    if op == "remove" and pth:
        return ("remove", pth)
    if op == "attr":
        return ("attr", pth, "directory", rng.choice([ORCID, "https://example.org"]))
    if op == "rename" and pth:
        return ("rename", pth, rng.choice(KNOWN_RENAMES))
    sub = rng.choice(ADDABLE)(rng)
    assign_ids(sub, counter, tag="h")
    return ("add", pth, rng.randint(0, len(n["kids"])), sub)


def apply_edit_snap(snap, e):
    if e[0] == "content":
        snap_at(snap, e[1])["content"] = e[2]
    elif e[0] == "remove":
        del snap_at(snap, e[1][:-1])["kids"][e[1][-1]]
    elif e[0] == "attr":
        n = snap_at(snap, e[1])
        n["attrs"] = [a for a in n["attrs"] if a[0] != e[2]] + [[e[2], e[3]]] if e[2] not in [a[0] for a in n["attrs"]] else \
            [[a[0], e[3] if a[0] == e[2] else a[1]] for a in n["attrs"]]
    elif e[0] == "rename":
        snap_at(snap, e[1])["name"] = e[2]
    elif e[0] == "add":
        snap_at(snap, e[1])["kids"].insert(e[2], copy.deepcopy(e[3]))


def apply_edit_impl(root, e):
    """The same edit through the public Node API, on the live objects."""
    if e[0] == "content":
        node_at(root, e[1]).content = e[2]
    elif e[0] == "remove":
        parent = node_at(root, e[1][:-1])
        parent.remove_child(parent.children[e[1][-1]])
    elif e[0] == "attr":
        node_at(root, e[1]).add_attribute(e[2], e[3])
    elif e[0] == "rename":
        node_at(root, e[1]).name = e[2]
    elif e[0] == "add":
        node_at(root, e[1]).add_child(build_impl(e[3]), e[2])


def observe(at, warnings):
    """evaluate.tree appending to a REUSED list + evaluate.node on every node. Returns (crash, new (code, id) list, node results)."""
    from metapype.eml import evaluate
    n0 = len(warnings)
    head = list(warnings)
    crash = None
    try:
        evaluate.tree(at, warnings)
    except Exception as e:
        crash = type(e).__name__
    prefix_ok = len(warnings) >= n0 and all(a is b for a, b in zip(head, warnings))
    new = []
    for w in warnings[n0:]:
        try:
            new.append((w[0].name, w[2].id))
        except Exception:
            new.append(("MALFORMED", repr(w)[:60]))
    nodes = []

    def walk(n):
        try:
            ev = evaluate.node(n)
            nodes.append(None if ev is None else [w[0].name for w in ev])
        except Exception as e:
            nodes.append("CRASH:" + type(e).__name__)
        for c in n.children:
            walk(c)
    walk(at)
    return crash, new, nodes, prefix_ok


def history_run(snap0, edits):
    """Evaluate, edit in place, evaluate again ... on the SAME node objects with ONE warnings list; after every step also
    evaluate a freshly built identical tree. Returns list of steps: (edit, same-object observation, fresh observation, snapshot)."""
    from metapype.model.node import Node
    snap = copy.deepcopy(snap0)
    root = build_impl(snap)
    warnings = [Sentinel()]
    steps = []
    for e in [None] + list(edits):
        if e is not None:
            apply_edit_snap(snap, e)
            apply_edit_impl(root, e)
        same = observe(root, warnings)
        fresh_root = build_impl(copy.deepcopy(snap))
        fresh = observe(fresh_root, [Sentinel()])
        steps.append((e, same, fresh, copy.deepcopy(snap)))
    Node.store.clear()
    return steps


def history_check(ctx, label, snap0, edits):
    """True when every step of the history agrees with a fresh evaluation and with the statement oracle."""
    ok = True
    for k, (e, same, fresh, snap) in enumerate(history_run(snap0, edits)):
        replay = {"kind": "impl-vs-statement", "history": True, "label": label, "tree": snap0, "edits": [list(x) for x in edits[:k]] if k else [],
                  "step": k, "observed_same_objects": {"crash": same[0], "new": same[1]},
                  "observed_fresh_tree": {"crash": fresh[0], "new": fresh[1]}}
        ctx.case(("h", label, k, repr(e)), k > 0)
        ctx.count("history:steps")
        if not same[3]:
            ctx.fail("C19:prefix", "entries of a reused warnings list were disturbed by a later call", replay)
            ok = False
        if same[:3] != fresh[:3]:
            what = ("after an in-place edit the evaluation of the same node objects differs from the evaluation of a freshly built identical tree"
                    if k else "two evaluations of identical trees in one process differ")
            ctx.fail("C19:history:" + ("tree" if same[1] != fresh[1] or same[0] != fresh[0] else "node"), what + f" (edit {e!r})", replay)
            ok = False
        # the statement itself on the same-object result
        res = {"crash": same[0], "new": same[1], "shape_errors": [], "prefix_ok": True, "nodes": same[2]}
        if not statement_check(ctx, label + ":history", snap, snap, None, res, replay):
            ok = False
        if not ok:
            break
    return ok


def history_phase(ctx, all_cases):
    rng = ctx.rng
    thorough = ctx.tier == "thorough"
    bases = [(label, root) for label, root, path in all_cases if not path and sum(1 for _ in preorder(root)) <= 150]
    n_ok = 0
    counter = [0]
    # (1) targeted: every text-bearing node of the threshold cases made long / empty / removed, one edit per history
    for label, root in bases:
        if label.split(":")[0] not in ("abstract", "rights", "title", "keywords", "description", "party", "methods", "dataset"):
            continue
        edits = targeted_edits(root)
        if not thorough and len(edits) > 6:
            edits = rng.sample(edits, 6)
        for e in edits:
            n_ok += history_check(ctx, label, root, [e])
    # (2) random histories of three edits on a sample of all cases
    sample = bases if thorough else rng.sample(bases, min(len(bases), 120))
    for label, root in sample:
        snap = copy.deepcopy(root)
        edits = []
        for _ in range(3):
            e = random_edit(rng, snap, counter)
            apply_edit_snap(snap, e)
            edits.append(e)
        n_ok += history_check(ctx, label, root, edits)
    ctx.count("history:histories_agreeing", n_ok)


def run(ctx):
    built = ctx.build(extra_targets=["theories/Model/EvaluateRun.v", "theories/Properties/Valid.v"])
    from metapype.model import metapype_io
    from metapype.eml import rule as R
    global KNOWN_ELEMENTS
    KNOWN_ELEMENTS = set(R.node_mappings)
    ctx.extra["rule"] = ("rule-guided EML trees: element-level variants (titles 0/1/3/4/5/6 words x 5 separator styles; abstracts 0/1/18/19/20/21 words x 5 "
                         "shapes + 6 empty shapes; keyword totals over 1-5 sets; coverage/table/rights/methods/project present, empty, absent; responsible "
                         "parties x userId variants x e-mail variants; names; data-table physical/size/authentication/dataFormat/recordDelimiter (both places)/"
                         "numberOfRecords/entityDescription variants; descriptions under 11 parents and as root) + random rich datasets + drop/dup/rename/"
                         "clear/move mutants + tests/data/eml.xml; non-trivial = distinct (tree, evaluated node) with at least one dispatched element")
    import time
    t_build = time.time()
    cases, wants, metas = [], [], []
    n_valid = n_shape = n_stmt_ok = 0
    all_cases = []
    # the repository's own sample document (regression: rights given as section/para text)
    try:
        xml = open(os.path.join(common.REPO, "tests", "data", "eml.xml"), encoding="utf-8").read()
        from harness import nodelib
        r = metapype_io.from_xml(xml)
        snap = nodelib.snapshot(r)
        from metapype.model.node import Node
        Node.store.clear()
        conv = lambda t: {"name": t["name"], "content": t["content"], "attrs": t["attrs"], "kids": [conv(k) for k in t["kids"]]}
        sample = conv(snap)
        all_cases.append(("sample:eml.xml", sample, []))
        all_cases.append(("sample:eml.xml:dataset", copy.deepcopy(sample), [next(i for i, k in enumerate(sample["kids"]) if k["name"] == "dataset")]))
        for _ in range(6 if ctx.tier == "thorough" else 2):
            mut = mutate(ctx.rng, copy.deepcopy(sample))
            if mut:
                all_cases.append(("sample:mutant:" + mut[0], mut[1], []))
    except Exception as e:  # the sample is part of the pinned repo; its absence is a broken tie, not a pass
        ctx.fail("tie:sample", f"tests/data/eml.xml could not be imported: {type(e).__name__}: {e}", {"kind": "broken-tie"}, concrete=False)
    all_cases += list(gen_cases(ctx))
    all_cases += list(position_cases(ctx))
    for label, root, path in all_cases:
        assign_ids(root)
        res, snap_at, parent_name = impl_run(root, path)
        replay = {"kind": "impl-vs-statement", "label": label, "tree": root, "path": path,
                  "observed_new": res["new"], "observed_crash": res["crash"]}
        dispatched = sum(1 for n, _ in preorder(snap_at) if n["name"] in DISPATCHED)
        ctx.case((label, repr(root), tuple(path)), dispatched > 0)
        ctx.count("kind=" + label.split(":")[0])
        valid = is_valid(root) if root["name"] in KNOWN_ELEMENTS else False
        shape = py_shape_ok(snap_at)
        n_valid += valid
        n_shape += shape
        if valid and not py_shape_ok(root):
            ctx.fail("C19:hypothesis", "a tree that passes validation violates shape_ok (the hypothesis of C19_exact)",
                     dict(replay, kind="broken-proof-hypothesis"), concrete=False)
        if statement_check(ctx, label, root, snap_at, parent_name, res, replay):
            n_stmt_ok += 1
        if label.startswith("sample:eml.xml") and not label.startswith("sample:mutant") and any(c == "INTELLECTUAL_RIGHTS_MISSING" for c, _ in res["new"] or []):
            ctx.fail("C19:exact:dataset", "tests/data/eml.xml has intellectual rights (section/para text) but INTELLECTUAL_RIGHTS_MISSING is reported", replay)
        if len(root["kids"]) and label.split(":")[0] in ("abstract", "table", "party"):
            ctx.sample({"label": label, "warnings": res["new"][:6]}, limit=6)
        # Coq case
        crash = res["crash"]
        tree_want = f"(ECrash {cstr(crash)})" if crash else "(EOk " + coq_warnings(PREFIX + res["new"]) + ")"
        cases.append("{| ec_parent := " + copt(parent_name) + "; ec_tree := " + coq_tree(snap_at) +
                     "; ec_prefix := " + coq_warnings(PREFIX) + " |}")
        wants.append("{| ew_tree := " + tree_want + "; ew_nodes := " + clist(coq_nres(x) for x in res["nodes"]) +
                     "; ew_new := " + coq_warnings(res["new"] or []) + " |}")
        metas.append((label, root, path, res))
    ctx.count("trees_passing_validation", n_valid)
    ctx.count("trees_satisfying_shape_ok", n_shape)
    ctx.count("statement_holds", n_stmt_ok)
    history_phase(ctx, all_cases)
    t_impl = time.time()
    # (B) in Coq
    sizes = [len(c) + len(w) for c, w in zip(cases, wants)]
    shards, cur, cur_size = [], [], 0
    for i, sz in enumerate(sizes):
        if cur and (cur_size + sz > 450_000 or len(cur) >= 150):
            shards.append(cur)
            cur, cur_size = [], 0
        cur.append(i)
        cur_size += sz
    if cur:
        shards.append(cur)
    jobs = []
    for k, idxs in enumerate(shards):
        text = (HEADER + "Definition cases := " + clist(cases[i] for i in idxs) + ".\n" +
                "Definition want := " + clist(wants[i] for i in idxs) + ".\n" +
                "Eval vm_compute in map (fun p => compare_case (fst p) (snd p)) (combine cases want).\n" +
                "Eval vm_compute in length (filter spec_applies cases).\n")
        jobs.append((f"C19_corr_{k}", text))
    results = common.coq_eval_many(jobs)
    agreed = spec_checked = 0
    for (name, _), idxs, (rc, out) in zip(jobs, shards, results):
        if rc != 0:
            ctx.fail("corr:coq-error", f"case file {name} did not evaluate", {"kind": "broken-correspondence", "file": name, "output": out[-1500:]}, concrete=False)
            continue
        vals = common.parse_eval_values(out)
        if len(vals) != 2:
            ctx.fail("corr:coq-error", f"unparsable output of {name}", {"kind": "broken-correspondence", "file": name, "output": out[-600:]}, concrete=False)
            continue
        verdicts = common.parse_nat_list(vals[0])
        spec_checked += int(vals[1].replace("%nat", "").strip())
        for i, v in zip(idxs, verdicts):
            if v == 0:
                agreed += 1
                continue
            label, root, path, res = metas[i]
            what = {1: "model and implementation disagree on evaluate.tree", 2: "model and implementation disagree on evaluate.node",
                    3: "Spec/Recommend.v (expected_at) and the implementation disagree on a tree satisfying shape_ok"}[v]
            rc2, out2 = common.coq_eval("C19_show", HEADER + f"Eval vm_compute in run_case ({cases[i]}).\n")
            ctx.fail(f"corr:{'spec' if v == 3 else 'model'}:{label.split(':')[0]}", what,
                     {"kind": "broken-correspondence", "theorem": "C19_exact / C19_total (model/implementation correspondence)",
                      "label": label, "tree": root, "path": path, "implementation": {"new": res["new"], "crash": res["crash"], "nodes": res["nodes"]},
                      "model": " ".join(out2.split())[:3000]}, concrete=False)
    ctx.extra["phase_seconds"] = {"build_incl_lock_wait": round(t_build - ctx.t0, 1), "implementation+oracle": round(t_impl - t_build, 1),
                                  "coq_cases": round(time.time() - t_impl, 1)}
    ctx.extra["traces_validated_against_impl"] = agreed
    ctx.extra["spec_compared_on_shape_ok_trees"] = spec_checked
    if not built:
        ctx.obligations_failed("generated EML trees and mutants against the plain-Python statement oracle")


KNOWN_ELEMENTS = set()
DISPATCHED = set(PARTIES) | {"dataset", "dataTable", "description", "individualName", "otherEntity", "title"}


def replay(ctx, data):
    r = data.get("replay", {})
    print(data.get("what"))
    if r.get("history"):
        ok = history_check(ctx, r.get("label", "replay"), r["tree"], [tuple(e) for e in r.get("edits", [])] )
        print("history agrees with a fresh evaluation now" if ok else "still fails")
    elif "tree" in r and "path" in r:
        root, path = r["tree"], r["path"]
        res, snap_at, parent_name = impl_run(root, path)
        print("observed now:", res["crash"], res["new"])
        statement_check(ctx, r.get("label", "replay"), root, snap_at, parent_name, res,
                        {"kind": "impl-vs-statement", "label": r.get("label"), "tree": root, "path": path,
                         "observed_new": res["new"], "observed_crash": res["crash"]})
    else:
        run(ctx)

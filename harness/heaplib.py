"""Scripts over the node API, run on the implementation and printed as Coq [cmd] literals
(Model/HeapRun.v).  Shared by c12.py and c14.py.

Node objects are numbered in creation order; copy() numbers the nodes of the copy in
pre-order (that is the order the model allocates them).  Ids produced by uuid1 are written
"#k" (k = object number) on both sides; explicit ids are passed through."""
from harness.common import cstr, copt, clist, cpair

HEADER = ("From MP Require Import Common.Base Common.Tree Model.Heap Model.Namespace Model.Registry "
          "Model.HeapEdits Model.Copy Model.HeapRun.\n")


def fresh(x):
    """a NEW str object with the same value (lesson d: never pass shared literals to the implementation)"""
    return "".join(list(x)) if isinstance(x, str) else x


class World:
    def __init__(self):
        from metapype.model.node import Node
        self.Node = Node
        Node.store.clear()
        self.objs = []          # object number -> Node
        self.canon = {}         # real id string -> canonical id string

    def num(self, node):
        for i, o in enumerate(self.objs):
            if o is node:
                return i
        raise KeyError("unnumbered node object")

    def _register(self, node, explicit):
        k = len(self.objs)
        self.objs.append(node)
        self.canon[node.id] = node.id if explicit else "#%d" % k

    def cid(self, real):
        return self.canon.get(real, real)

    def idof(self, ref):
        """("obj", n) -> the real id of object n; a plain string is passed through"""
        if isinstance(ref, tuple):
            return self.objs[ref[1]].id
        return ref

    def apply(self, c):
        """Returns None, or the class name of the exception the implementation raised."""
        N, o = self.Node, self.objs
        c = tuple(fresh(x) for x in c)
        try:
            k = c[0]
            if k == "create":
                n = N(c[1], id=c[2], content=c[3])
                self._register(n, c[2] is not None)
            elif k == "content":
                o[c[1]].content = c[2]
            elif k == "tail":
                o[c[1]].tail = c[2]
            elif k == "prefix":
                o[c[1]].prefix = c[2]
            elif k == "attr":
                o[c[1]].add_attribute(c[2], c[3])
            elif k == "rmattr":
                o[c[1]].remove_attribute(c[2])
            elif k == "extras":
                o[c[1]].add_extras(c[2], c[3])
            elif k == "ns":
                o[c[1]].add_namespace(c[2], c[3])
            elif k == "rmns":
                o[c[1]].remove_namespace(c[2])
            elif k == "attach":
                o[c[1]].add_child(o[c[2]], index=c[3])
            elif k == "rmchild":
                o[c[1]].remove_child(o[c[2]])
            elif k == "replace":
                o[c[1]].replace_child(o[c[2]], o[c[3]], delete_old=c[4])
            elif k == "copy":
                cp = o[c[1]].copy()
                self._number_preorder(cp)
            elif k == "delete":
                N.delete_node_instance(self.idof(c[1]), children=c[2])
            elif k == "setinst":
                N.set_node_instance(o[c[1]])
            elif k == "rawattr":
                o[c[1]].attributes[c[2]] = c[3]
            elif k == "rawextras":
                o[c[1]].extras[c[2]] = c[3]
            elif k == "rawns":
                o[c[1]].nsmap[c[2]] = c[3]
            elif k == "rawchild":
                o[c[1]].children.append(o[c[2]])
            elif k == "rmchildren":
                o[c[1]].remove_children()
            else:
                raise AssertionError(c)
        except (KeyError, ValueError, AttributeError, IndexError, TypeError) as e:
            return type(e).__name__
        return None

    def _number_preorder(self, node):
        self._register(node, False)
        for ch in node.children:
            self._number_preorder(ch)

    def known(self, node):
        return any(o is node for o in self.objs)

    def observe(self):
        slots = {}
        out = []
        nslot = 0
        for i, n in enumerate(self.objs):
            cls = []
            for d in (n.attributes, n.extras, n.nsmap):
                cls.append(slots.setdefault(id(d), nslot))
                nslot += 1
            out.append({
                "name": n.name, "content": n.content, "tail": n.tail, "prefix": n.prefix,
                "attrs": list(n.attributes.items()), "extras": list(n.extras.items()), "ns": list(n.nsmap.items()),
                "kids": [self.num(c) for c in n.children],
                "parent": None if n.parent is None else self.num(n.parent),
                "id": self.cid(n.id), "cls": tuple(cls),
                "kids_obj": id(n.children),
            })
        store = [(self.cid(k), self.num(v)) for k, v in self.Node.store.items()]
        return out, store


# ------------------------------------------------------------------ Coq literals
def ckey(k):
    """dict keys: the default-namespace key None is written as the one-character string chr(0) on the Coq side"""
    return cstr("\x00") if k is None else cstr(k)


def cdict(d):
    return clist(cpair(ckey(k), cstr(v)) for k, v in d)


def cz(i):
    return "None" if i is None else f"(Some ({i})%Z)"


def coq_cmd(w, c):
    """w: the World at the time the command is issued (for object ids)."""
    k = c[0]
    if k == "create":
        return f"KCreate {cstr(c[1])} {copt(c[2])} {copt(c[3])}"
    if k == "content":
        return f"KEdit (ESetContent {c[1]} {copt(c[2])})"
    if k == "tail":
        return f"KEdit (ESetTail {c[1]} {copt(c[2])})"
    if k == "prefix":
        return f"KEdit (ESetPrefix {c[1]} {copt(c[2])})"
    if k == "attr":
        return f"KEdit (EAddAttr {c[1]} {cstr(c[2])} {cstr(c[3])})"
    if k == "rmattr":
        return f"KEdit (ERemoveAttr {c[1]} {cstr(c[2])})"
    if k == "extras":
        return f"KEdit (EAddExtras {c[1]} {cstr(c[2])} {cstr(c[3])})"
    if k == "ns":
        return f"KEdit (ENs (Declare {c[1]} {ckey(c[2])} {cstr(c[3])}))"
    if k == "rmns":
        return f"KEdit (ENs (Undeclare {c[1]} {ckey(c[2])}))"
    if k == "attach":
        return f"KEdit (ENs (Attach {c[1]} {c[2]} {cz(c[3])}))"
    if k == "rmchild":
        return f"KEdit (ERemoveChild {c[1]} {c[2]})"
    if k == "replace":
        return f"KEdit (EReplaceChild {c[1]} {c[2]} {c[3]} {'true' if c[4] else 'false'})"
    if k == "copy":
        return f"KCopy {c[1]}"
    if k == "delete":
        return f"KDelete {cstr(w.cid(w.idof(c[1])))} {'true' if c[2] else 'false'}"
    if k == "setinst":
        return f"KSetInstance {c[1]}"
    raise AssertionError(c)


def coq_nobs(o):
    return ("(mkO " + cstr(o["name"]) + " " + copt(o["content"]) + " " + copt(o["tail"]) + " " + copt(o["prefix"]) + " " +
            cdict(o["attrs"]) + " " + cdict(o["extras"]) + " " + cdict(o["ns"]) + " " +
            clist(str(x) for x in o["kids"]) + " " + ("None" if o["parent"] is None else f"(Some {o['parent']})") + " " +
            cstr(o["id"]) + f" ({o['cls'][0]}, {o['cls'][1]}, {o['cls'][2]}))")


def coq_want_state(nodes, store):
    return "(WState " + clist(coq_nobs(o) for o in nodes) + " " + clist(cpair(cstr(k), str(v)) for k, v in store) + ")"


def coq_want_raise(kind):
    return f'(WRaise "{kind}"%string)'


def run_script(script):
    """Run a whole script on a fresh implementation. Returns (world, coq_cmds, raised) where
    raised is None or (index, exception class name) of the first command that raised."""
    w = World()
    cmds = []
    for i, c in enumerate(script):
        cmds.append(coq_cmd(w, c))
        r = w.apply(c)
        if r is not None:
            return w, cmds, (i, r)
    return w, cmds, None


def coq_case(script):
    """(Coq term of type list cmd * want, world, raised)"""
    w, cmds, raised = run_script(script)
    if raised is None:
        nodes, store = w.observe()
        want = coq_want_state(nodes, store)
    else:
        want = coq_want_raise(raised[1])
    return "(" + clist(cmds) + ", " + want + ")", w, raised


def coq_failing(common, prop, label, terms, shard=40):
    """Evaluate script_ok on all terms in Coq; returns (list of failing global indices, list of (file, output) errors)."""
    jobs = []
    for i in range(0, len(terms), shard):
        text = (HEADER + "Definition cases : list (list cmd * want) := " + clist(terms[i:i + shard]) + ".\n" +
                "Eval vm_compute in failing script_ok cases.\n")
        jobs.append((f"{prop}_{label}_{i // shard}", text))
    res = common.coq_eval_many(jobs, par=14)
    bad, errors = [], []
    for j, (rc, out) in enumerate(res):
        if rc != 0:
            errors.append((jobs[j][0], out[-1500:]))
            continue
        vals = common.parse_eval_values(out)
        if len(vals) != 1:
            errors.append((jobs[j][0], "unparsable: " + out[-600:]))
            continue
        bad.extend(j * shard + x for x in common.parse_nat_list(vals[0]))
    return bad, errors


def coq_show(common, prop, cmds):
    rc, out = common.coq_eval(f"{prop}_show", HEADER + "Eval vm_compute in show_script " + clist(cmds) + ".\n")
    return " ".join(out.split())[:3000]

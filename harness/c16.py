"""C16 — reference expansion substitutes independent copies, atomically.

(B) correspondence: references.expand on the implementation vs. the Gallina model
    (Model/Expand.v) evaluated inside Coq: resulting tree (new node ids canonicalised by
    order of creation), ValueError, registry keys in dict order.
(S) statement search: the property text executed against the implementation with plain
    Python written from the text: expected tree built independently, atomicity of the failure
    path (deep state before = after), copies independent of the sources (edit every copy,
    re-snapshot the sources; and the other way round), no references left, sources unchanged,
    validity preserved."""
import copy
import itertools
import json

from harness import common
from harness import nodelib as NL
from harness import rulelib as RL
from harness.common import cstr, copt, clist, cpair
from harness.c15 import node, walk, size, reid, ids_of, fresh_strs, limited, DidNotReturn

HEADER = "From MP Require Import Common.Base Common.Tree Model.Prune Model.PruneRun Model.Expand Model.ExpandRun.\n"

NS_A = [["eml", "https://eml.ecoinformatics.org/eml-2.2.0"], ["xsi", "http://www.w3.org/2001/XMLSchema-instance"]]
NS_B = [["eml", "https://eml.ecoinformatics.org/eml-2.2.0"], ["stmml", "http://www.xml-cml.org/schema/stmml-1.2"]]
NS_C = [["xsi", "http://www.w3.org/2001/XMLSchema-instance"], ["eml", "https://eml.ecoinformatics.org/eml-2.2.0"]]
NS_D = [["eml", "urn:other"]]

PLAIN = ["creator", "metadataProvider", "contact", "publisher"]     # responsiblePartyRule
ROLED = ["associatedParty", "personnel"]                            # responsiblePartyWithRoleRule
ORDER = {"creator": 1, "metadataProvider": 2, "associatedParty": 3, "contact": 4, "publisher": 5, "personnel": 9}


# ------------------------------------------------------------------ building documents
def body(rng, rich):
    """children of a responsible party that spells itself out"""
    v = rng.randint(0, 3)
    kids = []
    if v in (0, 3):
        kids.append(node("individualName", None, [], ([node("givenName", "Ann")] if rng.random() < 0.6 else []) + [node("surName", "Lee" + str(rng.randint(0, 9)))]))
    if v in (1, 3):
        kids.append(node("organizationName", "Org" + str(rng.randint(0, 9))))
    if v == 2:
        kids.append(node("positionName", "Data manager"))
    if rich:
        if rng.random() < 0.5:
            kids.append(node("address", None, [], [node("deliveryPoint", "1 Main St"), node("city", "Town")]))
        if rng.random() < 0.4:
            kids.append(node("electronicMailAddress", "a@b.org"))
    return kids


def party(rng, name, kind, pid=None, target=None, rich=True):
    """kind: 'src' (spelled out, carries id), 'ref' (references target), 'plain' (spelled out, no id)"""
    attrs = []
    if kind == "src":
        attrs.append(["id", pid])
        if rng.random() < 0.3:
            attrs.append(["scope", "document"])
        if rng.random() < 0.15:
            attrs.append(["system", ""])
    if kind == "ref":
        ref = node("references", target, [["system", "sys"]] if rng.random() < 0.2 else [])
        kids = [ref]
    elif kind == "src" and rng.random() < 0.1:
        kids = []                      # a referenced element with no children of its own
    else:
        kids = body(rng, rich)
    if name in ROLED:
        kids = kids + [node("role", "role" + str(i)) for i in range(rng.randint(1, 2))]
    return node(name, None, attrs, kids)


def document(rng, parties):
    """parties: list of party nodes; personnel go under project; the rest under dataset in the given order"""
    top = [p for p in parties if p["name"] != "personnel"]
    pers = [p for p in parties if p["name"] == "personnel"]
    kids = [node("title", "A title long enough")] + top
    if pers:
        kids.append(node("project", None, [], [node("title", "Project title")] + pers))
    ds = node("dataset", None, [], kids)
    return node("eml", None, [["packageId", "edi.1.1"], ["system", "metapype"]], [ds])


def set_ns(t, mode, rng):
    if mode == "none":
        return
    if mode == "uniform":
        for n, _, _ in walk(t):
            n["nsmap"] = [list(x) for x in NS_A]
        return
    # mixed: root-level map everywhere, some parties declare their own
    for n, _, _ in walk(t):
        n["nsmap"] = [list(x) for x in NS_A]
    for n, p, _ in walk(t):
        if n["name"] in PLAIN + ROLED and rng.random() < 0.6:
            m = rng.choice([NS_B, NS_C, NS_D, []])
            for x, _, _ in walk(n):
                x["nsmap"] = [list(y) for y in m]
            if rng.random() < 0.4 and n["kids"]:
                n["kids"][0]["nsmap"] = [list(y) for y in rng.choice([NS_A, NS_B, NS_D])]


def gen_documents(ctx):
    """(tags, tree): resolvable documents; validity-ordered and shuffled"""
    rng = ctx.rng
    thorough = ctx.tier == "thorough"
    reps = 6 if thorough else 2
    for k in range(0, 5):
        for m in range(1, 4):
            arrangements = sorted(set(itertools.permutations(["R"] * k + ["S"] * m)))
            rng.shuffle(arrangements)
            for arr in arrangements[: (12 if thorough else 4)]:
                for rep in range(reps):
                    same_rule = rep % 2 == 0
                    roled = rng.random() < 0.4
                    names_pool = ROLED if roled else PLAIN
                    srcs = [f"p{j}" for j in range(m)]
                    if rng.random() < 0.15:
                        srcs[0] = ""                       # falsy but legal id value / reference content
                    if rng.random() < 0.3:
                        # ids compared verbatim: surrounding whitespace, case, a trailing newline, NFC vs NFD
                        fam = rng.choice([["p0", " p0", "p0 ", "P0", "p0\n", "\tp0"], ["caf\u00e9", "cafe\u0301", "Caf\u00e9", " caf\u00e9"]])
                        if m == 1:
                            srcs[0] = rng.choice(fam[1:])
                        else:
                            pick = [fam[0]] + rng.sample(fam[1:], m - 1)
                            rng.shuffle(pick)
                            srcs = pick
                    parties, si = [], 0
                    src_names = {}
                    for a in arr:
                        if a == "S":
                            nm = rng.choice(names_pool if same_rule else PLAIN + ROLED)
                            src_names[srcs[si]] = nm
                            parties.append(party(rng, nm, "src", srcs[si], rich=rng.random() < 0.7))
                            si += 1
                        else:
                            parties.append(None)
                    for i, a in enumerate(arr):
                        if a == "R":
                            tgt = rng.choice(srcs)
                            pool = names_pool if same_rule else PLAIN + ROLED
                            parties[i] = party(rng, rng.choice(pool), "ref", target=tgt)
                    extra = [party(rng, "creator", "plain"), party(rng, "contact", "plain")]
                    ordered = rep % 3 != 2
                    allp = parties + extra
                    if ordered:
                        allp = sorted(allp, key=lambda p: ORDER[p["name"]])      # stable: keeps the arrangement within a kind
                    else:
                        rng.shuffle(allp)
                    t = document(rng, allp)
                    set_ns(t, rng.choice(["none", "none", "uniform", "mixed"]), rng)
                    yield {"refs": k, "srcs": m, "same_rule": same_rule, "ordered": ordered, "arr": "".join(arr)}, t


def extra_documents(ctx):
    rng = ctx.rng
    # the fixture document
    import os
    from metapype.model import metapype_io
    from metapype.model.node import Node
    with open(os.path.join(common.REPO, "tests", "data", "eml.xml"), encoding="utf-8") as f:
        root = metapype_io.from_xml(f.read())
    full = NL.snapshot(root)
    Node.store.clear()
    yield {"fixture": "eml.xml"}, full
    small = copy.deepcopy(full)
    for n, _, _ in list(walk(small)):
        if n["name"] == "dataset":
            n["kids"] = [k for k in n["kids"] if size(k) <= 5]
    yield {"fixture": "eml.xml-trimmed"}, small
    # other rules that allow references
    al = node("attributeList", None, [["id", "al1"]], [node("attribute", None, [["id", "at1"]], [node("attributeName", "a"), node("attributeDefinition", "d")]),
                                                     node("attribute", None, [], [node("attributeName", "b"), node("attributeDefinition", "e")])])
    dt1 = node("dataTable", None, [["id", "dt1"]], [node("entityName", "t1"), al])
    dt2 = node("dataTable", None, [], [node("entityName", "t2"), node("attributeList", None, [], [node("references", "al1")])])
    dt3 = node("dataTable", None, [], [node("entityName", "t3"), node("attributeList", None, [], [node("attribute", None, [], [node("references", "at1")])])])
    yield {"special": "attribute"}, node("dataset", None, [], [node("title", "t"), dt3, copy.deepcopy(dt1)])
    oe = node("otherEntity", None, [], [node("references", "dt1x")])
    yield {"special": "attributeList"}, node("dataset", None, [], [node("title", "t"), dt1, dt2])
    yield {"special": "dangling-entity"}, node("dataset", None, [], [node("title", "t"), dt1, oe])
    # a source without children; two references under one parent; references with children of its own; id on a leaf
    yield {"special": "empty-source"}, document(rng, [node("creator", None, [["id", "e"]], []), node("contact", None, [], [node("references", "e")])])
    yield {"special": "two-references"}, document(rng, [party(rng, "creator", "src", "a"), party(rng, "creator", "src", "b"),
                                                      node("contact", None, [], [node("references", "a"), node("references", "b"), node("phone", "1")])])
    yield {"special": "references-with-children"}, document(rng, [party(rng, "creator", "src", "a"),
                                                                node("contact", None, [], [node("references", "a", [], [node("zz", "x"), node("title", "t")])])])
    yield {"special": "leaf-source"}, document(rng, [node("creator", None, [], [node("organizationName", "O", [["id", "leaf"]])]),
                                                   node("contact", None, [], [node("references", "leaf")])])
    yield {"special": "root-named-references"}, node("references", "x", [], [party(rng, "creator", "src", "a"), node("contact", None, [], [node("references", "a")])])
    big = node("creator", None, [["id", "big"]], [node("organizationName", "O")] + [node("phone", "555-%d" % i) for i in range(300)])
    yield {"special": "source-with-300-children"}, document(rng, [big, node("contact", None, [], [node("references", "big")]),
                                                                 node("metadataProvider", None, [], [node("references", "big")])])
    many = [party(rng, "creator", "src", "one", rich=False)] + [node("contact", None, [], [node("references", "one")]) for _ in range(270)]
    yield {"special": "270-references-to-one-id"}, document(rng, many)
    yield {"special": "no-references"}, document(rng, [party(rng, "creator", "plain"), party(rng, "contact", "src", "c")])
    yield {"special": "empty-id-value"}, document(rng, [party(rng, "creator", "src", ""), node("contact", None, [], [node("references", "")])])
    yield {"special": "none-content"}, document(rng, [party(rng, "creator", "src", "a"), node("contact", None, [], [node("references", None)])])


def faulted(ctx, tags, t):
    """every placement of one dangling reference / one duplicated id in a resolvable document"""
    rng = ctx.rng
    refs = [n for n, p, _ in walk(t) if n["name"] == "references" and p is not None]
    for j in range(len(refs)):
        u = copy.deepcopy(t)
        r = [n for n, p, _ in walk(u) if n["name"] == "references" and p is not None][j]
        r["content"] = rng.choice(["nope", None, "", "P0"])
        yield dict(tags, fault="dangling", at=j, of=len(refs)), u
    carriers = [i for i, (n, p, _) in enumerate(walk(t)) if n["name"] in PLAIN + ROLED + ["dataset", "address", "individualName", "project"]]
    have = [n for n, _, _ in walk(t) if any(a[0] == "id" for a in n["attrs"])]
    if not have:
        return
    if ctx.tier != "thorough" and len(carriers) > 3:
        carriers = sorted(rng.sample(carriers, 3))
    for c in carriers:
        u = copy.deepcopy(t)
        n = list(walk(u))[c][0]
        victim = rng.choice(have)
        val = [a[1] for a in victim["attrs"] if a[0] == "id"][0]
        if any(a[0] == "id" and a[1] == val for a in n["attrs"]):
            continue
        n["attrs"] = [a for a in n["attrs"] if a[0] != "id"] + [["id", val]]
        yield dict(tags, fault="duplicate", at=n["name"]), u


# ------------------------------------------------------------------ (S) the statement in plain Python
def spec_expand(t):
    """'ValueError' or the expected tree; copies carry id None"""
    idmap = {}
    for n, _, _ in walk(t):
        for k, v in n["attrs"]:
            if k == "id":
                if v in idmap:
                    return "ValueError"
                idmap[v] = n
    for n, p, _ in walk(t):
        if p is not None and n["name"] == "references" and n["content"] not in idmap:
            return "ValueError"

    def fresh(n):
        c = dict(n)
        c["id"] = None
        c["kids"] = [fresh(k) for k in n["kids"]]
        return c

    def rebuild(n):
        c = dict(n)
        kids = []
        for k in n["kids"]:
            if k["name"] == "references":
                kids += [fresh(x) for x in idmap[k["content"]]["kids"]]
            else:
                kids.append(rebuild(k))
        c["kids"] = kids
        return c
    return rebuild(t)


def in_scope(t):
    """sources hold no references; no references below references (the property's precondition)"""
    idmap = {}
    for n, _, _ in walk(t):
        for k, v in n["attrs"]:
            if k == "id":
                idmap.setdefault(v, n)
    for n, p, _ in walk(t):
        if p is not None and n["name"] == "references":
            if any(x["name"] == "references" for x, q, _ in walk(n) if x is not n):
                return False
            src = idmap.get(n["content"])
            if src is not None and any(x["name"] == "references" for x, _, _ in walk(src)):
                return False
    return True


def match(exp, got, old_ids, new_seen, path="/"):
    """compare expected (ids None = any new id) with observed; returns first difference or None"""
    if exp["id"] is None:
        if got["id"] in old_ids:
            return f"{path}: a copy carries the id of an existing node ({got['id']})"
        if got["id"] in new_seen:
            return f"{path}: two copies share the id {got['id']}"
        new_seen.add(got["id"])
    elif exp["id"] != got["id"]:
        return f"{path}: expected node {exp['id']} ({exp['name']}), found {got['id']} ({got['name']})"
    for f in ("name", "content", "tail", "prefix", "attrs", "extras"):
        if exp[f] != got[f]:
            return f"{path}{exp['name']}: field {f} is {got[f]!r}, expected {exp[f]!r}"
    if exp["id"] is not None and exp["nsmap"] != got["nsmap"]:
        return f"{path}{exp['name']}: nsmap of an existing node changed"
    if len(exp["kids"]) != len(got["kids"]):
        return f"{path}{exp['name']}: children are {[k['name'] for k in got['kids']]}, expected {[k['name'] for k in exp['kids']]}"
    for a, b in zip(exp["kids"], got["kids"]):
        d = match(a, b, old_ids, new_seen, path + exp["name"] + "/")
        if d:
            return d
    return None


def fields_by_id(root, only=None):
    out = {}
    for n in _nodes(root):
        if only is None or n.id in only:
            out[n.id] = (n.name, n.content, n.tail, n.prefix, list(n.attributes.items()), list(n.extras.items()),
                         list(n.nsmap.items()), [c.id for c in n.children], None if n.parent is None else n.parent.id)
    return out


def _nodes(root):
    yield root
    for c in root.children:
        yield from _nodes(c)


def edit(n):
    from metapype.model.node import Node
    n.content = (n.content or "") + "!"
    n.tail = "edited"
    n.prefix = "zz"
    n.add_attribute("zzEdited", "1")
    for k in list(n.attributes):
        if k != "zzEdited":
            n.attributes[k] = n.attributes[k] + "!"
    n.add_extras("zz", "1")
    n.add_namespace("zz", "urn:zz")
    if n.children:
        n.remove_child(n.children[0])
    n.add_child(Node("zzNew", parent=n))


def run_impl(t):
    from metapype.eml import references, validate
    from metapype.eml.exceptions import MetapypeRuleError
    from metapype.model.node import Node
    Node.store.clear()
    root = NL.build(fresh_strs(t), attach=False)
    o = {"store_before": list(Node.store.keys())}
    try:
        validate.tree(root)
        o["valid_before"] = True
    except MetapypeRuleError:
        o["valid_before"] = False
    before = NL.deep_state([root])
    created = []
    orig = Node.__dict__["set_node_instance"]

    def logging_set(cls, nd):
        created.append(nd.id)
        return orig.__func__(cls, nd)
    Node.set_node_instance = classmethod(logging_set)
    try:
        try:
            limited(lambda: references.expand(root), 5.0)
            o["exc"] = None
        except DidNotReturn:
            o["exc"] = "NON-TERMINATION"
        except Exception as e:  # noqa
            o["exc"] = type(e).__name__
    finally:
        Node.set_node_instance = orig
    if o["exc"] == "NON-TERMINATION":
        o.update({"after_raw": None, "store_after_raw": [], "created": created, "unchanged": False})
        Node.store.clear()
        return o
    o["after_raw"] = NL.snapshot(root)
    o["store_after_raw"] = list(Node.store.keys())
    o["created"] = created
    if o["exc"] is not None:
        o["unchanged"] = NL.deep_state([root]) == before
        Node.store.clear()
        return o
    try:
        validate.tree(root)
        o["valid_after"] = True
    except MetapypeRuleError as e:
        o["valid_after"] = False
        o["invalid_why"] = type(e).__name__ + ": " + str(e)[:160]
    old = set(ids_of(t))
    new_nodes = [n for n in _nodes(root) if n.id not in old]
    o["links_ok"] = all(c.parent is n for n in _nodes(root) for c in n.children)
    import gc
    gc.collect()
    o["registry_objects_ok"] = all(Node.store.get(n.id) is n for n in _nodes(root))
    # independence, both directions
    src_ids = set()
    for n in _nodes(root):
        if "id" in n.attributes:
            src_ids |= {x.id for x in _nodes(n)}
    src_ids &= old
    s0 = fields_by_id(root, src_ids)
    for n in new_nodes:
        edit(n)
    o["sources_after_editing_copies"] = fields_by_id(root, src_ids) == s0
    Node.store.clear()
    # the other direction on a second run
    root2 = NL.build(fresh_strs(t), attach=False)
    limited(lambda: references.expand(root2), 5.0)
    new_ids2 = {n.id for n in _nodes(root2)} - old
    c0 = fields_by_id(root2, new_ids2)
    for n in [x for x in _nodes(root2) if x.id in src_ids]:
        edit(n)
    o["copies_after_editing_sources"] = fields_by_id(root2, new_ids2) == c0
    Node.store.clear()
    return o


def canon(o):
    """rename the new nodes by order of creation"""
    ren = {i: "~" + chr(k) for k, i in enumerate(o["created"])}

    def go(n):
        c = dict(n)
        c["id"] = ren.get(n["id"], n["id"])
        c["kids"] = [go(k) for k in n["kids"]]
        return c
    return go(o["after_raw"]), [ren.get(i, i) for i in o["store_after_raw"]]


def ns_agree(t):
    """every copy lands under a parent with the same namespace items (then add_child changes nothing)"""
    idmap = {}
    for n, _, _ in walk(t):
        for k, v in n["attrs"]:
            if k == "id":
                idmap.setdefault(v, n)
    for n, p, _ in walk(t):
        if p is not None and n["name"] == "references" and n["content"] in idmap:
            for c in idmap[n["content"]]["kids"]:
                if c["nsmap"] != p["nsmap"]:
                    return False
    return True


def statement_violations(t, o):
    v = []
    if o["exc"] == "NON-TERMINATION":
        return [("non-termination", "expand did not return within the per-call time limit (5 s) on this document")]
    exp = spec_expand(t)
    old = set(ids_of(t))
    if exp == "ValueError":
        if o["exc"] != "ValueError":
            v.append(("fault-not-raised", f"an id is used twice or a reference names no id, expected ValueError, observed {o['exc'] or 'no exception'}"))
        if o["exc"] is not None and not o["unchanged"]:
            v.append(("not-atomic", f"{o['exc']} raised and the tree or the registry differs from before the call"))
        return v
    if o["exc"] is not None:
        v.append(("raises", f"resolvable document, expand raised {o['exc']}"))
        if not o["unchanged"]:
            v.append(("not-atomic", f"{o['exc']} raised and the tree differs from before the call"))
        return v
    got = o["after_raw"]
    agree = ns_agree(t)
    seen = set()
    d = match(exp, got, old, seen)
    if d:
        v.append(("tree", "expanded tree differs from the statement's: " + d))
    elif agree:
        # copies keep the namespace items too when they land under an equal map
        def ns_list(n):
            return [n["nsmap"]] + [x for k in n["kids"] for x in ns_list(k)]
        if ns_list(exp) != ns_list(got):
            v.append(("tree-nsmap", "namespace maps of the copies differ from the sources' although the new parent has the same items"))
    if any(n["name"] == "references" for n, p, _ in walk(got) if p is not None):
        v.append(("references-left", "a references node is left after expansion"))
    if not o["links_ok"]:
        v.append(("links", "a child's parent link does not point to the node listing it"))
    if not o.get("registry_objects_ok", True):
        v.append(("registry-object", "Node.store does not map the id of every node of the result to that node"))
    if not o["sources_after_editing_copies"]:
        v.append(("not-independent", "editing the copies changed a referenced element"))
    if not o["copies_after_editing_sources"]:
        v.append(("not-independent-rev", "editing the referenced elements changed a copy"))
    new_ids = [n["id"] for n, _, _ in walk(got) if n["id"] not in old]
    gone = set()
    for n, p, _ in walk(t):
        if p is not None and n["name"] == "references":
            gone |= set(ids_of(n))
    want_store = [i for i in o["store_before"] if i not in gone]
    if [i for i in o["store_after_raw"] if i in old] != want_store or sorted(i for i in o["store_after_raw"] if i not in old) != sorted(new_ids):
        v.append(("registry", "Node.store is not: former keys minus the references subtrees, plus the copies"))
    return v


# ------------------------------------------------------------------ history sensitivity
# Assumption of every theorem: expand is a function of the tree it is given.  This phase tests
# it: expand / edit in place / expand again on the SAME node objects; every call is compared with
# the statement's expected tree AND with the same call on a freshly built identical tree.
def find_live(root, nid):
    for n in _nodes(root):
        if n.id == nid:
            return n
    return None


def apply_edit(root, e, removed=None):
    from metapype.model.node import Node
    n = find_live(root, e["id"])
    if n is None:
        return
    op = e["op"]
    if op == "add":
        c = NL.build(fresh_strs(e["subtree"]), attach=False)
        n.add_child(c, e.get("index"))
    elif op == "add_direct":
        # a legal edit through the exposed properties: the children list and the parent link
        c = NL.build(fresh_strs(e["subtree"]), attach=False)
        i = e.get("index")
        if i is None:
            n.children.append(c)
        else:
            n.children.insert(i, c)
        c.parent = n
    elif op == "add_copy_of_removed":
        # a node that left the registry is copied; the copy (new ids, registered) joins the tree
        if removed:
            c = removed[e["k"] % len(removed)].copy()
            n.add_child(c)
    elif op == "attr_direct":
        n.attributes[e["k"]] = e["v"]
    elif op == "nsmap_direct":
        n.nsmap[e["k"]] = e["v"]
    elif op == "remove":
        if n.parent is not None:
            n.parent.remove_child(n)
            Node.delete_node_instance(n.id)
    elif op == "remove_children":
        for c in list(n.children):
            n.remove_child(c)
            Node.delete_node_instance(c.id)
    elif op == "set_content":
        n.content = e["content"]
    elif op == "set_attr":
        n.add_attribute(e["k"], e["v"])
    elif op == "del_attr":
        if e["k"] in n.attributes:
            n.remove_attribute(e["k"])


_hid = [0]


def hid_tree(t):
    """explicit, fresh, deterministic ids for nodes added during a history"""
    for n, _, _ in walk(t):
        _hid[0] += 1
        n["id"] = "h%d" % _hid[0]
    return t


def choose_edits(rng, snap):
    """edits (plain data) for the tree whose snapshot is snap; returns (tag, [edits])"""
    idmap, refs = {}, []
    for n, p, _ in walk(snap):
        for k, v in n["attrs"]:
            if k == "id":
                idmap.setdefault(v, n)
        if p is not None and n["name"] == "references":
            refs.append(n)
    host = None
    for n, _, _ in walk(snap):
        if n["name"] == "dataset":
            host = n
            break
    host = host or snap
    if any(k == "id" for k, _ in host["attrs"]):
        return "none", []

    def add(sub, index=None):
        e = {"op": rng.choice(["add", "add", "add_direct"]), "id": host["id"], "subtree": hid_tree(sub)}
        if index is not None:
            e["index"] = index
        return e
    removable = [v for v, n in idmap.items() if n is not snap and n is not host]
    dangling = [r["content"] for r in refs if r["content"] not in idmap and isinstance(r["content"], str)]
    opts = ["new-ref", "dup-id", "retarget", "copy-of-removed-reference", "direct-mutation"]
    if dangling:
        opts += ["fix-dangling"] * 3
    if removable:
        opts += ["remove-source-add-ref", "remove-source-add-ref", "edit-source", "empty-source", "drop-id"]
    if not idmap:
        opts = ["retarget", "dangling-ref"]
    tag = rng.choice(opts)
    ref_name = rng.choice(PLAIN)

    def ref_party(v, name=None):
        name = name or ref_name
        kids = [node("references", v)] + ([node("role", "r")] if name in ROLED else [])
        return node(name, None, [], kids)
    if tag == "copy-of-removed-reference":
        return tag, [{"op": "add_copy_of_removed", "id": host["id"], "k": rng.randint(0, 7)}]
    if tag == "direct-mutation":
        # id attribute / namespace written straight into the exposed dicts, then referred to
        cand = [n for n, p, _ in walk(host) if p is not None and n["name"] in PLAIN and not any(k == "id" for k, _ in n["attrs"])
                and not any(x["name"] == "references" for x, _, _ in walk(n))]
        v = rng.choice(["", "direct%d" % rng.randint(0, 9)])
        es = [{"op": "nsmap_direct", "id": host["id"], "k": "zz", "v": "urn:zz"}]
        if cand:
            es.append({"op": "attr_direct", "id": rng.choice(cand)["id"], "k": "id", "v": v})
        return tag, es + [add(ref_party(v))]
    if tag == "fix-dangling":
        v = rng.choice(dangling)
        return tag, [add(party(rng, rng.choice(PLAIN), "src", v))]
    if tag == "new-ref":
        v = rng.choice(sorted(idmap)) if idmap else "nope"
        return tag, [add(ref_party(v), rng.randint(0, len(host["kids"]))) for _ in range(rng.randint(1, 3))]
    if tag == "dup-id":
        v = rng.choice(sorted(idmap)) if idmap else "d1"
        extra = [add(ref_party(v))] if rng.random() < 0.5 else []
        return tag, [add(party(rng, rng.choice(PLAIN), "src", v))] + extra
    if tag == "retarget":
        v = rng.choice(["new%d" % rng.randint(0, 99), "", " new1", "new1 ", "New1", "new1\n"])
        return tag, [add(party(rng, rng.choice(PLAIN + ROLED), "src", v)), add(ref_party(v, rng.choice(PLAIN + ROLED)), 1)]
    if tag == "dangling-ref":
        return tag, [add(ref_party("nowhere"))]
    v = rng.choice(sorted(removable))
    x = idmap[v]
    if tag == "remove-source-add-ref":
        return tag, [{"op": "remove", "id": x["id"]}, add(ref_party(v))]
    if tag == "drop-id":
        return tag, [{"op": "del_attr", "id": x["id"], "k": "id"}, add(ref_party(v))]
    if tag == "empty-source":
        return tag, [{"op": "remove_children", "id": x["id"]}, add(ref_party(v))]
    # edit-source: the next copies must show the source as it is now
    es = [{"op": "add", "id": x["id"], "subtree": hid_tree(node("phone", "555-%d" % rng.randint(0, 99)))}]
    leaf = [n for n, _, _ in walk(x) if not n["kids"] and n["content"] is not None]
    if leaf:
        es.append({"op": "set_content", "id": rng.choice(leaf)["id"], "content": "changed"})
    return tag, es + [add(ref_party(v))]


def canon_by_doc_order(snap, old):
    ren = {}

    def go(n):
        c = dict(n)
        if n["id"] not in old:
            ren.setdefault(n["id"], "~%d" % len(ren))
            c["id"] = ren[n["id"]]
        c["kids"] = [go(k) for k in n["kids"]]
        return c
    return go(snap)


def fresh_expand(snap):
    """the same call on a freshly built identical tree (registry saved and restored around it)"""
    from metapype.eml import references
    from metapype.model.node import Node
    saved = dict(Node.store)
    Node.store.clear()
    try:
        root = NL.build(fresh_strs(snap), attach=False)
        try:
            limited(lambda: references.expand(root), 5.0)
            exc = None
        except DidNotReturn:
            return "NON-TERMINATION", None
        except Exception as e:  # noqa
            exc = type(e).__name__
        return exc, NL.snapshot(root)
    finally:
        Node.store.clear()
        Node.store.update(saved)


def run_history(t, steps_edits=None, rng=None, max_steps=3):
    """returns (violations [(key, what, step)], log). steps_edits given = replay; else chosen from rng."""
    from metapype.eml import references
    from metapype.model.node import Node
    Node.store.clear()
    root = NL.build(fresh_strs(t), attach=False)
    v, log = [], []
    removed = []
    for step in range(max_steps):
        snap = NL.snapshot(root)
        exp = spec_expand(snap)
        if exp != "ValueError" and not in_scope(snap):
            break
        old = set(ids_of(snap))
        before = NL.deep_state([root])
        going = [n for n in _nodes(root) if n.name == "references" and n is not root]
        try:
            limited(lambda: references.expand(root), 5.0)
            exc = None
        except DidNotReturn:
            v.append(("history:non-termination", f"call {step + 1} on the same tree objects did not return within 5 s", step))
            log.append({"step": step, "expected": "?", "observed": "NON-TERMINATION", "fresh_tree_observed": "?"})
            break
        except Exception as e:  # noqa
            exc = type(e).__name__
        if exc is None and going:
            removed = going
        after = NL.snapshot(root)
        fexc, fafter = fresh_expand(snap)
        if fafter is None:
            fafter = after
        log.append({"step": step, "expected": "ValueError" if exp == "ValueError" else "expanded", "observed": exc or "expanded",
                    "fresh_tree_observed": fexc or "expanded"})
        if exp == "ValueError":
            if exc != "ValueError":
                v.append(("history:fault-not-raised", f"call {step + 1} on the same tree objects: an id is used twice or a reference names no id "
                          f"in the tree as it is now, expected ValueError, observed {exc or 'no exception'}", step))
            if NL.deep_state([root]) != before:
                v.append(("history:not-atomic", f"call {step + 1} on the same tree objects changed the tree although it "
                          f"{'raised ' + exc if exc else 'had to raise'}", step))
        else:
            if exc is not None:
                v.append(("history:raises", f"call {step + 1} on the same tree objects: the tree as it is now is resolvable, expand raised {exc}", step))
                if NL.deep_state([root]) != before:
                    v.append(("history:not-atomic", f"call {step + 1} raised {exc} and changed the tree", step))
            else:
                d = match(exp, after, old, set())
                if d:
                    v.append(("history:tree", f"call {step + 1} on the same tree objects: expanded tree differs from the statement's for the tree as it is now: {d}", step))
        if exc != fexc or canon_by_doc_order(after, old) != canon_by_doc_order(fafter, old):
            v.append(("history:differs-from-fresh-tree", f"call {step + 1} on the same tree objects gives {exc or 'a tree'} where the same call on a freshly "
                      f"built identical tree gives {fexc or 'a (different) tree' if exc == fexc else fexc or 'a tree'}", step))
        if v or step == max_steps - 1:
            break
        if steps_edits is not None:
            if step >= len(steps_edits):
                break
            tag, edits = steps_edits[step]
        else:
            tag, edits = choose_edits(rng, after)
            if not edits:
                break
        for e in edits:
            apply_edit(root, e, removed)
        log[-1]["then"] = [tag, edits]
    Node.store.clear()
    return v, log


# ------------------------------------------------------------------ Coq literals
def coq_ft(t):
    if t["tail"] is None and t["prefix"] is None and not t["extras"]:
        if t["nsmap"]:
            d = f"(mkn {cstr(t['id'])} {cstr(t['name'])} {copt(t['content'])} {NL.coq_dict(t['attrs'])} {NL.coq_dict(t['nsmap'])})"
        else:
            d = f"(mk {cstr(t['id'])} {cstr(t['name'])} {copt(t['content'])} {NL.coq_dict(t['attrs'])})"
    else:
        d = NL.coq_nd(t)
    return "(FT " + d + " " + clist(coq_ft(k) for k in t["kids"]) + ")"


def coq_case(t, store):
    return f"{{| ec_tree := {coq_ft(t)}; ec_store := {clist(cstr(i) for i in store)} |}}"


def coq_want(o):
    if o["exc"] == "ValueError":
        return "EF"
    if o["exc"] is not None:
        return "EX"
    tree, store = canon(o)
    return f"(EO {coq_ft(tree)} (Some {clist(cstr(i) for i in store)}))"


# ------------------------------------------------------------------ run
def run(ctx):
    built = ctx.build(extra_targets=["theories/Model/ExpandRun.v", "theories/Properties/Valid.v"])
    ctx.extra["rule"] = ("documents with 0-4 referencing and 1-3 referenced responsible parties (creator/contact/metadataProvider/publisher/"
                         "associatedParty/personnel, trailing roles where the rule has them) in sampled arrangements of document order, same-rule "
                         "and cross-rule, schema-ordered and shuffled, with no/uniform/mixed namespace maps; the fixture document; other rules "
                         "allowing references; every placement of one dangling reference and of one duplicated id; non-trivial = distinct document "
                         "with at least one references node or one fault")
    docs = list(extra_documents(ctx)) + list(gen_documents(ctx))
    allcases = []
    for tags, t in docs:
        reid(t)
        allcases.append((tags, t))
        if ctx.tier == "thorough" or ctx.rng.random() < 0.5:
            for ftags, u in faulted(ctx, tags, t):
                reid(u)
                allcases.append((ftags, u))
    cterms, wterms, meta = [], [], []
    seen = set()
    for tags, t in allcases:
        sig = json.dumps(t, sort_keys=True)
        if sig in seen:
            continue
        seen.add(sig)
        if not in_scope(t) and spec_expand(t) != "ValueError":
            ctx.count("skipped-out-of-scope")
            continue
        o = run_impl(t)
        nrefs = sum(1 for n, p, _ in walk(t) if p is not None and n["name"] == "references")
        ctx.case(sig, nrefs > 0 or "fault" in tags)
        ctx.count("outcome=" + (o["exc"] or "expanded"))
        ctx.count("references=%d" % min(nrefs, 5))
        if "fault" in tags:
            ctx.count("fault=" + tags["fault"])
        if o["exc"] is None:
            ctx.count("valid_before=%s,valid_after=%s" % (o["valid_before"], o["valid_after"]))
            ctx.count("ns_agree=%s" % ns_agree(t))
        for key, what in statement_violations(t, o):
            ctx.fail(f"C16:{key}", what, {"kind": "impl-vs-statement", "tree": t, "tags": tags,
                                          "observed": {"exc": o["exc"], "after": o.get("after_raw"), "unchanged": o.get("unchanged")}})
        # validity is preserved (precondition: referencing and referenced element under the same rule)
        if o["exc"] is None and o["valid_before"] and not o["valid_after"] and tags.get("same_rule", True):
            ctx.fail("C16:validity-lost", "the document validated before expansion and does not after: " + o.get("invalid_why", ""),
                     {"kind": "impl-vs-statement", "tree": t, "tags": tags, "after": o["after_raw"]})
        if size(t) <= 120:
            cterms.append(coq_case(t, o["store_before"]))
            wterms.append(coq_want(o))
            meta.append({"tree": t, "tags": tags, "observed": {"exc": o["exc"], "after": canon(o)[0] if o["exc"] is None else None}})
        else:
            ctx.count("statement-only(>120 nodes)")
        if nrefs:
            ctx.sample({"tags": tags, "nodes": size(t), "outcome": o["exc"] or "expanded", "created": len(o["created"])}, limit=8)
    # history sensitivity: expand / edit in place / expand again on the same objects
    hist_docs = [(tags, t) for tags, t in allcases if size(t) <= 120]
    ctx.rng.shuffle(hist_docs)
    for tags, t in hist_docs[: (600 if ctx.tier == "thorough" else 120)]:
        v, log = run_history(t, rng=ctx.rng)
        ctx.case(("history", json.dumps(t, sort_keys=True)), len(log) > 1)
        ctx.count("history-calls", len(log))
        for entry in log:
            if "then" in entry:
                ctx.count("history-edit=" + entry["then"][0])
            ctx.count("history-outcome=" + entry["observed"])
        for key, what, step in v:
            ctx.fail(f"C16:{key}", what, {"kind": "impl-vs-statement", "history": True, "tree": t, "tags": tags, "failing_call": step + 1,
                                          "edits": [e.get("then") for e in log if "then" in e], "log": log})
    bad, errors = RL.coq_compare(ctx, "corr", "run_ecase", cterms, wterms, shard=150, header=HEADER, eqb="eobs_eqb")
    ctx.extra["cases_sent_to_coq"] = len(cterms)
    ctx.extra["traces_validated_against_impl"] = len(cterms) - len(bad) - 150 * len(errors)
    for name, out in errors:
        ctx.fail("corr:coq-error", f"case file {name} did not evaluate", {"kind": "broken-correspondence", "file": name, "output": out}, concrete=False)
    for i in bad[:5]:
        m = meta[i]
        ctx.fail("corr:expand", "model and implementation disagree on expand",
                 {"kind": "broken-correspondence", "theorem": "C16_eq (model/implementation correspondence)", "case": m,
                  "model": RL.coq_show(ctx, "corr", "run_ecase", cterms[i], header=HEADER)}, concrete=False)
    if not built:
        ctx.obligations_failed("executed the property statement against references.expand on all generated documents")


def replay(ctx, data):
    """./check C16 --replay file: run the stored document again (statement search and model)."""
    r = data.get("replay", {})
    case = r.get("case", r)
    t = case.get("tree")
    if t is None:
        print(json.dumps(data, indent=1)[:2000])
        return
    if case.get("history"):
        v, log = run_history(t, steps_edits=case.get("edits", []), max_steps=len(case.get("edits", [])) + 1)
        ctx.case("replay-history", True)
        print("calls:", json.dumps([{k: e[k] for k in ("step", "expected", "observed", "fresh_tree_observed")} for e in log]))
        for key, what, step in v:
            print("statement violated:", key, what)
            ctx.fail(f"C16:{key}", what, {"kind": "impl-vs-statement", "history": True, "tree": t, "edits": case.get("edits"), "log": log})
        return
    o = run_impl(t)
    ctx.case("replay", True)
    print("observed:", json.dumps({"exc": o["exc"], "unchanged": o.get("unchanged"), "created": len(o["created"]),
                                   "valid_before": o.get("valid_before"), "valid_after": o.get("valid_after")}))
    for key, what in statement_violations(t, o):
        print("statement violated:", key, what)
        ctx.fail(f"C16:{key}", what, {"kind": "impl-vs-statement", "tree": t, "observed": {"exc": o["exc"], "after": o.get("after_raw")}})
    if o["exc"] is None and o["valid_before"] and not o["valid_after"] and case.get("tags", {}).get("same_rule", True):
        print("statement violated: validity-lost", o.get("invalid_why"))
        ctx.fail("C16:validity-lost", "the document validated before expansion and does not after", {"kind": "impl-vs-statement", "tree": t})
    bad, errors = RL.coq_compare(ctx, "replay", "run_ecase", [coq_case(t, o["store_before"])], [coq_want(o)], header=HEADER, eqb="eobs_eqb")
    print("model agrees with implementation:", not bad and not errors)
    if bad or errors:
        ctx.fail("corr:expand", "model and implementation disagree on expand", {"kind": "broken-correspondence", "case": case}, concrete=False)

"""Tree generators and mutators shared by the whole-tree validation checks (C04, C05).
Trees are plain nested lists [name, content, attrs, kids] (attrs: list of [k, v]),
the shape harness/rulelib.py prints as Coq literals and builds implementation trees from."""
import copy
import os

from harness import common


def to_plain(node):
    return [node.name, node.content, [[k, v] for k, v in node.attributes.items()], [to_plain(c) for c in node.children]]


_EML = None


def eml_tree():
    """tests/data/eml.xml of the repository under test, as a plain tree (a fresh copy)."""
    global _EML
    if _EML is None:
        from metapype.model import metapype_io
        from metapype.model.node import Node
        with open(os.path.join(common.REPO, "tests", "data", "eml.xml"), encoding="utf-8") as f:
            root = metapype_io.from_xml(f.read())
        _EML = to_plain(root)
        Node.store.clear()
    return copy.deepcopy(_EML)


def size(t):
    return 1 + sum(size(k) for k in t[3])


def depth(t):
    d, stack = 0, [(t, 1)]
    while stack:
        n, k = stack.pop()
        d = max(d, k)
        stack.extend((c, k + 1) for c in n[3])
    return d


def walk(t, path=()):
    """(path, node) in document order; path = tuple of child indices from the root."""
    yield path, t
    for i, k in enumerate(t[3]):
        yield from walk(k, path + (i,))


def visible(t, path=()):
    """document order without anything below a metadata element (harness-side walk)."""
    yield path, t
    if t[0] != "metadata":
        for i, k in enumerate(t[3]):
            yield from visible(k, path + (i,))


def at(t, path):
    for i in path:
        t = t[3][i]
    return t


def below_metadata(t, path):
    """True when the node at path has a metadata element as a proper ancestor."""
    n = t
    for i in path:
        if n[0] == "metadata":
            return True
        n = n[3][i]
    return False


def small_valid_trees(max_size=40):
    """Valid subtrees of eml.xml (validate.tree accepts any node as root) plus small
    hand-made valid documents."""
    out = []
    for _, n in walk(eml_tree()):
        if 2 <= size(n) <= max_size:
            out.append(copy.deepcopy(n))
    out.append(mini_eml())
    out.append(mini_eml(foreign=True))
    return out


def mini_eml(foreign=False):
    md_kids = [["anything", "x", [["a", "b"]], [["deeper", None, [], [["metadata", "text", [], [["q", None, [], []], ["q", None, [], []]]]]]]]] if foreign else []
    return ["eml", None, [["packageId", "edi.1.1"], ["system", "https://pasta.edirepository.org"]], [
        ["access", None, [["authSystem", "pasta"], ["order", "allowFirst"]], [
            ["allow", None, [], [["principal", "uid=gaucho,o=EDI,dc=edirepository,dc=org", [], []], ["permission", "all", [], []]]]]],
        ["dataset", None, [], [
            ["title", "Green sea turtle counts: Tortuga Island 20017", [], []],
            ["creator", None, [], [["individualName", None, [], [["surName", "Gaucho", [], []]]]]],
            ["contact", None, [], [["individualName", None, [], [["surName", "Gaucho", [], []]]]]]]],
        ["additionalMetadata", None, [], [["metadata", None, [], md_kids]]]]]


def deep_text(levels, leaf="deep text"):
    """description/section/section/.../para: nesting depth = levels + 2."""
    t = ["para", leaf, [], []]
    for _ in range(levels):
        t = ["section", None, [], [t]]
    return ["description", None, [], [t]]


CONTENT_POOL = [None, "", " ", "x", "0", "-1", "1.5", "nan", "inf", "-inf", "1e999", "9" * 600, "180.0000001", "abc", "12:00:00", "25:00:00",
                "2021-02-30", "2021", "http://a.b/", "mailto:x@y.z", "http://", "\U0001f600", "a\U00010000b", "\x00", "\ufffe",
                "\ud800", "a\udfffb", "\ud83d\ude00", "read", "row", "meter", "<x/>", "\u0663", "1_0"]

FOREIGN_NAMES = ["zzUnknown", "Title", "metadata ", "", "eml:dataset", "\u00e9l\u00e9ment", "metadata"]


def has_lone_surrogate(t):
    for _, n in walk(t):
        strs = [n[0], n[1]] + [x for kv in n[2] for x in kv]
        if any(isinstance(s, str) and any(0xD800 <= ord(c) <= 0xDFFF for c in s) for s in strs):
            return True
    return False


def _mutate_once(rng, t, pool, avoid_below_metadata):
    nodes = [(p, n) for p, n in walk(t) if not (avoid_below_metadata and below_metadata(t, p))]
    p, n = rng.choice(nodes)
    op = rng.choice(["drop", "dup", "swap", "rename", "content", "attr", "attr", "content", "graft"])
    if op == "drop" and n[3]:
        del n[3][rng.randrange(len(n[3]))]
    elif op == "dup" and n[3]:
        i = rng.randrange(len(n[3]))
        n[3].insert(rng.randrange(len(n[3]) + 1), copy.deepcopy(n[3][i]))
    elif op == "swap" and len(n[3]) > 1:
        i, j = rng.sample(range(len(n[3])), 2)
        n[3][i], n[3][j] = n[3][j], n[3][i]
    elif op == "rename":
        n[0] = rng.choice(FOREIGN_NAMES + [x[0] for _, x in nodes])
    elif op == "content":
        n[1] = rng.choice(pool)
    elif op == "attr":
        k = rng.random()
        if k < 0.3 and n[2]:
            del n[2][rng.randrange(len(n[2]))]
        elif k < 0.6 and n[2]:
            n[2][rng.randrange(len(n[2]))][1] = rng.choice([x for x in pool if x is not None])
        else:
            key = rng.choice(["zzAttr", "id", "scope", "system", "lang", "xml:lang", "\u00e4", "function", "phonetype"])
            if key not in [a[0] for a in n[2]]:
                n[2].append([key, rng.choice([x for x in pool if x is not None])])
    elif op == "graft":
        donor = copy.deepcopy(rng.choice(nodes)[1])
        if size(donor) > 12:
            return None
        n[3].insert(rng.randrange(len(n[3]) + 1), donor)
    else:
        return None
    return (op, list(p))


def mutate(rng, t, n_ops=1, pool=CONTENT_POOL, avoid_below_metadata=False):
    """Apply n_ops adversarial edits in place; returns the list of (op, path) applied."""
    done = []
    for _ in range(n_ops):
        for _attempt in range(12):
            applied = _mutate_once(rng, t, pool, avoid_below_metadata)
            if applied is not None:
                done.append(applied)
                break
    return done


def foreign_subtree(rng, max_nodes=8):
    n = [rng.choice(["foo", "bar", "dataset", "title", "metadata", "x:y", "\u00fc"]), rng.choice(CONTENT_POOL[:14]),
         [["k%d" % i, rng.choice(["v", "", "1"])] for i in range(rng.randrange(0, 3))], []]
    budget = max_nodes - 1
    while budget > 0 and rng.random() < 0.6:
        k = foreign_subtree(rng, min(budget, 3))
        budget -= size(k)
        n[3].append(k)
    return n


# ------------------------------------------------------------------ fresh string objects
def fr(s):
    """A NEW str object equal to s (None stays None): the harness never hands the library a string object it
    could share with the library's own constants, so `is`-for-`==` slips become observable."""
    if s is None:
        return None
    return "".join([c for c in s]) if len(s) != 1 else (s + "\x00")[:1]


def fresh_tree(t):
    return [fr(t[0]), fr(t[1]), [[fr(k), fr(v)] for k, v in t[2]], [fresh_tree(k) for k in t[3]]]


def build_tree(t):
    from harness import rulelib as RL
    return RL.build_tree(fresh_tree(t))


def build_node(name, content, attrs, kids):
    from harness import rulelib as RL
    return RL.build_node(fr(name), fr(content), [(fr(k), fr(v)) for k, v in attrs], [fr(k) for k in kids])


# ------------------------------------------------------------------ history sensitivity
# The Coq models are pure functions of (tables, tree); "validation is stateless" is an assumption of
# every theorem.  These helpers validate the SAME node objects repeatedly — twice in collecting mode,
# fail-fast in between, with an error list that already holds another node's entries, after in-place
# edits and after undoing them — and require each result to equal the result on a freshly built
# identical tree.

def node_paths(root):
    out = {}

    def go(n, p):
        out[id(n)] = p
        for i, c in enumerate(n.children):
            go(c, p + (i,))
    go(root, ())
    return out


def canon_entry(e, paths):
    try:
        return [e[0].name, e[1], list(paths.get(id(e[2]), ("?",))), repr(e[3:])]
    except Exception:  # noqa
        return ["MALFORMED-ENTRY", repr(e)]


def run_ff(fn):
    try:
        with_limit(lambda: fn(None))
        return ["OK", ""]
    except Exception as ex:  # noqa
        return [type(ex).__name__, str(ex)]


def run_collect(fn, paths, prefill=None):
    """collected entries (canonical). With prefill: the list handed in already holds those entries;
    returns only what was appended, or a marker if the existing entries were disturbed."""
    errs = list(prefill) if prefill else []
    n0 = len(errs)
    try:
        with_limit(lambda: fn(errs))
    except Exception as ex:  # noqa
        return [canon_entry(e, paths) for e in errs[n0:]] + [["RAISED:" + type(ex).__name__, str(ex)]]
    if prefill and (len(errs) < n0 or any(a is not b for a, b in zip(errs[:n0], prefill))):
        return [["PREFIX-DISTURBED", repr(errs[:n0])]]
    return [canon_entry(e, paths) for e in errs[n0:]]


def fresh_result(t, call):
    """(ff, collected) of validate.<call> on a freshly built tree."""
    from harness import rulelib as RL
    from metapype.eml import validate
    root = build_tree(t)
    fn = getattr(validate, call)
    paths = node_paths(root)
    return run_ff(lambda e: fn(root, e)), run_collect(lambda e: fn(root, e), paths)


def foreign_entries():
    """what a caller's list may already hold: the entries of another, unrelated node"""
    from metapype.eml import validate
    from metapype.model.node import Node
    errs = []
    other = Node("zzSomeOtherNode", content="x")
    validate.node(other, errs)
    bad = Node("title", content=None)
    bad.add_attribute("zzAttr", "1")
    validate.node(bad, errs)
    return errs


def _edit_in_place(rng, t, root, pool):
    """One in-place edit applied to the plain tree t and to the live tree root alike.
    Returns (description, undo) where undo() reverts both."""
    from metapype.model.node import Node
    nodes = list(walk(t))
    p, n = rng.choice(nodes)
    live = root
    for i in p:
        live = live.children[i]
    op = rng.choice(["content", "content", "attr+", "attr-", "drop", "add", "rename"])
    if op == "content":
        old = n[1]
        new = rng.choice([x for x in pool if x != old])
        n[1] = new
        live.content = new

        def undo():
            n[1] = old
            live.content = old
        return ["content", list(p), new], undo
    if op == "attr+":
        key = rng.choice(["zzAttr", "id", "scope", "system", "lang", "function"])
        if key in [a[0] for a in n[2]]:
            return None, None
        val = rng.choice([x for x in pool if x is not None])
        n[2].append([key, val])
        live.add_attribute(key, val)

        def undo():
            n[2].pop()
            live.remove_attribute(key)
        return ["attr+", list(p), key, val], undo
    if op == "attr-" and n[2]:
        i = rng.randrange(len(n[2]))
        if i != len(n[2]) - 1:
            return None, None          # keep dict order identical after undo: only the last attribute is removed
        key, val = n[2].pop()
        live.remove_attribute(key)

        def undo():
            n[2].append([key, val])
            live.add_attribute(key, val)
        return ["attr-", list(p), key], undo
    if op == "drop" and n[3]:
        i = rng.randrange(len(n[3]))
        sub = n[3].pop(i)
        lsub = live.children[i]
        live.remove_child(lsub)

        def undo():
            n[3].insert(i, sub)
            live.add_child(lsub, index=i)
        return ["drop", list(p), i], undo
    if op == "add":
        name = rng.choice(["title", "para", "zzNew", "metadata", n[0]])
        i = rng.randrange(len(n[3]) + 1)
        sub = [name, rng.choice(pool[:8]), [], []]
        lsub = Node(name, content=sub[1])
        n[3].insert(i, sub)
        live.add_child(lsub, index=i)

        def undo():
            n[3].pop(i)
            live.remove_child(lsub)
        return ["add", list(p), i, name], undo
    if op == "rename":
        old = n[0]
        new = rng.choice(["zzRenamed", "metadata", "title", "para"])
        if new == old:
            return None, None
        n[0] = new
        live.name = new

        def undo():
            n[0] = old
            live.name = old
        return ["rename", list(p), new], undo
    return None, None


def history_problems(rng, t, call="tree", pool=CONTENT_POOL, n_edits=2):
    """Returns a list of (step, what, details) where the result on the SAME objects differs from the
    result on a freshly built identical tree. t is not modified."""
    from harness import rulelib as RL
    from metapype.eml import validate
    from metapype.model.node import Node
    t = copy.deepcopy(t)
    fn = getattr(validate, call)
    problems = []
    steps = []

    def compare(step, got, want, kind):
        steps.append(step)
        if got != want or any(isinstance(e, list) and e and isinstance(e[0], str) and e[0].startswith("RAISED:") for e in got):
            raised = got != want or None
            problems.append((step, (f"validate.{call} on the same objects ({' -> '.join(steps)}) gave a different {kind} than on a freshly built identical tree"
                                    if got != want else f"validate.{call} raised in collecting mode ({' -> '.join(steps)}): {got[-1]}"),
                             {"kind": "impl-vs-statement", "call": "validate." + call, "tree": copy.deepcopy(t), "history": list(steps),
                              "observed": got, "expected_from_fresh_tree": want}))
    want_ff, want_col = fresh_result(t, call)
    root = build_tree(t)
    paths = node_paths(root)
    compare("collect", run_collect(lambda e: fn(root, e), paths), want_col, "error list")
    compare("collect-again", run_collect(lambda e: fn(root, e), paths), want_col, "error list")
    compare("fail-fast", run_ff(lambda e: fn(root, e)), want_ff, "fail-fast outcome")
    compare("collect-into-non-empty-list", run_collect(lambda e: fn(root, e), paths, prefill=foreign_entries()), want_col, "appended error list")
    compare("fail-fast-again", run_ff(lambda e: fn(root, e)), want_ff, "fail-fast outcome")
    for _ in range(n_edits):
        desc, undo = None, None
        for _attempt in range(8):
            desc, undo = _edit_in_place(rng, t, root, pool)
            if desc is not None:
                break
        if desc is None:
            break
        for label, action in (("edit:" + desc[0], None), ("undo:" + desc[0], undo)):
            if action is not None:
                action()
            want_ff, want_col = fresh_result(t, call)
            paths = node_paths(root)
            compare(label + "/collect", run_collect(lambda e: fn(root, e), paths), want_col, "error list")
            compare(label + "/fail-fast", run_ff(lambda e: fn(root, e)), want_ff, "fail-fast outcome")
            compare(label + "/collect-again", run_collect(lambda e: fn(root, e), paths), want_col, "error list")
    Node.store.clear()
    return problems


# ------------------------------------------------------------------ two independent problems in document order
def _spec_names(spec):
    if not spec:
        return []
    if isinstance(spec[0], str):
        return [spec[0]]
    if isinstance(spec[-1], list):
        return [n for i in spec for n in _spec_names(i)]
    return [n for i in spec[:-2] for n in _spec_names(i)]


def _leaf(name):
    return [name, None, [], []]


def problem_fragments(rng, all_names=False):
    """Small subtrees that each carry ONE kind of problem, derived from the live rule table:
    A = single nodes (every content error kind via the C02 classifier, attribute kinds, unknown element,
        metadata with two children, incl. the kinds whose collected record is a 3-tuple);
    B = parents with a children problem (missing, duplicated, reversed = allowed-but-misplaced,
        a-b-a = allowed-but-misplaced after a valid prefix, foreign child)."""
    from harness import rulelib as RL
    from harness import c02 as C02
    from metapype.eml import rule as R
    rules = RL.live_rules()
    by_rule = {}
    for name, rname in R.node_mappings.items():
        if rname in rules:
            by_rule.setdefault(name if all_names else rname, name)
    A, B = [], []
    A.append(("unknown-element", ["zzUnknownElement", "x", [], []]))
    A.append(("unknown-element-empty-name", ["", None, [], []]))
    A.append(("metadata-two-children", ["metadata", None, [], [_leaf("a"), _leaf("b")]]))
    A.append(("valid-title", ["title", "A valid title of sufficient length", [], []]))
    for name in by_rule.values():
        rname = R.node_mappings[name]
        rj = rules[rname]
        attrs, kids = C02.skeleton(rj)
        attrs = [list(a) for a in attrs]
        crs = rj[2].get("content_rules", [])
        enum = rj[2].get("content_enum") if "content_enum" in rj[2] else None
        mixed = rname in (R.RULE_TEXT, R.RULE_ANYNAME, R.RULE_PARA, R.RULE_SUBSCRIPT, R.RULE_SUPERSCRIPT)
        ok = RL.canonical_content(rj)
        kid_nodes = [_leaf(k) for k in kids]
        # content problems: up to 3 rejected contents of different classes
        if crs != ["emptyContent"] or enum is not None:
            seen = set()
            pool = [None, ""] + C02.pool_for(_Ctx(rng), crs, enum, 0)
            rng.shuffle(pool)
            for c in [None, ""] + pool:
                v, cls = C02.expected(crs, enum, mixed, c, len(kids))
                if v == C02.REJECT and cls not in seen and len(seen) < 3:
                    seen.add(cls)
                    A.append((f"content:{rname}:{cls}", [name, c, copy.deepcopy(attrs), copy.deepcopy(kid_nodes)]))
        else:
            A.append((f"content:{rname}:not-empty", [name, rng.choice(["x", "", " "]), copy.deepcopy(attrs), copy.deepcopy(kid_nodes)]))
        # attribute problems
        if any(sp[0] is True for sp in rj[0].values()):
            A.append((f"attr-required:{rname}", [name, ok, [], copy.deepcopy(kid_nodes)]))
        for k, sp in rj[0].items():
            if len(sp) > 1:
                A.append((f"attr-enum:{rname}", [name, ok, copy.deepcopy([a for a in attrs if a[0] != k]) + [[k, rng.choice(["zz-unlisted", ""])]], copy.deepcopy(kid_nodes)]))
                break
        if rng.random() < 0.3:
            A.append((f"attr-unrecognized:{rname}", [name, ok, copy.deepcopy(attrs) + [["zzAttr", rng.choice(["1", ""])]], copy.deepcopy(kid_nodes)]))
        # children problems
        allowed = _spec_names(rj[1])
        if allowed:
            def mk(label, names):
                B.append((f"children:{label}:{rname}", [name, ok, copy.deepcopy(attrs), [_leaf(k) for k in names]]))
            if kids:
                mk("missing-first", kids[1:])
                mk("reversed", list(reversed(kids)))
            mk("duplicated-last", kids + [(kids or allowed)[-1]] * 2)
            mk("a-b-a", [allowed[0], allowed[-1], allowed[0]])
            if len(allowed) >= 3:
                a, b = rng.sample(allowed, 2)
                mk("x-y-x", [a, b, a])
            mk("foreign-child", kids + ["zzForeignChild"])
            mk("valid-then-misplaced", kids + [allowed[0]])
    return A, B


class _Ctx:
    def __init__(self, rng):
        self.rng = rng


def problem_pairs(rng, thorough=False):
    """Trees with TWO independent problems in document order under one root: every single-node kind (A) first and
    a children problem (B) second, B then A, and sampled A-A / B-B pairs. Roots: an unknown element (its own record
    comes first) and a known container so that the first fragment's record is the latest one when the second
    fragment is reached."""
    A, B = problem_fragments(rng, all_names=thorough)
    three = [a for a in A if a[0].startswith(("unknown-element", "metadata-two", "valid-title")) or "malformed" in a[0] and "nonEmpty" in a[0]]
    nonempty = [a for a in A if a[1][1] in (None, "") and a[0].startswith("content:")]
    firsts_always = three + nonempty[:6]
    out = []

    def emit(f1, f2, root):
        out.append((f1[0] + " THEN " + f2[0], [root, None, [], [copy.deepcopy(f1[1]), copy.deepcopy(f2[1])]]))
    for b in B:
        for a in firsts_always:
            emit(a, b, "zzRoot")
        for a in rng.sample(A, 3 if not thorough else 8):
            emit(a, b, rng.choice(["zzRoot", "dataset", "eml"]))
            emit(b, a, "zzRoot")
        b2 = rng.choice(B)
        emit(b, b2, "zzRoot")
    for a in A:
        for a2 in rng.sample(A, 4 if not thorough else 12):
            emit(a, a2, rng.choice(["zzRoot", "dataset"]))
    return out


def wide_trees(rng):
    """A few nodes with more than 256 children / attributes (sizes past CPython's small-int cache)."""
    out = []
    for n in (257, 300):
        out.append(("wide:keywordSet", ["keywordSet", None, [], [["keyword", "k%d" % i, [], []] for i in range(n)]]))
        out.append(("wide:section-paras", ["section", None, [], [["para", "p%d" % i, [], []] for i in range(n)]]))
        out.append(("wide:metadata", ["metadata", None, [], [["x%d" % i, None, [], []] for i in range(n)]]))
        out.append(("wide:attributes", ["title", "A title", [["a%d" % i, str(i)] for i in range(n)], []]))
        out.append(("wide:max-exceeded", ["dataset", None, [], [["title", "t", [], []]] + [["pubDate", "2021", [], []] for _ in range(n)]]))
        out.append(("wide:foreign-children", ["creator", None, [], [["zz%d" % (i % 7), None, [], []] for i in range(n)]]))
    return out


# ------------------------------------------------------------------ the rule table must not change under use
def file_rules():
    """rules.json of the repository under test, parsed afresh (a pristine copy of the table)."""
    import json
    with open(os.path.join(common.REPO, "src", "metapype", "eml", "rules.json"), encoding="utf-8") as f:
        return json.load(f)


def table_diff():
    """names of the rules whose LIVE entry differs from rules.json (after a run: the library or a caller-visible
    alias mutated the table)."""
    from metapype.eml import rule as R
    pristine = file_rules()
    live = R.rules_dict
    return sorted(k for k in set(pristine) | set(live) if pristine.get(k) != live.get(k))


# ------------------------------------------------------------------ a check must never hang (lesson p)
class ValidationTimeout(Exception):
    """an implementation call did not return within its per-call time limit"""


TIMEOUTS = 0


def with_limit(fn, seconds=5.0):
    """Run fn() under a per-call time limit (SIGALRM/ITIMER_REAL, re-firing every `seconds` so that code which swallows
    the exception and loops again is interrupted again). The previous handler and the remaining time of the
    check-wide watchdog of harness/common.py are restored afterwards. After three time-outs the limit drops to 0.5 s."""
    import signal
    import time
    global TIMEOUTS
    if TIMEOUTS >= 3:
        seconds = min(seconds, 0.5)
    old_handler = signal.getsignal(signal.SIGALRM)
    remaining, interval = signal.getitimer(signal.ITIMER_REAL)
    t0 = time.time()
    fired = []

    def fire(sig, frame):
        fired.append(1)
        raise ValidationTimeout(f"no result within {seconds} s")
    signal.signal(signal.SIGALRM, fire)
    signal.setitimer(signal.ITIMER_REAL, seconds, seconds)
    try:
        return fn()
    finally:
        signal.setitimer(signal.ITIMER_REAL, 0, 0)
        signal.signal(signal.SIGALRM, old_handler if old_handler is not None else signal.SIG_DFL)
        if remaining > 0:
            signal.setitimer(signal.ITIMER_REAL, max(0.05, remaining - (time.time() - t0)), interval)
        if fired:
            TIMEOUTS += 1

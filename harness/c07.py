"""C07 — XML export is well-formed and round-trips the tree.

Steps: build the proof cone; generate trees in (and, for the correspondence only, outside)
the property's precondition class; run both exporters of the implementation;
(S) statement: output parsed by lxml AND expat, compared with the tree 'up to whitespace'
    (independent of the Coq model), plus from_xml(to_xml(t));
(B) correspondence: the Gallina exporters evaluated in Coq must reproduce the implementation's
    output code point for code point; the specification parser xparse evaluated in Coq must
    agree with expat (syntactic view) and lxml (ElementTree view) on every generated document
    and with both on accept/reject of corrupted documents."""
import os

from harness import common
from harness import nodelib as NL
from harness import rulelib as RL
from harness import xmllib as X
from harness.common import cstr, copt, clist, cpair

PREFIXES = ["p", "q", "ns1", "eml", "xsi", "stmml", "é", "x-1", "_"]


def coq_tree(sn):
    """nodelib.coq_ftree, with a default-namespace key None printed as the string the exporter's
    f-string prints for it ("None"); such trees are outside the class and go to the correspondence only"""
    def fix(s):
        return dict(s, nsmap=[["None" if k is None else k, v] for k, v in s["nsmap"]], kids=[fix(k) for k in s["kids"]])
    return NL.coq_ftree(fix(sn))


def json_doc(sn):
    """the JSON text of a tree in metapype's own layout, written by the harness (document-first)"""
    import json

    def ser(s):
        return {s["name"]: [{"id": s["id"]}, {"nsmap": dict(s["nsmap"])}, {"prefix": s["prefix"]},
                            {"attributes": dict(s["attrs"])}, {"extras": dict(s["extras"])}, {"content": s["content"]},
                            {"tail": s["tail"]}, {"children": [ser(k) for k in s["kids"]]}]}
    return json.dumps(ser(sn))


# ------------------------------------------------------------------ generators
def gen_nsmap_root(rng):
    n = rng.choice([0, 0, 1, 1, 2, 3])
    ps = rng.sample(PREFIXES, n)
    return [[p, rng.choice(X.URIS)] for p in ps]


def gen_nsmap_child(rng, parent):
    r = rng.random()
    m = [list(kv) for kv in parent]
    if r < 0.5:
        return m
    if rng.random() < 0.5 and m:
        i = rng.randrange(len(m))
        m[i][1] = rng.choice(X.URIS)          # re-declare (possibly to the same URI)
    if rng.random() < 0.6:
        fresh = [p for p in PREFIXES if p not in [k for k, _ in m]]
        if fresh:
            kv = [rng.choice(fresh), rng.choice(X.URIS)]
            m.insert(rng.randrange(len(m) + 1), kv)
    if rng.random() < 0.3:
        rng.shuffle(m)
    return m


def gen_extras(rng, nsmap):
    out = []
    seen = set()
    scope = dict(nsmap)
    for _ in range(rng.choice([0, 0, 0, 1, 1, 2])):
        p = rng.choice([k for k, _ in nsmap] + ["xml"]) if nsmap else "xml"
        l = "lang" if p == "xml" else X.rand_name(rng)
        key = p + ":" + l
        ex = X.expand(key, scope)
        if ex in seen or key in [k for k, _ in out]:
            continue
        seen.add(ex)
        out.append([key, "en" if p == "xml" and rng.random() < 0.5 else X.rand_text(rng, attr=True)])
    return out


def gen_attrs(rng):
    out = []
    for _ in range(rng.choice([0, 0, 1, 1, 2, 3])):
        k = X.rand_name(rng, avoid=[a for a, _ in out])
        out.append([k, X.rand_text(rng, attr=True)])
    return out


def gen_content(rng):
    r = rng.random()
    if r < 0.3:
        return None
    if r < 0.4:
        return "".join(rng.choice([" ", "\t", "\n", "\u00a0", "\r"]) for _ in range(rng.randrange(0, 4)))
    if r < 0.55:
        return rng.choice([" ", "\n", "", "\r\n"]) + X.rand_text(rng) + rng.choice([" ", "\n  ", "", "\u00a0", "\r"])
    return X.rand_text(rng)


def gen_tree(rng, counter, depth, parent_ns, is_root, closed=True):
    nsmap = gen_nsmap_root(rng) if is_root else (gen_nsmap_child(rng, parent_ns) if closed else gen_nsmap_root(rng))
    prefix = rng.choice([k for k, _ in nsmap]) if nsmap and rng.random() < 0.5 else None
    counter[0] += 1
    sn = {"id": "n%d" % counter[0], "name": X.rand_name(rng), "content": gen_content(rng),
          "tail": None if is_root or rng.random() < 0.6 else gen_content(rng),
          "prefix": prefix, "attrs": gen_attrs(rng), "extras": gen_extras(rng, nsmap), "nsmap": nsmap, "kids": []}
    if depth > 0:
        for _ in range(rng.choice([0, 0, 1, 1, 2, 3]) if not is_root else rng.choice([0, 1, 2, 3])):
            if counter[0] >= 9:
                break
            sn["kids"].append(gen_tree(rng, counter, depth - 1, nsmap, False, closed))
    return sn


def gen_eml_tree(rng, counter, depth, is_root, in_class):
    """Trees for export.to_xml. in_class: no node with text and children, content free of the
    pre-escaped entity spellings and of para tags; no prefixes/extras/tails (the exporter
    ignores them)."""
    counter[0] += 1
    # 'eml' also below the root: the renaming and the boilerplate belong to level 0 only
    name = "eml" if rng.random() < (0.5 if is_root else 0.1) else X.rand_name(rng)
    sn = {"id": "n%d" % counter[0], "name": name, "content": None, "tail": None, "prefix": None,
          "attrs": gen_attrs(rng), "extras": [], "nsmap": [], "kids": []}
    nk = 0
    if depth > 0 and counter[0] < 9:
        nk = rng.choice([0, 0, 1, 2, 3])
    want_content = rng.random() < 0.6
    if in_class:
        if nk and want_content and rng.random() < 0.5:
            nk = 0
        elif nk:
            want_content = False
    if want_content:
        for _ in range(20):
            c = gen_content(rng)
            if c is None:
                c = X.rand_text(rng)
            if not in_class or eml_content_ok(c):
                sn["content"] = c
                break
        else:
            sn["content"] = "x"
    if not in_class:
        if rng.random() < 0.3:
            sn["tail"] = gen_content(rng)
        if rng.random() < 0.2:
            sn["extras"] = [["xml:lang", "en"]]
        if rng.random() < 0.2:
            sn["nsmap"] = [["p", "u"]]
            sn["prefix"] = "p"
    for _ in range(nk):
        if counter[0] >= 9:
            break
        sn["kids"].append(gen_eml_tree(rng, counter, depth - 1, False, in_class))
    return sn


def eml_content_ok(c):
    """exactly the quantifier's exclusions: the three pre-escaped spellings and the inline para tags"""
    return all(x not in c for x in ("&amp;", "&lt;", "&gt;", "<para>", "</para>"))


def eml_in_class(sn):
    """class of export.to_xml on a snapshot whose names come from the legal pools"""
    for s in flatten(sn):
        if s["content"] is not None and (s["kids"] or not eml_content_ok(s["content"])):
            return False
        if any(k == "xmlns" or ":" in k for k, _ in s["attrs"]):
            return False
    return True


def big_tree(rng, eml):
    """one node with more than 256 children and one with more than 256 attributes"""
    kids = []
    for i in range(300):
        kids.append({"id": "b%d" % i, "name": X.rand_name(rng), "content": (gen_content(rng) if i % 7 == 0 else None),
                     "tail": None, "prefix": None, "attrs": ([["i", str(i)]] if i % 5 == 0 else []), "extras": [], "nsmap": [], "kids": []})
    attrs = []
    seen = set()
    while len(attrs) < 300:
        k = X.rand_name(rng) + "%d" % len(attrs)
        if k not in seen:
            seen.add(k)
            attrs.append([k, X.rand_text(rng, attr=True, maxlen=4)])
    kids[150]["attrs"] = attrs
    if eml:
        for k in kids:
            if k["content"] is not None and not eml_content_ok(k["content"]):
                k["content"] = "x"
    return {"id": "big", "name": "eml" if eml else "root", "content": None, "tail": None, "prefix": None,
            "attrs": [["n", "300"]], "extras": [], "nsmap": [], "kids": kids}


# ------------------------------------------------------------------ the statement, on the implementation
def check_general(ctx, sn, out, idx):
    """(S) for metapype_io.to_xml: well-formed for both parsers, same tree up to whitespace."""
    key = None
    d, err = X.lxml_parse(out)
    e, err2 = X.et_parse(out)
    if d is None or e is None:
        ctx.fail("C07:general:ill-formed", f"metapype_io.to_xml output rejected by {'lxml' if d is None else 'expat'}: {err or err2}",
                 {"kind": "impl-vs-statement", "exporter": "metapype_io.to_xml", "tree": sn, "output": out, "lxml": err, "expat": err2})
        return None
    r = X.sim_lxml(d, sn, check_tail=False) or X.sim_et(e, sn, iter(X.et_scopes(out)))
    if r:
        ctx.fail("C07:general:roundtrip", f"parsed output differs from the tree: {r}",
                 {"kind": "impl-vs-statement", "exporter": "metapype_io.to_xml", "tree": sn, "output": out, "difference": r})
    r2 = X.agree_lxml_et(d, e)
    if r2:
        ctx.fail("C07:parsers-disagree", f"lxml and expat disagree on the exporter's output: {r2}",
                 {"kind": "oracle-disagreement", "output": out, "difference": r2}, concrete=False)
    return d


def check_reimport(ctx, sn, out):
    """from_xml(to_xml(t)) in raw mode mirrors the tree up to whitespace (extras by expanded name)."""
    from metapype.model import metapype_io as io
    try:
        n2 = io.from_xml(out, clean=False)
    except Exception as ex:
        ctx.fail("C07:general:reimport-raises", f"from_xml(to_xml(t)) raised {type(ex).__name__}: {ex}",
                 {"kind": "impl-vs-statement", "tree": sn, "output": out})
        return
    s2 = NL.snapshot(n2)
    NL.reset_store()
    r = sim_snap(s2, sn)
    if r:
        ctx.fail("C07:general:reimport", f"from_xml(to_xml(t)) differs from t: {r}",
                 {"kind": "impl-vs-statement", "tree": sn, "output": out, "reimported": X.strip_ids(s2), "difference": r})


def sim_snap(a, b, path="/", root=True):
    here = path + b["name"]
    if a["name"] != b["name"] or a["prefix"] != b["prefix"]:
        return f"{here}: name/prefix"
    if a["attrs"] != b["attrs"]:
        return f"{here}: attributes {a['attrs']!r} != {b['attrs']!r}"
    ea = [[X.expand(k, dict(a["nsmap"])), v] for k, v in a["extras"]]
    eb = [[X.expand(k, dict(b["nsmap"])), v] for k, v in b["extras"]]
    if ea != eb:
        return f"{here}: qualified attributes {ea!r} != {eb!r}"
    if dict(a["nsmap"]) != dict(b["nsmap"]):
        return f"{here}: namespace bindings {a['nsmap']!r} != {b['nsmap']!r}"
    if X._ws(a["content"]) != X._ws(b["content"]):
        return f"{here}: content {a['content']!r} !~ {b['content']!r}"
    if not root and X._ws(a["tail"]) != X._ws(b["tail"]):
        return f"{here}: tail {a['tail']!r} !~ {b['tail']!r}"
    if len(a["kids"]) != len(b["kids"]):
        return f"{here}: child count"
    for x, y in zip(a["kids"], b["kids"]):
        r = sim_snap(x, y, here + "/", False)
        if r:
            return r
    return None


BOILER_ATTR = ["{http://www.w3.org/2001/XMLSchema-instance}schemaLocation",
               "https://eml.ecoinformatics.org/eml-2.2.0 https://nis.lternet.edu/schemas/EML/eml-2.2.0/xsd/eml.xsd"]


def sim_eml(tag, attrib, text, kids, sn, root, path="/"):
    here = path + sn["name"]
    # only an eml ROOT is written eml:eml (in the EML namespace); every other element is unqualified
    want_tag = "{https://eml.ecoinformatics.org/eml-2.2.0}eml" if root and sn["name"] == "eml" else sn["name"]
    if tag != want_tag:
        return f"{here}: element name {tag!r} != {want_tag!r}"
    want = [list(kv) for kv in sn["attrs"]]
    if root and sn["name"] == "eml":
        want = want + [BOILER_ATTR]
    if attrib != want:
        return f"{here}: attributes {attrib!r} != {want!r}"
    if X._ws(text) != X._ws(sn["content"]):
        return f"{here}: text {text!r} !~ {sn['content']!r}"
    if len(kids) != len(sn["kids"]):
        return f"{here}: {len(kids)} children != {len(sn['kids'])}"
    return None


def check_eml(ctx, sn, out, source="generated"):
    """(S) for export.to_xml on a tree of its precondition class."""
    d, err = X.lxml_parse(out)
    e, err2 = X.et_parse(out)
    if d is None or e is None:
        ctx.fail("C07:eml:ill-formed", f"export.to_xml output rejected by {'lxml' if d is None else 'expat'}: {err or err2}",
                 {"kind": "impl-vs-statement", "exporter": "export.to_xml", "tree": sn, "output": out, "lxml": err, "expat": err2, "source": source})
        return

    def walk_l(dd, s, root, path):
        kids = [k for k in dd["kids"] if k["kind"] == "elem"]
        r = sim_eml(dd["tag"], dd["attrib"], dd["text"], kids, s, root, path)
        if r:
            return r
        for a, b in zip(kids, s["kids"]):
            r = walk_l(a, b, False, path + s["name"] + "/")
            if r:
                return r

    def walk_e(ee, s, root, path):
        r = sim_eml(ee.tag, [[k, v] for k, v in ee.attrib.items()], ee.text, list(ee), s, root, path)
        if r:
            return r
        for a, b in zip(list(ee), s["kids"]):
            r = walk_e(a, b, False, path + s["name"] + "/")
            if r:
                return r

    r = walk_l(d, sn, True, "/") or walk_e(e, sn, True, "/")
    if r:
        ctx.fail("C07:eml:roundtrip", f"parsed export.to_xml output differs from the tree: {r}",
                 {"kind": "impl-vs-statement", "exporter": "export.to_xml", "tree": sn, "output": out, "difference": r, "source": source})


# ------------------------------------------------------------------ corrupted documents (accept/reject agreement)
def corrupt(rng, doc):
    if not doc:
        return doc
    i = rng.randrange(len(doc))
    r = rng.random()
    if r < 0.35:
        return doc[:i] + doc[i + 1:]
    if r < 0.7:
        return doc[:i] + rng.choice(["<", ">", "&", '"', "'", "/", "=", " ", ";", "x", ":", "]]>", "&#0;", "&#x41;", "&apos;", "<!--c-->", "<?pi?>", "<![CDATA[<]]>", "\x01"]) + doc[i:]
    j = rng.randrange(len(doc))
    a, b = min(i, j), max(i, j)
    return doc[:a] + doc[b:a:-1] + doc[b + 1:] if rng.random() < 0.3 else doc[:a] + doc[b:]



# ------------------------------------------------------------------ history sensitivity and optional parameters
def all_nodes(n):
    yield n
    for c in n.children:
        yield from all_nodes(c)


def node_path(root, n):
    """child indices from root to n, by search (parent links may be missing after direct list edits)"""
    def go(x, acc):
        if x is n:
            return acc
        for i, c in enumerate(x.children):
            r = go(c, acc + [i])
            if r is not None:
                return r
        return None
    return go(root, [])


def edit_in_place(rng, root, tag):
    """1-3 random in-place edits through the public Node API; returns their descriptions."""
    from metapype.model.node import Node, Shift
    ops = []
    for i in range(rng.randrange(1, 4)):
        n = rng.choice(list(all_nodes(root)))
        where = node_path(root, n)
        r = rng.randrange(12)
        if r == 9:
            k, v = X.rand_name(rng), X.rand_text(rng, attr=True)
            n.attributes[k] = v                       # direct mutation through the exposed dict
            ops.append(["attributes[k]=v", where, k, v])
        elif r == 10:
            pfx, uri = rng.choice(PREFIXES), rng.choice(X.URIS)
            n.nsmap[pfx] = uri                        # shared maps change for every node sharing them
            ops.append(["nsmap[k]=v", where, pfx, uri])
        elif r == 11:
            c = Node(X.rand_name(rng), id="%s-a%d" % (tag, i), content=gen_content(rng))
            n.children.append(c)
            ops.append(["children.append", where, c.name, c.content])
        elif r == 0:
            n.content = gen_content(rng)
            ops.append(["content", where, n.content])
        elif r == 1 and n is not root:
            n.tail = gen_content(rng)
            ops.append(["tail", where, n.tail])
        elif r == 2:
            k, v = X.rand_name(rng), X.rand_text(rng, attr=True)
            n.add_attribute(k, v)
            ops.append(["add_attribute", where, k, v])
        elif r == 3 and n.attributes:
            k = rng.choice(list(n.attributes))
            n.remove_attribute(k)
            ops.append(["remove_attribute", where, k])
        elif r == 4:
            n.name = X.rand_name(rng)
            ops.append(["name", where, n.name])
        elif r == 5:
            pfx, uri = rng.choice(PREFIXES), rng.choice(X.URIS)
            n.add_namespace(pfx, uri)
            ops.append(["add_namespace", where, pfx, uri])
        elif r == 6:
            c = Node(X.rand_name(rng), id="%s-e%d" % (tag, i), content=gen_content(rng))
            n.add_child(c)
            ops.append(["add_child", where, c.name, c.content])
        elif r == 7 and n.children:
            j = rng.randrange(len(n.children))
            n.remove_child(n.children[j])
            ops.append(["remove_child", where, j])
        elif r == 8 and n.children:
            j = rng.randrange(len(n.children))
            d = rng.choice(list(Shift))
            n.shift(n.children[j], d, sib=False)
            ops.append(["shift", where, j, d.name])
    return ops


def in_general_class(sn, parent_keys=None):
    """the precondition class of the general exporter, on a snapshot (names come from the legal pools)"""
    if parent_keys is None:
        if sn["tail"] is not None:          # no tail on the root
            return False
        parent_keys = ()
    if any(k is None for k, _ in sn["nsmap"]):      # a default namespace: deliberately outside the class
        return False
    ns = dict(sn["nsmap"])
    if any(k not in ns for k in parent_keys):      # non-closed: a child lacks a prefix of its parent
        return False
    if any(u in ("", X.XML_NS, "http://www.w3.org/2000/xmlns/") or k in ("xml", "xmlns") for k, u in sn["nsmap"]):
        return False
    if sn["prefix"] is not None and sn["prefix"] not in ns:
        return False
    ex = [X.expand(k, ns) for k, _ in sn["extras"]]
    if None in ex or len(set(ex)) != len(ex):
        return False
    if any(k in ("xmlns",) or ":" in k for k, _ in sn["attrs"]):
        return False
    return all(in_general_class(k, list(ns)) for k in sn["kids"])


def history_phase(ctx, io, export, thorough):
    """The models are pure functions of the tree; this phase tests that the implementation is too:
    repeated calls, calls after in-place edits (against a freshly built identical tree), calls
    interleaved with other trees / the other exporter / an import, a fresh interpreter in another
    order, and every optional parameter. Returns extra (B) cases for the parameterised models."""
    rng = ctx.rng
    n_hist = 300 if thorough else 55
    alive = []          # (node, first general output, first eml output, snapshot) kept across the phase
    pcases, pwants, pmeta = [], [], []      # run_to_xml_p
    lcases, lwants, lmeta = [], [], []      # run_eml_l
    for i in range(n_hist):
        sn0 = gen_tree(rng, [0], 3, None, True, True) if rng.random() < 0.7 else gen_eml_tree(rng, [0], 3, True, False)
        node = NL.build(X.freshen(sn0), attach=False)
        sn = NL.snapshot(node)
        o1 = io.to_xml(node)
        e1 = export.to_xml(node)
        rep = {"kind": "history", "tree": X.strip_ids(sn)}
        ctx.case(("hist", o1), True)
        # (a) the same object again, after the other exporter ran, after an import ran
        io.from_xml("<r xmlns:p='urn:hist'><p:c p:a='1'> x </p:c></r>")
        if io.to_xml(node) != o1 or io.to_xml(node, None, 0, False) != o1 or io.to_xml(node=node, skip_ns=False, level=0, parent=None) != o1:
            ctx.fail("C07:history:repeat", "metapype_io.to_xml gives different output for the same unchanged tree on a second call",
                     dict(rep, first=o1, second=io.to_xml(node)))
        if export.to_xml(node) != e1 or export.to_xml(node, 0) != e1 or export.to_xml(level=0, node=node) != e1:
            ctx.fail("C07:history:repeat-eml", "export.to_xml gives different output for the same unchanged tree on a second call",
                     dict(rep, first=e1, second=export.to_xml(node)))
        if NL.snapshot(node) != sn:
            ctx.fail("C07:history:export-mutates", "exporting changed the tree", dict(rep, after=X.strip_ids(NL.snapshot(node))))
        # (b) every optional parameter: sub-tree with its parent and level, skip_ns, level of the root
        nodes = list(all_nodes(node))
        for n in rng.sample(nodes, min(len(nodes), 3)):
            path = node_path(node, n)
            sub = NL.snapshot(n)
            skip = rng.random() < 0.4
            if n is node:
                level = rng.choice([0, 1, 2, 5])
                got = io.to_xml(n, None, level, skip)
                pm = "None"
            else:
                level = len(path) if rng.random() < 0.7 else rng.choice([0, 3])
                got = io.to_xml(n, n.parent, level, skip)
                pm = "(Some " + NL.coq_dict(NL.snapshot(n.parent)["nsmap"]) + ")"
                if level == len(path) and not skip and got not in o1:
                    ctx.fail("C07:history:subtree", "to_xml(child, parent, level) is not the child's part of to_xml(root)",
                             dict(rep, path=path, child_output=got, root_output=o1))
            if skip and "xmlns:" in got:
                ctx.fail("C07:param:skip_ns", "to_xml(..., skip_ns=True) wrote a namespace declaration",
                         dict(rep, path=path, level=level, output=got))
            if io.to_xml(skip_ns=skip, level=level, parent=(None if n is node else n.parent), node=n) != got:
                ctx.fail("C07:history:kwargs", "keyword and positional calls of to_xml differ", dict(rep, path=path))
            pcases.append("(" + pm + ", " + common.cnat(level) + ", " + common.cbool(skip) + ", " + coq_tree(sub) + ")")
            pwants.append(cstr(got))
            pmeta.append({"tree": X.strip_ids(sub), "level": level, "skip_ns": skip, "parent_nsmap": None if n is node else NL.snapshot(n.parent)["nsmap"], "output": got})
            lv = rng.choice([0, 1, 2, 4])
            gote = export.to_xml(n, lv)
            lcases.append("(" + common.cnat(lv) + ", " + coq_tree(sub) + ")")
            lwants.append(cstr(gote))
            lmeta.append({"tree": X.strip_ids(sub), "level": lv, "output": gote})
            ctx.case(("param", got, gote), True)
        # the statement with a non-default level, and with skip_ns on a tree without namespaces
        if in_general_class(sn) and "eml:" not in o1:
            lvl = rng.choice([1, 3])
            check_general(ctx, sn, io.to_xml(node, None, lvl), -2)
            if all(not s["nsmap"] and s["prefix"] is None and not s["extras"] for s in flatten(sn)):
                check_general(ctx, sn, io.to_xml(node, skip_ns=True), -3)
        # (c) in-place edits: the used tree must export like a freshly built identical tree
        ops = edit_in_place(rng, node, "h%d" % i)
        sn2 = NL.snapshot(node)
        o2 = io.to_xml(node)
        e2 = export.to_xml(node)
        fresh = NL.build(X.freshen(sn2), attach=False)
        o2f = io.to_xml(fresh)
        e2f = export.to_xml(fresh)
        rep2 = {"kind": "history", "tree_before": X.strip_ids(sn), "edits": ops, "tree_after": X.strip_ids(sn2)}
        ctx.case(("edit", o2), True)
        if o2 != o2f:
            ctx.fail("C07:history:stale-after-edit", "after in-place edits metapype_io.to_xml differs from the export of a freshly built identical tree",
                     dict(rep2, used_tree_output=o2, fresh_tree_output=o2f))
        if e2 != e2f:
            ctx.fail("C07:history:stale-after-edit-eml", "after in-place edits export.to_xml differs from the export of a freshly built identical tree",
                     dict(rep2, used_tree_output=e2, fresh_tree_output=e2f))
        if in_general_class(sn2):
            check_general(ctx, sn2, o2, -4)
        alive.append((node, o2, e2, sn2))
    # (d) all trees are still alive: export them again, in reverse order
    for node, o, e, sn in reversed(alive):
        if io.to_xml(node) != o or export.to_xml(node) != e:
            ctx.fail("C07:history:cross-tree", "exporting other trees in between changed the output for an unchanged tree",
                     {"kind": "history", "tree": X.strip_ids(sn), "first": [o, e], "later": [io.to_xml(node), export.to_xml(node)]})
    # (e) a fresh interpreter, shuffled order
    jobs = []
    for node, o, e, sn in alive:
        jobs.append(({"op": "to_xml", "tree": sn}, o))
        jobs.append(({"op": "eml", "tree": sn}, e))
    rng.shuffle(jobs)
    try:
        res = X.fresh_run([j for j, _ in jobs])
        for (j, want), got in zip(jobs, res):
            ctx.case(("fresh", want), False)
            if got != want:
                ctx.fail("C07:history:fresh-interpreter", "a fresh interpreter exports the same tree differently (state leaked between calls in one of the two processes)",
                         {"kind": "history", "job": j, "in_process_after_history": want, "fresh_interpreter": got})
    except Exception as ex:
        ctx.fail("harness:fresh-interpreter", "could not run the fresh-interpreter reference: %s" % ex, {"kind": "harness"}, concrete=False)
    NL.reset_store()
    return (pcases, pwants, pmeta), (lcases, lwants, lmeta)


def run(ctx):
    from metapype.model import metapype_io as io
    from metapype.eml import export
    built = ctx.build(extra_targets=["theories/Model/XmlRun.v"])
    thorough = ctx.tier == "thorough"
    n_general = 1500 if thorough else 180
    n_eml = 800 if thorough else 110
    n_corrupt = 1500 if thorough else 150
    ctx.extra["rule"] = ("random trees (<= 9 nodes, depth <= 3): names from an XML-legal pool incl. non-ASCII, prefixes bound in the node's "
                         "nsmap, child nsmaps containing the parent's prefixes (re-declared / added / reordered), qualified attributes incl. "
                         "xml:lang, values over all XML 1.0 characters (CR, and tab/newline in attribute values, included); for export.to_xml "
                         "in-class trees (no mixed content, no pre-escaped spellings, no para tags) for the statement and unrestricted trees for "
                         "the correspondence; plus the tests/data/eml.xml fixture; non-trivial = distinct output documents containing at least "
                         "one escaped character, attribute or namespace declaration")
    # exhaustive validation of the whitespace set used by lstrip/strip in the models
    spaces = [c for c in range(0x110000) if chr(c).isspace()]
    rc, outp = common.coq_eval("C07_spaces", X.HEADER + "Eval vm_compute in py_spaces.\n")
    vals = common.parse_eval_values(outp) if rc == 0 else []
    got = [int(x.replace("%N", "")) for x in vals[0].strip("[]").split(";")] if vals else None
    if got != spaces:
        ctx.fail("corr:py_spaces", "Common/XStr.py_spaces differs from str.isspace over all code points",
                 {"kind": "broken-correspondence", "coq": got, "python": spaces}, concrete=False)
    ctx.case("py_spaces-exhaustive")

    gen_cases, gen_wants, gen_meta = [], [], []
    docs = []          # (doc, origin) to be parsed by xparse in Coq
    for i in range(n_general + 1):
        closed = ctx.rng.random() < 0.85
        if i == n_general:
            sn, closed = big_tree(ctx.rng, False), True      # > 256 children, > 256 attributes
        else:
            sn = gen_tree(ctx.rng, [0], 3, None, True, closed)
            if ctx.rng.random() < 0.04:
                victims = [s for s in flatten(sn) if s["nsmap"]]
                if victims:
                    ctx.rng.choice(victims)["nsmap"][0][1] = ""      # falsy namespace name: outside the class, inside the model
            if ctx.rng.random() < 0.05:
                ctx.rng.choice(flatten(sn))["nsmap"].insert(0, [None, ctx.rng.choice(X.URIS)])   # default namespace
        node = NL.build(X.freshen(sn), attach=(not closed and ctx.rng.random() < 0.5))   # else: genuinely non-closed
        sn = NL.snapshot(node)                      # the tree as the library holds it
        out = io.to_xml(node)
        NL.reset_store()
        nontrivial = any(x in out for x in ("&", "=", "xmlns"))
        ctx.case(out, nontrivial)
        ctx.count("general:nodes=%d" % min(len(flatten(sn)), 9))
        if in_general_class(sn):
            d = check_general(ctx, sn, out, i)
            check_reimport(ctx, sn, out)
        else:
            ctx.count("general:out-of-class")
        gen_cases.append(coq_tree(sn))
        gen_wants.append(cstr(out))
        gen_meta.append({"tree": X.strip_ids(sn), "output": out})
        if in_general_class(sn) and i < n_general:
            docs.append((out, "metapype_io.to_xml"))
        ctx.sample({"tree": X.strip_ids(sn), "metapype_io.to_xml": out}, limit=3)

    eml_cases, eml_wants, eml_meta = [], [], []
    for i in range(n_eml + 1):
        in_class = ctx.rng.random() < 0.6
        sn = big_tree(ctx.rng, True) if i == n_eml else gen_eml_tree(ctx.rng, [0], 3, True, in_class)
        node = NL.build(X.freshen(sn), attach=False)
        before = NL.snapshot(node)
        out = export.to_xml(node)
        NL.reset_store()
        in_class = eml_in_class(sn)                 # decided by the class predicate, not by the generator's intent
        ctx.case(out, any(x in out for x in ("&", "=")))
        ctx.count("eml:in_class=%s" % in_class)
        if in_class:
            check_eml(ctx, sn, out)
            if i < n_eml:
                docs.append((out, "export.to_xml"))
        eml_cases.append(coq_tree(sn))
        eml_wants.append(cstr(out))
        eml_meta.append({"tree": X.strip_ids(sn), "output": out})
        if i < 2:
            ctx.sample({"tree": X.strip_ids(sn), "export.to_xml": out}, limit=5)

    # document-first: trees obtained by loading generated XML / JSON documents, through both exporters
    from harness import c08 as C8
    n_docfirst = 300 if thorough else 40
    for i in range(n_docfirst):
        try:
            if i % 2 == 0:
                doc = C8.gen_doc(ctx.rng, {"names": ["a", "b", "para", "title", "eml"], "default_ns": ctx.rng.random() < 0.15})
                clean, collapse = ctx.rng.choice(C8.FLAGS)
                node = io.from_xml(doc, clean=clean, collapse=collapse)
                origin = "from_xml"
            else:
                doc = json_doc(gen_tree(ctx.rng, [0], 3, None, True, ctx.rng.random() < 0.8))
                node = io.from_json(doc)
                origin = "from_json"
        except Exception as ex:
            ctx.fail("harness:docfirst", "loading a generated document raised %s" % type(ex).__name__, {"kind": "harness", "document": doc}, concrete=False)
            continue
        sn = NL.snapshot(node)
        out_g = io.to_xml(node)
        out_e = export.to_xml(node)
        NL.reset_store()
        ctx.case(("docfirst", origin, out_g), True)
        ctx.count("docfirst:" + origin)
        if in_general_class(sn):
            check_general(ctx, sn, out_g, -5)
            check_reimport(ctx, sn, out_g)
        if eml_in_class(sn):
            check_eml(ctx, sn, out_e, source=origin)
        gen_cases.append(coq_tree(sn)); gen_wants.append(cstr(out_g)); gen_meta.append({"tree": X.strip_ids(sn), "output": out_g, "loaded_by": origin, "document": doc})
        eml_cases.append(coq_tree(sn)); eml_wants.append(cstr(out_e)); eml_meta.append({"tree": X.strip_ids(sn), "output": out_e, "loaded_by": origin, "document": doc})

    # the fixture document through both exporters
    fixture = os.path.join(common.REPO, "tests", "data", "eml.xml")
    if os.path.exists(fixture):
        with open(fixture, encoding="utf-8") as f:
            xml = f.read()
        node = io.from_xml(xml)
        sn = NL.snapshot(node)
        out_g = io.to_xml(node)
        out_e = export.to_xml(node)
        NL.reset_store()
        ctx.case("fixture-general")
        ctx.case("fixture-eml")
        check_general(ctx, sn, out_g, -1)
        check_reimport(ctx, sn, out_g)
        if not any(s["content"] is not None and s["kids"] for s in flatten(sn)) and all(
                s["content"] is None or eml_content_ok(s["content"]) for s in flatten(sn)):
            check_eml(ctx, sn, out_e, source="tests/data/eml.xml")
        else:
            ctx.note("tests/data/eml.xml is outside export.to_xml's precondition class (mixed content or pre-escaped text)")
        # model on sub-trees of the fixture (whole document is too large for one literal)
        subs = [s for s in flatten(sn) if 2 <= len(flatten(s)) <= 14][:25]
        for s in subs:
            n = NL.build(s, attach=False)
            gen_cases.append(coq_tree(s)); gen_wants.append(cstr(io.to_xml(n))); gen_meta.append({"tree": X.strip_ids(s), "output": io.to_xml(n)})
            eml_cases.append(coq_tree(s)); eml_wants.append(cstr(export.to_xml(n))); eml_meta.append({"tree": X.strip_ids(s), "output": export.to_xml(n)})
            NL.reset_store()
            ctx.case(("fixture-sub", s["id"]))
    else:
        ctx.note("tests/data/eml.xml not found")

    # history sensitivity + optional parameters (the purity assumption of the models, tested)
    (p_cases, p_wants, p_meta), (l_cases, l_wants, l_meta) = history_phase(ctx, io, export, thorough)

    # (B) exporters: model output == implementation output, code point for code point
    shard = 150
    for label, fn, cases, wants, meta in (("gen", "run_to_xml", gen_cases, gen_wants, gen_meta),
                                          ("eml", "run_eml", eml_cases, eml_wants, eml_meta),
                                          ("genp", "run_to_xml_p", p_cases, p_wants, p_meta),
                                          ("emll", "run_eml_l", l_cases, l_wants, l_meta)):
        bad, errors = RL.coq_compare(ctx, label, fn, cases, wants, shard=shard, header=X.HEADER, eqb="pystr_eqb")
        ctx.extra["traces_validated_against_impl"] = ctx.extra.get("traces_validated_against_impl", 0) + len(cases) - len(bad)
        for name, outp in errors:
            ctx.fail("corr:coq-error", f"case file {name} did not evaluate", {"kind": "broken-correspondence", "file": name, "output": outp}, concrete=False)
        for i in bad[:3]:
            ctx.fail(f"corr:{fn}", f"model {fn} and implementation disagree on the output string",
                     {"kind": "broken-correspondence", "theorem": "C07 (model/implementation correspondence)", "case": meta[i],
                      "model": RL.coq_show(ctx, label, fn, cases[i], header=X.HEADER)}, concrete=False)

    # (B') the specification parser against expat (syntactic view) and lxml (ElementTree view)
    for _ in range(n_corrupt):
        doc, origin = docs[ctx.rng.randrange(len(docs))]
        bad_doc = corrupt(ctx.rng, doc)
        if "\r" in bad_doc or not all(ord(c) < 0xD800 or ord(c) > 0xDFFF for c in bad_doc):
            continue
        docs.append((bad_doc, "corrupted " + origin))
    pcases, pw_raw, pw_lx, pmeta = [], [], [], []
    for doc, origin in docs:
        raw, e1 = X.expat_raw(doc)
        et, e2 = X.et_parse(doc)
        lx, e3 = X.lxml_parse(doc)
        ctx.count("xparse:" + ("accepted" if lx is not None else "rejected"))
        if (et is None) != (lx is None):
            # the two real parsers disagree (name classes, URI syntax, ...): not a judge for xparse
            ctx.count("xparse:parsers-disagree-skipped")
            continue
        if "xmlns=" in doc or "<!DOCTYPE" in doc:
            ctx.count("xparse:outside-subset-skipped")     # default namespace / DTD: outside xparse's subset
            continue
        ctx.case(("xparse", doc), origin.startswith("corrupted"))
        pcases.append(cstr(doc))
        pw_raw.append("None" if et is None or raw is None else "(Some " + X.coq_xnode(raw) + ")")
        pw_lx.append("None" if lx is None else "(Some " + X.coq_xel(lx) + ")")
        pmeta.append({"document": doc, "origin": origin, "lxml": e3 or "accepted", "expat": e2 or "accepted"})
    for label, fn, wants, eqb in (("xpraw", "xparse", pw_raw, "(opt_eqb xnode_eqb)"), ("xplx", "run_parse", pw_lx, "(opt_eqb xel_eqb)")):
        bad, errors = RL.coq_compare(ctx, label, fn, pcases, wants, shard=shard, header=X.HEADER, eqb=eqb)
        ctx.extra["xparse_validated_" + label] = len(pcases) - len(bad)
        for name, outp in errors:
            ctx.fail("corr:coq-error", f"case file {name} did not evaluate", {"kind": "broken-correspondence", "file": name, "output": outp}, concrete=False)
        for i in bad[:3]:
            ctx.fail(f"corr:xparse:{label}", "the specification parser xparse disagrees with " + ("expat" if label == "xpraw" else "lxml"),
                     {"kind": "broken-correspondence", "theorem": "Spec/Xml.v xparse as stand-in for a conforming parser", "case": pmeta[i],
                      "model": RL.coq_show(ctx, label, fn, pcases[i], header=X.HEADER)}, concrete=False)

    if not built:
        ctx.obligations_failed("random trees of the precondition class exported by both exporters and parsed by lxml and expat")


def flatten(sn):
    out = [sn]
    for k in sn["kids"]:
        out.extend(flatten(k))
    return out


def flatten_l(d):
    out = [d]
    for k in d["kids"]:
        out.extend(flatten_l(k))
    return out

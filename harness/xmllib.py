"""Shared pieces of the XML properties C07/C08: value/name pools, independent walkers over
lxml and expat parse results, Coq literal printers for the infoset types
(Spec/Xml.v xnode, Spec/Infoset.v xel, Model/XmlIn.v itree), the 'up to whitespace'
comparison of a parse result with a tree snapshot."""
import xml.etree.ElementTree as ET
import xml.parsers.expat as expat

from lxml import etree

from harness.common import cstr, copt, clist, cpair, cbool

XML_NS = "http://www.w3.org/XML/1998/namespace"

# ------------------------------------------------------------------ pools
NAME_START = list("abcdefghijklmnopqrstuvwxyzABCDEFGHIJKLMNOPQRSTUVWXYZ_") + list("\u00e9\u00fc\u00c0\u00df\u00f8\u03a9\u03bb\u0436\u0414\u05d0\u0628\u540d\u524d\ud55c")
NAME_REST = NAME_START + list("0123456789-.") + ["\u00b7", "\u0301"]
FIXED_NAMES = ["a", "b", "title", "para", "dataset", "eml", "x-y", "n.m", "_u", "\u00e9", "na\u00efve", "\u03a9m", "\u0434\u0430\u043d\u043d\u044b\u0435",
               "\u540d\u524d", "a\u00b7b", "creator", "id", "lang", "T1", "value"]

URIS = ["u", "v", "urn:x", "http://a/b", "http://a/?x=1&y=2", "http://a/it's", "https://eml.ecoinformatics.org/eml-2.2.0",
        "http://www.w3.org/2001/XMLSchema-instance", "urn:a&b", "http://x/#frag", "tag:x,2020:y", "a+b", "a;b=c", "~u", "(u)", "u!$*"]

SPECIALS = ["<", ">", "&", '"', "'", "]]>", "&amp;", "&lt;", "&#38;", "<para>", "</para>", "--", "<!--", "?>", "<![CDATA[", "{", "}", "=", "/", ";",
            # entity-like and reference-like text is ordinary text for the exporters: alone and next to raw markup characters
            "&quot;", "&apos;", "&#x26;", "&amp", "&;", "&nosuch;", "<?", "&gt;", "&quot;<", "&apos;&", "<&quot;", "&&apos;", "&#60;&", "&lt", "& quot;",
            "\u00a0", "\u0085", "\u2028", "\u3000", "\ud7ff", "\ue000", "\ufffd", "\U00010000", "\U0001F600", "\U0010FFFF", "\x7f", "\x80",
            "\u00e9", "\u6f22", "\u0436"]
WS_TEXT = [" ", "\t", "\n"]


def fresh(x):
    """a NEW str object with the same value (no interned literal is handed to the implementation)"""
    return None if x is None else "".join([c for c in x]) if len(x) != 1 else (x + "_")[:1]


def freshen(sn):
    """deep copy of a snapshot in which every string is a fresh object"""
    return {"id": fresh(sn.get("id")), "name": fresh(sn["name"]), "content": fresh(sn["content"]), "tail": fresh(sn["tail"]),
            "prefix": fresh(sn["prefix"]), "attrs": [[fresh(k), fresh(v)] for k, v in sn["attrs"]],
            "extras": [[fresh(k), fresh(v)] for k, v in sn["extras"]], "nsmap": [[fresh(k), fresh(v)] for k, v in sn["nsmap"]],
            "kids": [freshen(k) for k in sn["kids"]]}


def rand_name(rng, avoid=()):
    for _ in range(50):
        if rng.random() < 0.6:
            n = rng.choice(FIXED_NAMES)
        else:
            n = rng.choice(NAME_START) + "".join(rng.choice(NAME_REST) for _ in range(rng.randrange(0, 5)))
        if n.lower().startswith("xml") or n in avoid:
            continue
        return n
    raise RuntimeError("name pool exhausted")


def rand_text(rng, attr=False, maxlen=12):
    """XML 1.0 characters, CR included (the exporters write CR in text, and tab / newline / CR in
    attribute values, as character references)."""
    n = rng.randrange(0, maxlen)
    out = []
    for _ in range(n):
        r = rng.random()
        if r < 0.35:
            out.append(rng.choice("abcxyz019 ,.:-"))
        elif r < 0.65:
            out.append(rng.choice(SPECIALS))
        elif r < 0.8:
            out.append(rng.choice([" ", " ", "\t", "\n", "\r"]) if attr else rng.choice(WS_TEXT + [" ", "\r"]))
        else:
            while True:
                c = rng.choice([rng.randrange(0x20, 0x100), rng.randrange(0x100, 0xD800), rng.randrange(0xE000, 0xFFFE),
                                rng.randrange(0x10000, 0x110000)])
                if c not in (0xFFFE, 0xFFFF):
                    break
            out.append(chr(c))
    return "".join(out)


def is_xml_text(x, attr=False):
    for ch in x:
        c = ord(ch)
        ok = c in (9, 10) or 0x20 <= c <= 0xD7FF or 0xE000 <= c <= 0xFFFD or 0x10000 <= c <= 0x10FFFF
        if not ok or (attr and c in (9, 10)):
            return False
    return True


# ------------------------------------------------------------------ walkers (independent of metapype)
def lxml_dump(e):
    """Plain-data ElementTree view of an lxml element, comments and PIs kept as nodes."""
    if e.tag is etree.Comment:
        return {"kind": "comment", "tag": "", "prefix": None, "nsmap": [], "text": e.text, "tail": e.tail, "attrib": [], "kids": []}
    if e.tag is etree.ProcessingInstruction:
        return {"kind": "pi", "tag": e.target, "prefix": None, "nsmap": [], "text": e.text, "tail": e.tail, "attrib": [], "kids": []}
    if not isinstance(e.tag, str):
        raise ValueError("unsupported lxml node kind: %r" % (e.tag,))
    return {"kind": "elem", "tag": e.tag, "prefix": e.prefix, "nsmap": [[k, v] for k, v in e.nsmap.items()],
            "text": e.text, "tail": e.tail, "attrib": [[k, v] for k, v in e.attrib.items()],
            "kids": [lxml_dump(c) for c in e]}


def lxml_parse(doc):
    """Returns (dump, None) or (None, error text)."""
    try:
        return lxml_dump(etree.fromstring(doc.encode("utf-8"))), None
    except (etree.XMLSyntaxError, ValueError, UnicodeEncodeError) as ex:
        return None, str(ex)[:200]


def expat_raw(doc):
    """Syntactic view through expat WITHOUT namespace processing: qualified names as written,
    all attributes (xmlns: declarations included) in document order, comments and PIs as
    nodes, text/tails as concatenated character data.  Returns (node, None) or (None, err).
    node = dict(kind, name, attrs, text, kids, tail)."""
    p = expat.ParserCreate()
    p.ordered_attributes = True
    p.buffer_text = True
    root = []
    stack = []
    last = [None]   # last closed/finished node at the current level (receives tail)

    def add_text(t):
        if last[0] is not None:
            last[0]["tail"] += t
        elif stack:
            stack[-1]["text"] += t

    def start(name, attrs):
        n = {"kind": "elem", "name": name, "attrs": [[attrs[i], attrs[i + 1]] for i in range(0, len(attrs), 2)],
             "text": "", "kids": [], "tail": ""}
        if stack:
            stack[-1]["kids"].append(n)
        else:
            root.append(n)
        stack.append(n)
        last[0] = None

    def end(name):
        last[0] = stack.pop()

    def comment(data):
        if stack:
            n = {"kind": "comment", "name": "", "attrs": [], "text": data, "kids": [], "tail": ""}
            stack[-1]["kids"].append(n)
            last[0] = n

    def pi(target, data):
        if stack:
            n = {"kind": "pi", "name": target, "attrs": [], "text": data, "kids": [], "tail": ""}
            stack[-1]["kids"].append(n)
            last[0] = n

    p.StartElementHandler = start
    p.EndElementHandler = end
    p.CharacterDataHandler = lambda d: add_text(d) if stack else None
    p.CommentHandler = comment
    p.ProcessingInstructionHandler = pi
    try:
        p.Parse(doc.encode("utf-8"), True)
    except expat.ExpatError as ex:
        return None, str(ex)
    return root[0], None


def et_parse(doc):
    """Namespace-aware expat (xml.etree): Clark names. Returns (element, None) or (None, err)."""
    try:
        return ET.fromstring(doc), None
    except ET.ParseError as ex:
        return None, str(ex)


def et_scopes(doc):
    """In-scope prefixed bindings per element (document order) computed from expat's
    start-ns/end-ns events: list of dicts."""
    import io
    scopes = []
    stack = [{}]
    pending = {}
    for ev, x in ET.iterparse(io.BytesIO(doc.encode("utf-8")), events=("start-ns", "start", "end")):
        if ev == "start-ns":
            pending[x[0]] = x[1]
        elif ev == "start":
            sc = dict(stack[-1])
            sc.update(pending)
            pending = {}
            stack.append(sc)
            scopes.append({k: v for k, v in sc.items() if k})
        else:
            stack.pop()
    return scopes


# ------------------------------------------------------------------ Coq literals
def coq_odict(d):
    return clist(cpair(copt(k), cstr(v)) for k, v in d)


def coq_dict(d):
    return clist(cpair(cstr(k), cstr(v)) for k, v in d)


_KIND = {"elem": "LElem", "comment": "LComment", "pi": "LPI"}
_XKIND = {"elem": "KElem", "comment": "KComment", "pi": "KPI"}


def coq_xel(d):
    return ("(XEl " + _KIND[d["kind"]] + " " + cstr(d["tag"]) + " " + copt(d["prefix"]) + " " + coq_odict(d["nsmap"]) + " " +
            copt(d["text"]) + " " + copt(d["tail"]) + " " + coq_dict(d["attrib"]) + " " + clist(coq_xel(k) for k in d["kids"]) + ")")


def coq_xnode(n):
    return ("(XN " + _XKIND[n["kind"]] + " " + cstr(n["name"]) + " " + coq_dict(n["attrs"]) + " " + cstr(n["text"]) + " " +
            clist(coq_xnode(k) for k in n["kids"]) + " " + cstr(n["tail"]) + ")")


def coq_itree(sn):
    """Node snapshot (nodelib.snapshot shape, ids ignored) as a Model/XmlIn.v itree literal."""
    return ("(IT {| i_name := " + cstr(sn["name"]) + "; i_content := " + copt(sn["content"]) + "; i_tail := " + copt(sn["tail"]) +
            "; i_prefix := " + copt(sn["prefix"]) + "; i_attrs := " + coq_dict(sn["attrs"]) + "; i_extras := " + coq_dict(sn["extras"]) +
            "; i_nsmap := " + coq_odict(sn["nsmap"]) + " |} " + clist(coq_itree(k) for k in sn["kids"]) + ")")


def strip_ids(sn):
    return {k: ([strip_ids(c) for c in v] if k == "kids" else v) for k, v in sn.items() if k != "id"}


HEADER = ("From MP Require Import Common.Base Common.Tree Common.XStr Spec.Xml Spec.Infoset Spec.Mirror Model.XmlOut Model.XmlIn Model.XmlRun.\n"
          "Local Open Scope N_scope.\n")


# ------------------------------------------------------------------ 'up to whitespace' comparison with a tree
def _ws(x):
    return (x or "").strip()


def expand(key, nsmap):
    """prefix:local -> Clark name using a prefix map (xml bound by definition)."""
    if ":" not in key:
        return key
    p, l = key.split(":", 1)
    if p == "xml":
        return "{%s}%s" % (XML_NS, l)
    if p in nsmap:
        return "{%s}%s" % (nsmap[p], l)
    return None


def sim_lxml(d, sn, path="/", check_tail=True):
    """Compare an lxml dump with a tree snapshot under the C07 relation. Returns None or a
    description of the first difference."""
    nsmap = dict(sn["nsmap"])
    here = path + sn["name"]
    if d["kind"] != "elem":
        return here + ": not an element"
    tag = d["tag"]
    local = tag[tag.rfind("}") + 1:]
    if local != sn["name"]:
        return f"{here}: name {local!r} != {sn['name']!r}"
    if d["prefix"] != sn["prefix"]:
        return f"{here}: prefix {d['prefix']!r} != {sn['prefix']!r}"
    if sn["prefix"] is not None and tag != "{%s}%s" % (nsmap.get(sn["prefix"]), sn["name"]):
        return f"{here}: element namespace {tag!r} is not the binding of its prefix"
    want = [[k, v] for k, v in sn["attrs"]] + [[expand(k, nsmap), v] for k, v in sn["extras"]]
    if d["attrib"] != want:
        return f"{here}: attributes {d['attrib']!r} != {want!r}"
    got_ns = {k: v for k, v in d["nsmap"]}
    if got_ns != nsmap:
        return f"{here}: in-scope bindings {got_ns!r} != {nsmap!r}"
    if _ws(d["text"]) != _ws(sn["content"]):
        return f"{here}: text {d['text']!r} !~ {sn['content']!r}"
    if check_tail and _ws(d["tail"]) != _ws(sn["tail"]):
        return f"{here}: tail {d['tail']!r} !~ {sn['tail']!r}"
    kids = [k for k in d["kids"] if k["kind"] == "elem"]
    if len(kids) != len(sn["kids"]):
        return f"{here}: {len(kids)} children != {len(sn['kids'])}"
    for a, b in zip(kids, sn["kids"]):
        r = sim_lxml(a, b, here + "/")
        if r:
            return r
    return None


def sim_et(e, sn, scopes, path="/"):
    """Same relation against a namespace-aware expat (xml.etree) element; scopes = iterator
    over et_scopes(doc) in document order."""
    nsmap = dict(sn["nsmap"])
    here = path + sn["name"]
    want_tag = sn["name"] if sn["prefix"] is None else "{%s}%s" % (nsmap.get(sn["prefix"]), sn["name"])
    if e.tag != want_tag:
        return f"{here}: tag {e.tag!r} != {want_tag!r}"
    want = [[k, v] for k, v in sn["attrs"]] + [[expand(k, nsmap), v] for k, v in sn["extras"]]
    got = [[k, v] for k, v in e.attrib.items()]
    if got != want:
        return f"{here}: attributes {got!r} != {want!r}"
    sc = next(scopes)
    if sc != nsmap:
        return f"{here}: in-scope bindings {sc!r} != {nsmap!r}"
    if _ws(e.text) != _ws(sn["content"]):
        return f"{here}: text {e.text!r} !~ {sn['content']!r}"
    if _ws(e.tail) != _ws(sn["tail"]):
        return f"{here}: tail {e.tail!r} !~ {sn['tail']!r}"
    kids = list(e)
    if len(kids) != len(sn["kids"]):
        return f"{here}: {len(kids)} children != {len(sn['kids'])}"
    for a, b in zip(kids, sn["kids"]):
        r = sim_et(a, b, scopes, here + "/")
        if r:
            return r
    return None


def agree_lxml_et(d, e, path="/"):
    """lxml dump vs xml.etree element on what both expose (no comments/PIs in the document)."""
    here = path + str(d["tag"])
    if d["tag"] != e.tag:
        return f"{here}: tag {d['tag']!r} vs {e.tag!r}"
    if d["attrib"] != [[k, v] for k, v in e.attrib.items()]:
        return f"{here}: attrib differ"
    if (d["text"] or "") != (e.text or "") or (d["tail"] or "") != (e.tail or ""):
        return f"{here}: text/tail differ"
    kids = [k for k in d["kids"] if k["kind"] == "elem"]
    if len(kids) != len(list(e)):
        return f"{here}: child count"
    for a, b in zip(kids, list(e)):
        r = agree_lxml_et(a, b, here + "/")
        if r:
            return r
    return None


# ------------------------------------------------------------------ history sensitivity: a fresh interpreter as reference
_FRESH = r'''
import sys, json, os
sys.path.insert(0, %(verif)r)
os.environ.setdefault("PYTHONHASHSEED", "0")
from harness import common
common.setup_impl_path()
from harness import nodelib as NL
from metapype.model import metapype_io as io
from metapype.eml import export


def strip_ids(sn):
    return {k: ([strip_ids(c) for c in v] if k == "kids" else v) for k, v in sn.items() if k != "id"}


def find(node, path):
    for i in path:
        node = node.children[i]
    return node


out = []
for j in json.load(sys.stdin):
    try:
        if j["op"] == "import":
            n = io.from_xml(j["doc"], clean=j["clean"], collapse=j["collapse"], literals=tuple(j["literals"]))
            out.append(strip_ids(NL.snapshot(n)))
        elif j["op"] == "to_xml":
            root = NL.build(j["tree"], attach=False)
            n = find(root, j.get("path", []))
            out.append(io.to_xml(n, n.parent if j.get("with_parent") else None, j.get("level", 0), j.get("skip_ns", False)))
        elif j["op"] == "eml":
            root = NL.build(j["tree"], attach=False)
            out.append(export.to_xml(find(root, j.get("path", [])), j.get("level", 0)))
        else:
            out.append({"exc": "bad-op"})
    except Exception as ex:
        out.append({"exc": type(ex).__name__})
json.dump(out, sys.stdout)
'''


def fresh_run(jobs, timeout=600):
    """Run jobs (dicts, see _FRESH) in a NEW interpreter, in the given order; returns the list of
    results. The repository is the one of this run (VERIF_REPO is inherited)."""
    import json
    import os
    import subprocess
    import sys
    from harness import common
    env = dict(os.environ)
    env["PYTHONHASHSEED"] = "0"
    p = subprocess.run([sys.executable, "-c", _FRESH % {"verif": common.VERIF}], input=json.dumps(jobs),
                       stdout=subprocess.PIPE, stderr=subprocess.PIPE, text=True, timeout=timeout, env=env)
    if p.returncode != 0:
        raise RuntimeError("fresh interpreter failed: " + p.stderr[-800:])
    return json.loads(p.stdout)

"""C02 — content validation decides exactly as the rule's content constraints require.

(P) proof cone (Properties/C02.v: generic iff for every oracle + table obligations);
(B) model-vs-implementation correspondence in both modes on every shipped rule x its
    string pool, evaluated inside Coq;
(S) statement search: the verdict is predicted by an INDEPENDENT lexical
    classification of the string (regular expressions + exact decimal arithmetic written
    from the property text; neither the library parsers nor the model) and compared with
    the implementation: canonical/boundary => accepted, malformed / out-of-range / NaN /
    infinities (ranged rules) => rejected with a content error, the same in both modes;
    lenient spellings (digit separators, padding, non-ASCII digits, compact ISO forms,
    values that round onto a boundary) are only logged;
(H) statelessness (an assumption of the theorems: the model is a pure function of rule and node): every case is
    repeated with a long-lived Rule instance, a node object edited in place, a long-lived error list that is
    never empty, and a second collecting call; and typed leaves are validated inside small trees whose earlier
    nodes already produced errors (validate.tree shares one list) - all must agree with the fresh result."""
import math
import re
import unicodedata
from decimal import Decimal
from fractions import Fraction

from harness import rulelib as RL
from harness import vtrees as VT

ACCEPT, REJECT, LENIENT = "accept", "reject", "lenient"


# implementation runs with FRESH string objects for every name/value handed to the library
def impl_named_rule(rname, name, content, attrs, kids):
    return VT.with_limit(lambda: RL.impl_named_rule(VT.fr(rname), VT.fr(name), VT.fr(content), [(VT.fr(k), VT.fr(v)) for k, v in attrs], [VT.fr(k) for k in kids]), 10)


def impl_rule(rule_json, mixed, name, content, attrs, kids):
    import json
    return VT.with_limit(lambda: RL.impl_rule(json.loads(json.dumps(rule_json)), mixed, VT.fr(name), VT.fr(content), [(VT.fr(k), VT.fr(v)) for k, v in attrs], [VT.fr(k) for k in kids]), 10)


def impl_node(name, content, attrs, kids):
    return VT.with_limit(lambda: RL.impl_node(VT.fr(name), VT.fr(content), [(VT.fr(k), VT.fr(v)) for k, v in attrs], [VT.fr(k) for k in kids]), 10)


# ------------------------------------------------------------------ lexical classes
INT_CANON = re.compile(r"-?[0-9]+\Z")
FLOAT_CANON = re.compile(r"-?(?:[0-9]+(?:\.[0-9]*)?|\.[0-9]+)(?:[eE][-+]?[0-9]+)?\Z")
FLOAT_SPECIAL = re.compile(r"([+-]?)(nan|inf|infinity)\Z", re.I)
TIME_SHAPE = re.compile(r"([0-9]{2}):([0-9]{2}):([0-9]{2})(?:\.([0-9]{3}|[0-9]{6}))?\Z")
# ISO-looking strings (compact forms, other separators/fraction lengths, offsets): whatever the
# parser makes of them is unspecified; anything outside this alphabet is certainly not a time
TIME_LENIENT = re.compile(r"T?[0-9]{2}[0-9:.,TZ+-]*\Z")
YEAR_SHAPE = re.compile(r"([0-9]{4})\Z")
DATE_SHAPE = re.compile(r"([0-9]{4})-([0-9]{2})-([0-9]{2})\Z")
# unpadded Y-M-D, short/compact all-digit forms: unspecified parser tolerance.  Everything else that is not a year or
# a calendar date - ISO WEEK dates (2021-W05-3), ORDINAL dates (2021-045), year-month, trailing pieces - is malformed
DATE_LENIENT = re.compile(r"(?:[0-9]{1,8}|[0-9]{1,4}-[0-9]{1,2}-[0-9]{1,2})\Z")
# A fourth colon-separated group ("12:00:00:00") is not an ISO time; CPython >= 3.11 time.fromisoformat tolerates it and so
# does the library today.  Whether that is a finding is the coordinator's call (notes/C02.md): True turns it into a
# reported violation under the stable key C02:accepted:timeRule:extra-colon-group.
TIME_EXTRA_GROUP_IS_MALFORMED = False
TIME_EXTRA_GROUP = re.compile(r"T?[0-9]{2}:[0-9]{2}:[0-9]{2}:[0-9:.,]*\Z")
URI_CANON = re.compile(r"(?:http|https|ftp)://[a-z0-9](?:[a-z0-9.-]*[a-z0-9])?(?::[0-9]{1,5})?"
                       r"(?:/[A-Za-z0-9._~/-]*)?(?:\?[A-Za-z0-9._~=&-]*)?(?:#[A-Za-z0-9._~-]*)?\Z")
SCHEME = re.compile(r"([A-Za-z][A-Za-z0-9+.-]*):")

EW = (Fraction(-180), Fraction(180))
NS = (Fraction(-90), Fraction(90))


def normalise(s):
    """Undo the lenient spellings the property leaves unspecified: surrounding
    whitespace, a leading '+', '_' between digits, non-ASCII decimal digits."""
    out = []
    for ch in s.strip():
        if not ch.isascii():
            try:
                out.append(str(unicodedata.decimal(ch)))
                continue
            except (ValueError, TypeError):
                pass
        out.append(ch)
    t = "".join(out)
    t = re.sub(r"(?<=[0-9])_(?=[0-9])", "", t)
    if t.startswith("+"):
        t = t[1:]
    return t


def has_surrogate(s):
    return any(0xD800 <= ord(c) <= 0xDFFF for c in s)


def exact_value(s):
    """Exact rational value of a canonical decimal float literal (decimal module: an
    arbitrary-precision decimal parser, not float())."""
    return Fraction(Decimal(s))


def in_range_verdict(v, lo, hi):
    if lo <= v <= hi:
        return ACCEPT, ("boundary" if v in (lo, hi, 0) else "canonical")
    # a decimal literal closer to the bound than half a unit in the last place of the
    # bound is read by binary floating point AS the bound: unspecified
    d = (v - hi) if v > hi else (lo - v)
    bound = hi if v > hi else lo
    half_ulp = Fraction(2) ** (math.frexp(float(abs(bound)))[1] - 54)      # half a unit in the last place of the bound
    if d <= half_ulp:
        return LENIENT, "rounds-to-boundary"
    return REJECT, "out-of-range"


def classify(kind, s):
    """(verdict, class) of string s under one typed content rule, from the property text."""
    if kind == "intContent":
        if INT_CANON.match(s):
            return ACCEPT, "canonical"
        if normalise(s) != s and INT_CANON.match(normalise(s)):
            return LENIENT, "lenient"
        return REJECT, "malformed"
    if kind in ("floatContent", "floatRangeContent_EW", "floatRangeContent_NS", "floatContent_Nonnegative"):
        m = FLOAT_SPECIAL.match(s)
        if m:
            neg = m.group(1) == "-"
            nan = m.group(2).lower() == "nan"
            if kind == "floatContent":
                return LENIENT, "special"
            if kind == "floatContent_Nonnegative":
                if nan or neg:
                    return REJECT, "nan-or-negative-infinity"
                return LENIENT, "special"
            return REJECT, "nan-or-infinity"
        if FLOAT_CANON.match(s):
            if kind == "floatContent":
                return ACCEPT, "canonical"
            v = exact_value(s)
            if kind == "floatRangeContent_EW":
                return in_range_verdict(v, *EW)
            if kind == "floatRangeContent_NS":
                return in_range_verdict(v, *NS)
            if v >= 0:
                return ACCEPT, ("boundary" if v == 0 else "canonical")
            if -v < Fraction(1, 2 ** 1075):
                return LENIENT, "underflows-to-zero"
            return REJECT, "out-of-range"
        t = normalise(s)
        if t != s and (FLOAT_CANON.match(t) or FLOAT_SPECIAL.match(t)):
            return LENIENT, "lenient"
        return REJECT, "malformed"
    if kind == "timeContent":
        m = TIME_SHAPE.match(s)
        if m:
            hh, mm, ss = int(m.group(1)), int(m.group(2)), int(m.group(3))
            if hh < 24 and mm < 60 and ss < 60:
                return ACCEPT, "canonical"
            return REJECT, "out-of-range"
        if TIME_EXTRA_GROUP.match(s):
            return (REJECT if TIME_EXTRA_GROUP_IS_MALFORMED else LENIENT), "extra-colon-group"
        if re.search(r"[0-9]-?W[0-9]|^[0-9]{4}-[0-9]{2,3}", s):
            return REJECT, "malformed"          # dates (calendar, week, ordinal) are not times
        if TIME_LENIENT.match(normalise(s)):
            return LENIENT, "lenient"
        return REJECT, "malformed"
    if kind == "yearDateContent":
        m = YEAR_SHAPE.match(s)
        if m:
            return (ACCEPT, "canonical") if int(m.group(1)) >= 1 else (LENIENT, "year-zero")
        m = DATE_SHAPE.match(s)
        if m:
            y, mo, d = int(m.group(1)), int(m.group(2)), int(m.group(3))
            if y == 0:
                return LENIENT, "year-zero"
            leap = (y % 4 == 0 and y % 100 != 0) or y % 400 == 0
            dim = [31, 29 if leap else 28, 31, 30, 31, 30, 31, 31, 30, 31, 30, 31]
            if 1 <= mo <= 12 and 1 <= d <= dim[mo - 1]:
                return ACCEPT, "canonical"
            return REJECT, "out-of-range"
        if DATE_LENIENT.match(normalise(s)):
            return LENIENT, "lenient"
        return REJECT, "malformed"
    if kind == "uriContent":
        if URI_CANON.match(s):
            return ACCEPT, "canonical"
        if s == "" or has_surrogate(s):
            return REJECT, "malformed"
        m = SCHEME.match(s)
        if not m:
            return REJECT, "malformed"          # no scheme
        scheme = m.group(1)
        if scheme.lower() not in ("http", "https", "ftp"):
            return REJECT, "malformed"          # scheme not permitted
        rest = s[m.end():]
        if not rest.startswith("//") or rest[2:3] in ("", "/", "?", "#"):
            return REJECT, "malformed"          # no host
        authority = re.split(r"[/?#]", rest[2:], 1)[0]
        if re.search(r"[\s<>\"{}|\\^`]", authority):
            return REJECT, "malformed"          # characters no host may contain
        return LENIENT, "lenient"
    raise ValueError(kind)


def expected(crs, enum, mixed, content, nkids):
    """Verdict of a whole content section: accept iff every constraint accepts; reject if
    one rejects; otherwise unspecified."""
    verdicts = []
    for cr in crs:
        if cr == "anyContent":
            verdicts.append((ACCEPT, "any"))
        elif cr == "emptyContent":
            if content is None:
                verdicts.append((ACCEPT, "canonical"))
            elif content.strip() == "":
                verdicts.append((LENIENT, "empty-or-blank-string"))
            else:
                verdicts.append((REJECT, "malformed"))
        elif cr == "nonEmptyContent":
            if content is None or content == "":
                verdicts.append((ACCEPT, "children-stand-in") if (mixed and nkids > 0) else (REJECT, "malformed"))
            elif content.strip() == "":
                verdicts.append((LENIENT, "blank-string"))
            else:
                verdicts.append((ACCEPT, "canonical"))
        elif cr == "strContent":
            if content is not None and has_surrogate(content):
                verdicts.append((LENIENT, "lone-surrogate"))
            else:
                verdicts.append((ACCEPT, "canonical"))
        else:
            verdicts.append((ACCEPT, "absent") if content is None else classify(cr, content))
    if enum is not None:
        verdicts.append((ACCEPT, "canonical") if (content is not None and content in enum) else (REJECT, "not-in-enumeration"))
    vs = [v for v, _ in verdicts]
    cls = "/".join(sorted({c for _, c in verdicts}))
    if REJECT in vs:
        return REJECT, cls
    if LENIENT in vs:
        return LENIENT, cls
    return ACCEPT, cls


# ------------------------------------------------------------------ pools
def fl(x):
    return repr(float(x))


def float_pool(rng, n_random):
    canonical = ["0", "1", "-1", "1.5", "-1.5", "0.0", "1.", ".5", "-.5", "1e3", "1E3", "1e-3", "1.5e+2", "007", "123456789.125",
                 "45", "-45", "89.999", "-89.999", "179.5", "-179.5", "12.345678901234567890123", "1e308", "1e-320"]
    boundary = ["180", "-180", "180.0", "-180.0", "90", "-90", "90.0", "-90.0", "0", "-0", "-0.0", "0e0", "1.8e2", "9e1", "-9.0e1",
                fl(math.nextafter(180.0, math.inf)), fl(math.nextafter(180.0, -math.inf)),
                fl(math.nextafter(-180.0, -math.inf)), fl(math.nextafter(-180.0, math.inf)),
                fl(math.nextafter(90.0, math.inf)), fl(math.nextafter(90.0, -math.inf)),
                fl(math.nextafter(-90.0, -math.inf)), fl(math.nextafter(-90.0, math.inf)),
                "5e-324", "-5e-324", fl(math.nextafter(0.0, 1.0)), fl(math.nextafter(0.0, -1.0))]
    out_of_range = ["180.1", "-180.1", "181", "-181", "90.1", "-90.1", "91", "-91", "360", "-360", "1e3", "-1e3", "1e400", "-1e400",
                    "180.000001", "-90.000001", "-1", "-0.5", "-1e-300", "-1e308"]
    special = ["nan", "NaN", "-nan", "+nan", "inf", "-inf", "+inf", "Infinity", "-Infinity", "INF"]
    malformed = ["", "abc", "1,5", "1.2.3", "1e", "e5", "0x10", "0x1p3", "1 2", "--1", "1.5f", "1.5.", "..5", "1e1.5", "1d3", "one",
                 "12:00:00", "2021-01-05", "http://a.b/", "-", "+", ".", "1/2", "(1)", "1e+", "\u221e", "1\u00a02", "\U0001d7cf.x", "\ud800"]
    lenient = ["1_0", "1_000.5", " 1.5", "1.5 ", "\t7\n", "+1.5", "+0", "\u0663", "\u0661\u0662.\u0665", "\uff11\uff12", "1_0e1_0",
               "180.000000000000000001", "-180.000000000000000001", "90.00000000000000001", "-1e-400", " nan ", "+Infinity"]
    rnd = []
    for _ in range(n_random):
        k = rng.random()
        if k < 0.4:
            rnd.append(repr(round(rng.uniform(-200, 200), rng.randrange(0, 8))))
        elif k < 0.6:
            rnd.append("%d" % rng.randrange(-400, 400))
        elif k < 0.8:
            rnd.append("%se%d" % (repr(round(rng.uniform(-9, 9), 3)), rng.randrange(-5, 4)))
        else:
            base = rng.choice([180.0, -180.0, 90.0, -90.0, 0.0])
            x = base
            for _ in range(rng.randrange(1, 4)):
                x = math.nextafter(x, rng.choice([math.inf, -math.inf]))
            rnd.append(repr(x))
    return canonical + boundary + out_of_range + special + malformed + lenient + rnd


def int_pool(rng, n_random):
    return (["0", "1", "-1", "42", "007", "-0", "123456789012345678901234567890", "9" * 400] +
            ["", "abc", "1.5", "1.0", "1e3", "--1", "0x10", "1 2", "1,000", "-", "+", "12a", "a12", "\u00bd", "\u2460", "1\u00a02", "nan", "inf", "\ud800"] +
            ["1_0", "1_000", " 5", "5 ", "\n5\t", "+5", "\u0663", "\u0661\u0662\u0663", "\uff15", "\U0001d7d7", "+\u0665"] +
            ["%d" % rng.randrange(-10 ** 6, 10 ** 6) for _ in range(n_random)])


def time_pool(rng, n_random):
    return (["00:00:00", "12:00:00", "23:59:59", "12:34:56", "12:34:56.789", "12:34:56.789012", "00:00:00.000", "09:05:01"] +
            ["24:00:00", "25:00:00", "12:60:00", "12:00:60", "99:99:99", "23:59:61.000"] +
            ["", "abc", "12-00-00", "1:2:3", "12:0:00", ":::", "12:00:00 PM", "noon", "12.00.00", "12:00:00.", "12:00:00.x", "2021-01-05",
             "-12:00:00", "12h00", "\ud800", "12:00:00\n", "2021-W05-3", "2021-045", "2021-01-05", "12:00:00 UTC", "12:00:00+1", "1200Z PM",
             "PT12H", "12:00:00/13:00:00", "12:00:00.5.5", "12::00", "24:00:00.000", "12:00:60.5"] +
            ["12:00:00:00", "12:00:00:99", "12:00:00:123456"] +
            ["12:00", "12", "1200", "120000", "T12:00:00", "12:00:00Z", "12:00:00+01:00", "12:00:00-0500", "12:00:00.1", "12:00:00.12",
             "12:00:00.1234567", "12:00:00,5", " 12:00:00", "12:00:00 ", "\u0661\u0662:\u0660\u0660:\u0660\u0660", "2500"] +
            ["%02d:%02d:%02d" % (rng.randrange(0, 30), rng.randrange(0, 70), rng.randrange(0, 70)) for _ in range(n_random)])


def date_pool(rng, n_random):
    return (["2021", "0001", "9999", "1999", "2021-01-05", "2020-02-29", "2000-02-29", "1999-12-31", "0001-01-01", "9999-12-31", "2024-02-29"] +
            ["2021-02-30", "2021-13-01", "2021-00-10", "2021-01-00", "2021-01-32", "2021-02-29", "1900-02-29", "2100-02-29", "2021-04-31", "2021-99-99"] +
            ["", "abc", "2021/01/05", "2021-01", "2021-01-05T00:00:00", "01-05-2021", "21-01-05x", "2021-01-05-01", "twenty", "2021.01.05",
             "-2021", "2021-", "--", "2021-1a-05", "12:00:00", "1.5", "\ud800", "2021\n",
             "2021-W05-3", "2020-W53-7", "2021-W05", "2021W053", "2021-W5-3", "2021-045", "2020-366", "2021-001", "2021-01-05Z", "2021-01-05+01:00",
             "+2021-01-05", "2021--01-05", "202-1-01-05", "2021-Jan-05", "05 Jan 2021", "2021-01-05 ", "--01-05", "2021-01-05/2021-01-06"] +
            ["2021-1-5", "2021-01-5", "0000", "0000-01-01", "99", "999", "20210105", " 2021", "2021 ", "\u0662\u0660\u0662\u0661", "2_021", "+2021", "12345"] +
            ["%04d-%02d-%02d" % (rng.randrange(1, 3000), rng.randrange(0, 14), rng.randrange(0, 33)) for _ in range(n_random)] +
            ["%04d" % rng.randrange(0, 10000) for _ in range(n_random // 2)])


def uri_pool(rng, n_random):
    return (["http://a.b/", "https://example.org", "https://example.org/", "ftp://ftp.example.org/pub/file.txt", "http://example.org:8080/x/y",
             "https://doi.org/10.6073/pasta-abc", "http://example.org/path?x=1&y=2", "http://example.org/path#frag", "http://localhost/", "http://127.0.0.1/x",
             "https://a-b.c-d.example/~user/file_1.txt"] +
            ["", "abc", "example.org", "www.example.org/path", "/relative/path", "//example.org/path", "mailto:a@b.c", "urn:isbn:0451450523", "file:///etc/passwd",
             "gopher://example.org/", "http://", "http:///path", "https://?x=1", "ftp://#f", "http:/example.org", "http:example.org", "http//example.org",
             "://example.org", "ht tp://example.org/", "http://exa mple.org/", "http://example.org/pa th", "http://exam<ple>.org/", "javascript:alert(1)", "data:text/plain,hi",
             "12:00:00", "1.5", "\ud800", "http://example.org/\ud800", "ldap://example.org/"] +
            ["HTTP://example.org/", "Http://Example.ORG/", "http://[::1]/", "http://user@example.org/", "http://user:pw@example.org/", "http://example.org/%7Euser",
             "http://example.org/a%20b", "http://\u00fcber.example/", "http://example.org/\u00e9", "http://example.org/?q=a b", "http://example.org/a;b=c", "http://example.org/a,b",
             "http://example.org:port/", "http://example.org/(x)", "http://example.org/a'b", "http://example.org/a!b*", "http://a_b.example/", " http://example.org/", "http://example.org/ ",
             "https://example.org/a:b@c", "http://-a.example/", "http://example..org/", "http://example.org:/", "http://1.2.3.4.5/"] +
            ["%s://%s.example.%s/%s" % (rng.choice(["http", "https", "ftp", "sftp", "ws"]), rng.choice(["a", "data", "x1"]), rng.choice(["org", "edu"]),
                                       "".join(rng.choice("abcXYZ019._~/-") for _ in range(rng.randrange(0, 12)))) for _ in range(n_random)])


def text_pool(rng, n_random):
    out = ["x", "some text", " ", "  \n", "\t", "0", "None", "\u00e9\u00e8", "\u4e2d\u6587", "\U0001f600", "a\U00010000b", "\x00", "a\x00b", "\ufeff", "\uffff",
           "\ud800", "a\udfffb", "\ud83d", "\ud83d\ude00", "<x>&amp;</x>", "x" * 5000]
    for _ in range(n_random):
        out.append("".join(chr(rng.choice([rng.randrange(32, 127), rng.randrange(0xA0, 0x2000), rng.randrange(0x10000, 0x10FFFF)]))
                           for _ in range(rng.randrange(1, 12))))
    return out


CROSS = [None, "", " ", "x", "0", "1.5", "-1", "nan", "12:00:00", "2021", "2021-01-05", "http://a.b/", "180", "\ud800"]


def uniq(xs):
    seen, out = set(), []
    for x in xs:
        if x not in seen:
            seen.add(x)
            out.append(x)
    return out


def pool_for(ctx, crs, enum, nrand):
    rng = ctx.rng
    p = list(CROSS)
    for cr in crs:
        if cr in ("floatContent", "floatRangeContent_EW", "floatRangeContent_NS", "floatContent_Nonnegative"):
            p += float_pool(rng, nrand)
        elif cr == "intContent":
            p += int_pool(rng, nrand)
        elif cr == "timeContent":
            p += time_pool(rng, nrand)
        elif cr == "yearDateContent":
            p += date_pool(rng, nrand)
        elif cr == "uriContent":
            p += uri_pool(rng, nrand)
        elif cr == "strContent":
            p += text_pool(rng, nrand // 2)
    if enum is not None:
        p += list(enum) + [e.upper() for e in enum if e] + [e + " " for e in enum if e] + ["zz-unlisted"]
    return uniq(p)


# ------------------------------------------------------------------ valid skeleton of a rule
def min_children(spec):
    """A shortest child-name sequence of a children spec (rules.json shape)."""
    if not spec:
        return []
    if isinstance(spec[0], str):
        return [spec[0]] * spec[1]
    if isinstance(spec[-1], list):
        return [n for item in spec for n in min_children(item)]
    lo = spec[-2]
    if lo == 0:
        return []
    best = min((min_children(a) for a in spec[:-2]), key=len)
    return best * lo


def skeleton(rj):
    attrs = [(k, (sp[1] if len(sp) > 1 else "v")) for k, sp in rj[0].items() if sp[0] is True]
    kids = min_children(rj[1]) if rj[1] else []
    return attrs, kids


def first_child(rj):
    def names(spec):
        if isinstance(spec[0], str):
            return [spec[0]]
        if isinstance(spec[-1], list):
            return [n for i in spec for n in names(i)]
        return [n for i in spec[:-2] for n in names(i)]
    ns = names(rj[1]) if rj[1] else []
    return ns[0] if ns else None



# ------------------------------------------------------------------ history sensitivity (statelessness)
class Reused:
    """Objects a caller may keep across calls: one Rule instance, one node edited in place, one
    error list that is never empty (it starts with another node's entries)."""

    def __init__(self, rname, attrs, kidnames):
        from metapype.eml import rule as R

        self.rule = R.Rule(rname)
        self.node = VT.build_node("x", None, attrs, kidnames)
        self.errs = VT.foreign_entries()

    def observe(self, content):
        """(ff, codes) with the long-lived Rule and node and a fresh list; codes appended to the long-lived
        non-empty list; codes of a second collecting call."""
        fam = RL._family()
        self.node.content = content

        def collect(errs):
            n0 = len(errs)
            try:
                self.rule.validate_rule(self.node, errs)
                return [RL.entry_code(e) for e in errs[n0:]]
            except Exception as e:  # noqa
                return [RL.entry_code(x) for x in errs[n0:]] + ["CRASH:" + type(e).__name__]
        first = collect([])
        try:
            self.rule.validate_rule(self.node)
            ff = "OK"
        except fam as e:
            ff = type(e).__name__
        except Exception as e:  # noqa
            ff = "CRASH:" + type(e).__name__
        shared = collect(self.errs)
        again = collect([])
        return ff, first, shared, again


def typed_leaf_tree(rng, leaves):
    """An unknown root (so the error list is non-empty before any leaf is reached) over typed leaves."""
    return ["zzUnknownRoot", None, [], [[name, content, [list(a) for a in attrs], []] for name, attrs, content in leaves]]

CONTENT_CODES = ("CONTENT_", "UNKNOWN_CONTENT_RULE")
CONTENT_CLASSES = ("MetapypeRuleError", "StrContentUnicodeError", "ContentExpectedUriError")


def run(ctx):
    from metapype.eml import rule as R
    built = ctx.build(extra_targets=["theories/Model/RuleRun.v"])
    live = RL.live_rules()
    rules = VT.file_rules()             # the statement (classifier, enumerations, skeletons) is computed from the FILE, never from the live table
    for missing in [k for k in live if k not in rules]:
        rules[missing] = live[missing]
    mixed_names = (R.RULE_TEXT, R.RULE_ANYNAME, R.RULE_PARA, R.RULE_SUBSCRIPT, R.RULE_SUPERSCRIPT)
    thorough = ctx.tier == "thorough"
    nrand = 120 if thorough else 16
    ctx.extra["rule"] = ("every shipped rule x its content pool: per typed content rule a pool partitioned into canonical / boundary "
                         "(+-180, +-90, 0, -0.0 and math.nextafter neighbours) / out-of-range / malformed / lenient classes plus %d seeded random "
                         "strings per kind, plus None, '' and cross-kind strings; rules whose content section equals an already covered one "
                         "get a reduced pool in the quick tier; mixed-content rules are also run with a child standing in for text; "
                         "non-trivial = distinct (content-section, content, has-children) with a content string present" % nrand)
    cases, wants, meta = [], [], []
    reused = {}
    seen_sections = {}
    lenient_log = {}
    for rname, rj in rules.items():
        crs = list(rj[2].get("content_rules", []))
        enum = rj[2].get("content_enum") if "content_enum" in rj[2] else None
        mixed = rname in mixed_names
        attrs, kids = skeleton(rj)
        base_ff, base_codes = impl_named_rule(rname, "x", RL.canonical_content(rj), attrs, kids)
        baseline_ok = base_ff == "OK" and base_codes == []
        ctx.count("skeleton_valid" if baseline_ok else "skeleton_not_valid")
        section = (tuple(crs), tuple(enum) if enum is not None else None, mixed)
        pool = pool_for(ctx, crs, enum, nrand)
        if section in seen_sections and not thorough:
            # same content section as an earlier rule: keep a sample (full pool in the thorough tier)
            head = [c for c in pool if c in CROSS]
            rest = [c for c in pool if c not in CROSS]
            ctx.rng.shuffle(rest)
            pool = head + rest[:10]
        seen_sections.setdefault(section, rname)
        variants = [kids]
        fc = first_child(rj)
        if mixed and fc is not None:
            variants.append([fc])
        if mixed and fc is not None:
            # sizes past the small-int cache: 300 children standing in for text (statement only)
            for content in (None, "", "x"):
                ffw, codesw = impl_named_rule(rname, "x", content, attrs, [fc] * 300)
                vw, clsw = expected(crs, enum, mixed, content, 300)
                ctx.case((section, content, "300-children"), True)
                cw = [c for c in codesw if c.startswith(CONTENT_CODES)]
                if ffw.startswith("CRASH") or any(c.startswith("CRASH") for c in codesw) or (vw == ACCEPT and cw) or (vw == REJECT and not cw):
                    ctx.fail(f"C02:wide:{rname}:{clsw}", f"with 300 children: expected {vw}, observed ff={ffw} content codes={cw}",
                             {"kind": "impl-vs-statement", "rule": rname, "content_rules": crs, "content_enum": enum, "mixed": mixed, "content": content,
                              "attributes": attrs, "children": [fc] * 300, "class": clsw, "observed_ff": ffw, "observed_codes": codesw, "expected": vw})
        for kidnames in variants:
            for content in pool:
                ff, codes = impl_named_rule(rname, "x", content, attrs, kidnames)
                verdict, cls = expected(crs, enum, mixed, content, len(kidnames))
                ccodes = [c for c in codes if c.startswith(CONTENT_CODES)]
                other = [c for c in codes if not c.startswith(CONTENT_CODES)]
                ctx.case((section, content, bool(kidnames)), content is not None)
                ctx.count("class:" + cls.split("/")[0] if "/" not in cls else "class:mixed-classes")
                ctx.count("verdict:" + verdict)
                rep = {"kind": "impl-vs-statement", "rule": rname, "content_rules": crs, "content_enum": enum, "mixed": mixed,
                       "content": content, "attributes": attrs, "children": kidnames, "class": cls,
                       "observed_ff": ff, "observed_codes": codes, "expected": verdict}
                crash = ff.startswith("CRASH") or any(c.startswith("CRASH") or c == "MALFORMED-ENTRY" for c in codes)
                if crash:
                    ctx.fail(f"C02:crash:{rname}:{cls}", f"content validation let a non-rule exception escape: ff={ff} codes={codes}", rep)
                if (ff == "OK") != (codes == []):
                    ctx.fail(f"C02:modes-differ:{rname}:{cls}", f"the two modes disagree on acceptance: ff={ff} codes={codes}", rep)
                if verdict == ACCEPT:
                    if ccodes or (baseline_ok and kidnames == kids and ff != "OK") or (not other and ff != "OK"):
                        ctx.fail(f"C02:rejected:{rname}:{cls}", f"content the constraints allow was rejected: ff={ff} codes={codes}", rep)
                elif verdict == REJECT:
                    if not ccodes or ff == "OK" or (not crash and ff not in CONTENT_CLASSES):
                        ctx.fail(f"C02:accepted:{rname}:{cls}", f"content violating the constraints was not rejected with a content error: ff={ff} codes={codes}", rep)
                else:
                    lenient_log.setdefault(cls, [])
                    if len(lenient_log[cls]) < 6 and content not in [x[0] for x in lenient_log[cls]]:
                        lenient_log[cls].append((content, "accepted" if not ccodes else "rejected"))
                # (H) the same Rule instance, the same node edited in place, a non-empty long-lived list
                rk = (rname, tuple(kidnames))
                if rk not in reused:
                    reused[rk] = Reused(rname, attrs, kidnames)
                hff, hfirst, hshared, hagain = reused[rk].observe(content)
                ctx.count("history_observations")
                for label, got, want in (("reused-rule-and-node/collect", hfirst, codes), ("reused-rule-and-node/fail-fast", hff, ff),
                                         ("non-empty-error-list", hshared, codes), ("collect-again", hagain, codes)):
                    if got != want:
                        hccodes = [c for c in got if isinstance(c, str) and c.startswith(CONTENT_CODES)] if isinstance(got, list) else None
                        what = f"content validation depends on history ({label}): got {got}, a fresh Rule/node/list gives {want}"
                        if verdict == REJECT and hccodes == []:
                            what = f"content violating the constraints was not reported ({label}): got {got}; " + what
                        ctx.fail(f"C02:history:{label}:{rname}:{cls}", what, dict(rep, history=label, observed_with_history=got, observed_fresh=want))
                cases.append(RL.coq_rncase(rname, "x", content, attrs, kidnames))
                wants.append(RL.coq_outcome((ff, codes)))
                meta.append(rep)
                if content is not None and verdict != LENIENT:
                    ctx.sample({"rule": rname, "content": content, "class": cls, "expected": verdict, "observed_ff": ff, "observed_codes": codes}, limit=8)
    # enumerations after rejections: member / non-member / member, judged against the FILE's enumeration (a validator that
    # edits its own table while rejecting changes later verdicts)
    for rname, rj in rules.items():
        if "content_enum" not in rj[2]:
            continue
        enum = list(rj[2]["content_enum"])
        attrs, kids = skeleton(rj)
        for m in enum:
            seq = [m, "zz-unlisted", None, m + "x", m]
            obs = [impl_named_rule(rname, "x", c, attrs, kids) for c in seq]
            ctx.case(("enum-sequence", rname, m), True)
            ctx.count("enum_sequences")
            for c, (ffs, codess) in zip(seq, obs):
                cc = [x for x in codess if x.startswith(CONTENT_CODES)]
                want_ok = c is not None and c in enum
                if want_ok == bool(cc) or ffs.startswith("CRASH"):
                    ctx.fail(f"C02:history:enum-sequence:{rname}",
                             f"content {c!r} ({'a member' if want_ok else 'not a member'} of the rule's enumeration in rules.json) got content codes {cc} "
                             f"in the sequence {seq}",
                             {"kind": "impl-vs-statement", "rule": rname, "content_enum": enum, "sequence": seq, "observed": obs, "content": c,
                              "content_rules": rj[2]["content_rules"], "mixed": False, "attributes": attrs, "children": kids})
    changed = VT.table_diff()
    if changed:
        ctx.fail("C02:history:table-mutated", f"content validation changed the live rule table (differs from rules.json): {changed[:5]}",
                 {"kind": "impl-vs-statement", "rules_changed": changed, "live": {k: live.get(k) for k in changed[:3]},
                  "file": {k: rules.get(k) for k in changed[:3]}})
    # whole small trees: typed leaves under one root; an earlier node errs, so every later leaf is validated
    # with an error list that is already non-empty (validate.tree shares one list)
    from metapype.eml import validate
    from metapype.model.node import Node

    typed_names = {}
    for name, rname in R.node_mappings.items():
        rj = rules.get(rname)
        if rj and rj[2].get("content_rules") not in (["emptyContent"], ["strContent"]) and rname not in mixed_names:
            typed_names.setdefault(rname, (name, skeleton(rj)[0], rj))
    typed_list = sorted(typed_names.values(), key=lambda x: x[0])
    for i in range(600 if thorough else 150):
        leaves = []
        for _ in range(ctx.rng.randrange(2, 6)):
            name, attrs, rj = ctx.rng.choice(typed_list)
            crs = rj[2]["content_rules"]
            lp = pool_for(ctx, crs, rj[2].get("content_enum") if "content_enum" in rj[2] else None, 1)
            leaves.append((name, attrs, ctx.rng.choice(lp)))
        tt = typed_leaf_tree(ctx.rng, leaves)
        root = VT.build_tree(tt)
        errs = []
        raised = None
        try:
            validate.tree(root, errs)
        except Exception as e:  # noqa
            raised = type(e).__name__
        ctx.case(repr(tt), True)
        ctx.count("typed_leaf_trees")
        rep = {"kind": "impl-vs-statement", "call": "validate.tree(root, errs)", "tree": tt,
               "observed_codes": [[RL.entry_code(e), e[2].name if len(e) > 2 else None] for e in errs], "raised": raised}
        if raised:
            ctx.fail("C02:tree:crash", f"collecting validation of a small tree raised {raised}", rep)
        for k, (name, attrs, content) in enumerate(leaves):
            rj = rules[R.node_mappings[name]]
            verdict, cls = expected(rj[2]["content_rules"], rj[2].get("content_enum") if "content_enum" in rj[2] else None, False, content, 0)
            leaf = root.children[k]
            got = [RL.entry_code(e) for e in errs if len(e) > 2 and e[2] is leaf and RL.entry_code(e).startswith(CONTENT_CODES)]
            alone = impl_node(name, content, attrs, [])[1]
            alone_c = [c for c in alone if c.startswith(CONTENT_CODES)]
            if verdict == REJECT and not got:
                ctx.fail(f"C02:tree:accepted:{cls}", f"in a tree whose earlier nodes already produced errors, <{name}> content {content!r} violating its constraints was not reported",
                         dict(rep, leaf_index=k, leaf=name, content=content, expected=verdict, **{"class": cls}))
            elif verdict == ACCEPT and got:
                ctx.fail(f"C02:tree:rejected:{cls}", f"in a tree, <{name}> content {content!r} that its constraints allow was reported: {got}",
                         dict(rep, leaf_index=k, leaf=name, content=content, expected=verdict, **{"class": cls}))
            elif got != alone_c:
                ctx.fail(f"C02:tree:history:{cls}", f"<{name}> content {content!r}: inside a tree {got}, validated alone {alone_c}",
                         dict(rep, leaf_index=k, leaf=name, content=content, **{"class": cls}))
        Node.store.clear()
    # random content sections installed as rules (names and combinations the shipped table does not have,
    # unknown content-rule names, enumerations, mixed flag): model correspondence + the same statement
    IMPLEMENTED = ["emptyContent", "floatContent", "floatRangeContent_EW", "floatRangeContent_NS", "floatContent_Nonnegative", "intContent",
                   "nonEmptyContent", "strContent", "timeContent", "uriContent", "yearDateContent", "anyContent"]
    rcases, rwants, rmeta = [], [], []
    for i in range(400 if thorough else 120):
        crs = ctx.rng.sample(IMPLEMENTED, ctx.rng.choice([0, 1, 1, 2, 2, 3]))
        unknown = ctx.rng.random() < 0.12
        if unknown:
            crs.insert(ctx.rng.randrange(len(crs) + 1), ctx.rng.choice(["fooContent", "IntContent", "emptycontent", ""]))
        enum = ctx.rng.choice([None, None, None, ["1", "2.5", "x", ""], ["12:00:00", "2021", "http://a.b/"]])
        mixed = ctx.rng.random() < 0.4
        rule_json = [{}, [["value", 0, None]], dict({"content_rules": crs}, **({"content_enum": enum} if enum is not None else {}))]
        pool = pool_for(ctx, [c for c in crs if c in IMPLEMENTED], enum, 2)
        ctx.rng.shuffle(pool)
        for content in [None, ""] + pool[:6]:
            kidnames = ["value"] if ctx.rng.random() < 0.4 else []
            ff, codes = impl_rule(rule_json, mixed, "x", content, [], kidnames)
            ctx.case(("random-section", tuple(crs), tuple(enum) if enum else None, mixed, content, bool(kidnames)), True)
            ctx.count("random_sections")
            rep = {"kind": "impl-vs-statement", "installed_rule": rule_json, "mixed": mixed, "content": content, "children": kidnames,
                   "observed_ff": ff, "observed_codes": codes}
            if ff.startswith("CRASH") or any(c.startswith("CRASH") for c in codes):
                ctx.fail("C02:crash:random-section", f"content validation let a non-rule exception escape: ff={ff} codes={codes}", rep)
            if (ff == "OK") != (codes == []):
                ctx.fail("C02:modes-differ:random-section", f"the two modes disagree on acceptance: ff={ff} codes={codes}", rep)
            if unknown:
                if "UNKNOWN_CONTENT_RULE" not in codes or ff == "OK":
                    ctx.fail("C02:unknown-content-rule", "a content-rule name the validator does not implement was not reported", rep)
            else:
                verdict, cls = expected(crs, enum, mixed, content, len(kidnames))
                rep["expected"], rep["class"] = verdict, cls
                ccodes = [c for c in codes if c.startswith(CONTENT_CODES)]
                if verdict == ACCEPT and (ccodes or ff != "OK"):
                    ctx.fail("C02:rejected:random-section:" + cls, f"content the constraints allow was rejected: ff={ff} codes={codes}", rep)
                if verdict == REJECT and (not ccodes or ff not in CONTENT_CLASSES):
                    ctx.fail("C02:accepted:random-section:" + cls, f"content violating the constraints was not rejected with a content error: ff={ff} codes={codes}", rep)
            rcases.append(RL.coq_rcase(rule_json, mixed, "x", content, [], kidnames))
            rwants.append(RL.coq_outcome((ff, codes)))
            rmeta.append(rep)
    ctx.extra["lenient_spellings_logged"] = {k: v for k, v in sorted(lenient_log.items())}
    ctx.extra["content_sections"] = len(seen_sections)
    # (B) correspondence
    bad, errors = RL.coq_compare(ctx, "corr", "run_rncase tb", cases, wants)
    ctx.extra["traces_validated_against_impl"] = len(cases) - len(bad) if not errors else 0
    for name, out in errors:
        ctx.fail("corr:coq-error", f"case file {name} did not evaluate", {"kind": "broken-correspondence", "file": name, "output": out}, concrete=False)
    for i in bad[:5]:
        m = meta[i]
        ctx.fail(f"corr:{m['rule']}:{m['class']}", "model and implementation disagree on content validation",
                 {"kind": "broken-correspondence", "theorem": "C02 (model/implementation correspondence)", "case": m,
                  "model": RL.coq_show(ctx, "corr", "run_rncase tb", cases[i])}, concrete=False)
    changed = VT.table_diff()
    if changed:
        ctx.fail("C02:history:table-mutated", f"the live rule table differs from rules.json at the end of the run: {changed[:5]}",
                 {"kind": "impl-vs-statement", "rules_changed": changed, "live": {k: live.get(k) for k in changed[:3]},
                  "file": {k: rules.get(k) for k in changed[:3]}})
    bad2, errors2 = RL.coq_compare(ctx, "corrR", "run_rcase (range_ew, range_ns)", rcases, rwants)
    ctx.extra["traces_validated_against_impl"] += (len(rcases) - len(bad2)) if not errors2 else 0
    for name, out in errors2:
        ctx.fail("corr:coq-error", f"case file {name} did not evaluate", {"kind": "broken-correspondence", "file": name, "output": out}, concrete=False)
    for i in bad2[:3]:
        ctx.fail("corr:random-section", "model and implementation disagree on content validation of an installed rule",
                 {"kind": "broken-correspondence", "theorem": "C02 (model/implementation correspondence)", "case": rmeta[i],
                  "model": RL.coq_show(ctx, "corrR", "run_rcase (range_ew, range_ns)", rcases[i])}, concrete=False)
    if not built:
        ctx.obligations_failed("ran every shipped rule x content pool against the independent lexical classification")


def replay(ctx, data):
    """Re-run the recorded input on the implementation and re-judge it."""
    import json
    r = data.get("replay", {})
    if r.get("kind") != "impl-vs-statement":
        print(json.dumps(data, indent=1)[:4000])
        return run(ctx)
    if "history" in r and "rule" in r:
        attrs = [tuple(a) for a in r["attributes"]]
        ff, codes = impl_named_rule(r["rule"], "x", r["content"], attrs, r["children"])
        h = Reused(r["rule"], attrs, r["children"])
        h.observe("x")
        hff, hfirst, hshared, hagain = h.observe(r["content"])
        print(f"fresh: ff={ff} codes={codes}; reused Rule/node: ff={hff} codes={hfirst}; non-empty list: {hshared}; again: {hagain}")
        ctx.case()
        if (hff, hfirst, hshared, hagain) != (ff, codes, codes, codes):
            ctx.fail(data.get("key", "C02:history"), data.get("what", "content validation depends on history"),
                     dict(r, observed_with_history=[hff, hfirst, hshared, hagain], observed_fresh=[ff, codes]))
        return
    if "tree" in r:
        from metapype.eml import validate
        root = VT.build_tree(r["tree"])
        errs = []
        validate.tree(root, errs)
        k = r.get("leaf_index", 0)
        leaf = root.children[k]
        got = [RL.entry_code(e) for e in errs if e[2] is leaf and RL.entry_code(e).startswith(CONTENT_CODES)]
        alone = [c for c in impl_node(r["leaf"], r["content"], [tuple(a) for a in r["tree"][3][k][2]], [])[1] if c.startswith(CONTENT_CODES)]
        print(f"<{r['leaf']}> content {r['content']!r}: inside the tree {got}; validated alone {alone}; expected {r.get('expected')}")
        ctx.case()
        if got != alone or (r.get("expected") == REJECT and not got) or (r.get("expected") == ACCEPT and got):
            ctx.fail(data.get("key", "C02:tree"), data.get("what", "content verdict inside a tree contradicts the statement"), r)
        return
    if "installed_rule" in r:
        ff, codes = impl_rule(r["installed_rule"], r["mixed"], "x", r["content"], [], r["children"])
        crs, enum = r["installed_rule"][2]["content_rules"], r["installed_rule"][2].get("content_enum")
    else:
        ff, codes = impl_named_rule(r["rule"], "x", r["content"], [tuple(a) for a in r["attributes"]], r["children"])
        crs, enum = r["content_rules"], r["content_enum"]
    known = all(c in ("emptyContent", "floatContent", "floatRangeContent_EW", "floatRangeContent_NS", "floatContent_Nonnegative", "intContent",
                      "nonEmptyContent", "strContent", "timeContent", "uriContent", "yearDateContent", "anyContent") for c in crs)
    verdict, cls = expected(crs, enum, r["mixed"], r["content"], len(r["children"])) if known else (REJECT, "unknown-content-rule")
    ccodes = [c for c in codes if c.startswith(CONTENT_CODES)]
    print(f"content={r['content']!r} rules={crs} enum={enum} mixed={r['mixed']} children={r['children']}: expected {verdict} ({cls}); observed ff={ff} codes={codes}")
    bad = (ff.startswith("CRASH") or any(c.startswith("CRASH") for c in codes) or (ff == "OK") != (codes == [])
           or (verdict == ACCEPT and bool(ccodes)) or (verdict == REJECT and (not ccodes or ff == "OK")))
    ctx.case()
    if bad:
        ctx.fail(data.get("key", "C02:replay"), data.get("what", "replayed input still contradicts the statement"), dict(r, observed_ff=ff, observed_codes=codes))

"""C10 — the rule table is closed and consistent with the known element names.

Steps: build the proof cone (table obligations by vm_compute over the regenerated
Gen/Tables.v); cross-check the translator against the LIVE tables of the running
implementation; check the finite oracle table of the canonical literals against the
interpreter; print the Coq witness trees, rebuild each on the implementation and run
validate.tree on it; compute, in plain Python from the property text, the same table
facts on the live tables (rule existence, well-formedness, child names known) and
demonstrate each failure on the real implementation."""
import json
import os
import re

from harness import common
from harness import gen_tables as GT
from harness import rulelib as RL
from harness.common import cstr, clist, cpair

CANON = ["0", "1", "12:00:00", "2000", "http://a.b/", "x", "v"]     # keys of Model/Witness.v orc_canon_tbl, in order
HEADER = ("From MP Require Import Common.Base Gen.Tables Model.Rule Model.RuleRun Spec.TableWf Model.Witness.\n"
          "Definition tb := {| tb_rules := rules; tb_node_map := node_map; tb_mixed := mixed_rules; "
          "tb_ranges := (range_ew, range_ns) |}.\n")
SHARD = 40


# ------------------------------------------------------------------ independent table reading (from the property text)
def is_int(v):
    return isinstance(v, int) and not isinstance(v, bool)


def parse_spec(c):
    """children spec -> ('el', name, lo, hi) | ('seq', items) | ('cho', alts, lo, hi); raises ValueError."""
    if not isinstance(c, list) or not c:
        raise ValueError("not a non-empty list: %r" % (c,))
    if isinstance(c[0], str):
        if len(c) != 3:
            raise ValueError("rule child needs [name, min, max]: %r" % (c,))
        lo, hi = c[1], c[2]
        if not (is_int(lo) and lo >= 0 and (hi is None or (is_int(hi) and hi >= 0))):
            raise ValueError("bad bounds: %r" % (c,))
        return ("el", c[0], lo, hi)
    if isinstance(c[-1], list):
        if not all(isinstance(x, list) for x in c):
            raise ValueError("sequence with a non-list item: %r" % (c,))
        return ("seq", [parse_spec(x) for x in c])
    if len(c) >= 3 and isinstance(c[0], list) and is_int(c[-2]):
        lo, hi = c[-2], c[-1]
        if not (lo >= 0 and (hi is None or (is_int(hi) and hi >= 0))):
            raise ValueError("bad choice bounds: %r" % (c,))
        if not all(isinstance(x, list) for x in c[:-2]):
            raise ValueError("choice with a non-list alternative: %r" % (c,))
        return ("cho", [parse_spec(x) for x in c[:-2]], lo, hi)
    raise ValueError("neither rule child, sequence nor choice: %r" % (c,))


def parse_children(children):
    if children == []:
        return None
    sp = parse_spec(children)
    if sp[0] == "el":
        raise ValueError("children section is a bare rule child")
    return sp


def spec_problems(sp, inside_seq=False):
    out = []
    if sp[0] == "el":
        if sp[3] is not None and sp[2] > sp[3]:
            out.append(f"child {sp[1]!r}: min {sp[2]} above max {sp[3]}")
    elif sp[0] == "seq":
        if inside_seq:
            out.append("a sequence directly inside a sequence")
        for i in sp[1]:
            out += spec_problems(i, True)
    else:
        if sp[3] is not None and sp[2] > sp[3]:
            out.append(f"choice: min {sp[2]} above max {sp[3]}")
        for a in sp[1]:
            out += spec_problems(a, False)
    return out


def spec_names(sp):
    if sp is None:
        return []
    if sp[0] == "el":
        return [sp[1]]
    return [n for x in sp[1] for n in spec_names(x)]


def rule_problems(rj, implemented):
    out = []
    if not (isinstance(rj, list) and len(rj) == 3):
        return ["rule is not [attributes, children, content]"]
    attrs, children, content = rj
    for k, spec in attrs.items():
        if not (isinstance(spec, list) and spec and isinstance(spec[0], bool)):
            out.append(f"attribute {k!r}: spec not led by a required flag")
        elif not all(isinstance(v, str) for v in spec[1:]):
            out.append(f"attribute {k!r}: non-string allowed value")
    try:
        sp = parse_children(children)
        if sp is not None:
            out += spec_problems(sp)
    except ValueError as e:
        out.append("children do not parse: " + str(e))
    for cr in content.get("content_rules", []):
        if cr not in implemented:
            out.append(f"content rule {cr!r} is not implemented")
    return out


def implemented_content_rules(names):
    """Which content-rule names does the running validator dispatch on? Observed on the
    implementation: an unimplemented name yields UNKNOWN_CONTENT_RULE."""
    ok = set()
    for cr in names:
        rj = [{}, [], {"content_rules": [cr]}]
        ff, codes = RL.impl_rule(rj, False, "x", None, [], [])
        if "UNKNOWN_CONTENT_RULE" not in codes and ff != "UnknownContentRuleError":
            ok.add(cr)
    return ok


# ------------------------------------------------------------------ independent witness search (fallback when Coq's tree is missing/invalid)
def _shorter(a, b):
    if a is None:
        return b
    if b is None:
        return a
    return b if len(b) < len(a) else a


def py_mw(sp, avail, mixed):
    def okhi(k, hi):
        return hi is None or k <= hi
    if sp[0] == "el":
        _, n, lo, hi = sp
        w = [] if lo == 0 else ([n] * lo if n in avail and okhi(lo, hi) else None)
        k = max(lo, 1)
        return w, ([n] * k if n in avail and okhi(k, hi) else None)
    if sp[0] == "seq":
        rs = [py_mw(i, avail, mixed) for i in sp[1]]
        if any(r[0] is None for r in rs):
            return None, None
        w = [x for r in rs for x in r[0]]
        if w:
            return w, w
        best = None
        for r in reversed(rs):
            best = _shorter(r[1], best)
        return w, best
    _, alts, lo, hi = sp
    best = None
    for r in reversed([py_mw(a, avail, mixed) for a in alts]):
        best = _shorter(r[1], best)

    def rep(k):
        return best * k if best is not None and okhi(k, hi) else None
    return ([] if (mixed or lo == 0) else rep(lo)), rep(max(lo, 1))


def py_min_trees(rules, node_map, mixed_rules):
    tbl = {}
    while True:
        new = {}
        for n, rn in node_map.items():
            if n in tbl or rn not in rules:
                continue
            rj = rules[rn]
            try:
                sp = parse_children(rj[1])
            except ValueError:
                continue
            w = [] if sp is None else py_mw(sp, tbl, rn in mixed_rules)[0]
            if w is None:
                continue
            # the implementation reads spec[0] as the required flag by truthiness
            attrs = [(k, ([v for v in spec[1:] if isinstance(v, str)] or ["v"])[0])
                     for k, spec in rj[0].items() if isinstance(spec, list) and spec and spec[0]]
            new[n] = (n, RL.canonical_content(rj), attrs, [tbl[c] for c in w])
        if not new:
            return tbl
        tbl.update(new)


# ------------------------------------------------------------------ Coq transport
def parse_nested(v):
    v = v.replace("%N", "").replace(";", ",")
    if not re.fullmatch(r"[\[\]0-9,\s]*", v):
        raise ValueError("unexpected characters in Coq output: " + v[:200])
    return json.loads(v)


def dec_tree(tok, i):
    def rd_str(i):
        n = tok[i]
        return "".join(chr(c) for c in tok[i + 1:i + 1 + n]), i + 1 + n
    name, i = rd_str(i)
    if tok[i] == 0:
        content, i = None, i + 1
    else:
        content, i = rd_str(i + 1)
    na = tok[i]
    i += 1
    attrs = []
    for _ in range(na):
        k, i = rd_str(i)
        v, i = rd_str(i)
        attrs.append((k, v))
    nk = tok[i]
    i += 1
    kids = []
    for _ in range(nk):
        t, i = dec_tree(tok, i)
        kids.append(t)
    return (name, content, attrs, kids), i


def coq_witness_trees(names):
    """{name: tree tuple or None} as produced by Model/Witness.v min_tree, or raises."""
    jobs = []
    for k in range(0, len(names), SHARD):
        part = names[k:k + SHARD]
        text = (HEADER + "Definition trees := Eval vm_compute in min_trees tb (witness_fuel tb).\n"
                "Eval vm_compute in map (fun n => enc_opt_tree (assoc n trees)) " + clist(cstr(n) for n in part) + ".\n")
        jobs.append((f"C10_trees_{k // SHARD}", text))
    out = {}
    for k, (rc, txt) in enumerate(common.coq_eval_many(jobs)):
        part = names[k * SHARD:(k + 1) * SHARD]
        if rc != 0:
            raise RuntimeError(f"{jobs[k][0]}: coqc failed: {txt[-600:]}")
        vals = common.parse_eval_values(txt)
        if len(vals) != 1:
            raise RuntimeError(f"{jobs[k][0]}: unparsable output: {txt[-300:]}")
        enc = parse_nested(vals[0])
        if len(enc) != len(part):
            raise RuntimeError(f"{jobs[k][0]}: {len(enc)} trees for {len(part)} names")
        for n, tok in zip(part, enc):
            if tok[0] == 0:
                out[n] = None
            else:
                t, j = dec_tree(tok, 1)
                if j != len(tok):
                    raise RuntimeError(f"{jobs[k][0]}: trailing tokens in the tree of {n}")
                out[n] = t
    return out


def tree_size(t):
    return 1 + sum(tree_size(k) for k in t[3])


def tree_json(t):
    return {"name": t[0], "content": t[1], "attributes": [list(a) for a in t[2]], "children": [tree_json(k) for k in t[3]]}


# ------------------------------------------------------------------ translator cross-check
def live_blocks():
    """The generated text of every table the translator produced, re-derived from the LIVE
    objects of the running implementation (never from the files)."""
    from metapype.eml import rule as R, names as NM, exceptions as EX
    from metapype.eml.validation_errors import ValidationError
    from metapype.eml.evaluation_warnings import EvaluationWarning
    blocks = {}
    rules = []
    for name, body in R.rules_dict.items():
        attrs, children, content = body
        rules.append(GT.emit_rule(name, [list(attrs.items()), children, list(content.items())]))
    blocks["rules"] = "Definition rules : list (pystr * rule_raw) := [\n" + ";\n".join(rules) + "\n]."
    blocks["node_map"] = ("Definition node_map : list (pystr * pystr) := [\n" +
                          ";\n".join(f"  ({cstr(k)}, {cstr(v)})" for k, v in R.node_mappings.items()) + "\n].")
    consts = [(k, v) for k, v in vars(NM).items() if isinstance(v, str) and not k.startswith("__")]
    blocks["name_consts"] = ("Definition name_consts : list (pystr * pystr) := [\n" +
                             ";\n".join(f"  ({cstr(k)}, {cstr(v)})" for k, v in consts) + "\n].")
    blocks["verr_codes"] = f"Definition verr_codes : list pystr := {clist(cstr(x) for x in ValidationError.__members__)}."
    blocks["warn_codes"] = f"Definition warn_codes : list pystr := {clist(cstr(x) for x in EvaluationWarning.__members__)}."
    par = []
    mro_bad = []
    classes = [(k, v) for k, v in vars(EX).items() if isinstance(v, type) and v.__module__ == EX.__name__]
    for k, v in classes:
        par.append((k, v.__bases__[0].__name__ if len(v.__bases__) == 1 else "<multiple bases>"))
    table = dict(par)
    for k, v in classes:
        chain, cur = [], k
        while cur in table and len(chain) < 50:
            chain.append(cur)
            cur = table[cur]
        chain.append(cur)
        mro = [c.__name__ for c in v.__mro__]
        if mro[:len(chain)] != chain:
            mro_bad.append({"class": k, "mro": mro, "chain_from_table": chain})
    blocks["exn_parent"] = ("Definition exn_parent : list (pystr * pystr) := [\n" +
                            ";\n".join(f"  ({cstr(k)}, {cstr(v)})" for k, v in par) + "\n].")
    return blocks, mro_bad


def check_translator(ctx):
    path = os.path.join(common.THEORIES, "Gen", "Tables.v")
    try:
        text = open(path, encoding="utf-8").read()
        blocks, mro_bad = live_blocks()
    except Exception as e:  # noqa
        ctx.fail("tie:tables", f"could not re-derive the tables from the live implementation: {type(e).__name__}: {e}",
                 {"kind": "broken-tie", "error": repr(e)}, concrete=False)
        return
    for name, blk in blocks.items():
        ctx.case(("tie", name), True)
        if blk not in text:
            # locate the first differing line for the replay
            m = re.search(r"Definition " + name + r" .*?\n\]?\.\n", text, flags=re.S)
            gen = m.group(0).splitlines() if m else []
            live = blk.splitlines()
            diff = next(((i, a, b) for i, (a, b) in enumerate(zip(gen, live)) if a != b), (min(len(gen), len(live)), None, None))
            ctx.fail("tie:tables", f"generated table '{name}' differs from the live object of the running implementation",
                     {"kind": "broken-tie", "table": name, "first_difference_line": diff[0],
                      "generated": diff[1], "live": diff[2], "generated_lines": len(gen), "live_lines": len(live)}, concrete=False)
    if mro_bad:
        ctx.fail("tie:tables", "exception MRO differs from the generated parent table", {"kind": "broken-tie", "mro": mro_bad}, concrete=False)
    ctx.count("translator tables cross-checked", len(blocks))



# ------------------------------------------------------------------ per-element probe of the implementation
def probe_elements(ctx, trees, nmap, rules):
    """The closure clause asked of the IMPLEMENTATION, element name by element name (code paths may be
    keyed on the element name, not on the rule): a child name that validate.node does not reject as
    not-allowed under an element must be a known element, or whole-tree validation must not look at it
    (the documented exception `metadata`: any single child, opaque to tree validation)."""
    from metapype.eml import validate
    from metapype.model.node import Node
    unknown = "".join(list("zzUnknownChild"))
    known = [n for n in nmap if trees.get(n) is not None]
    probes = 0
    for n in nmap:
        base = trees.get(n)
        if base is None:
            continue
        try:
            permitted = set(spec_names(parse_children(rules[nmap[n]][1])))
        except Exception:  # noqa
            permitted = set()
        others = [k for k in known if k not in permitted and k != n]
        xs = [unknown] + (ctx.rng.sample(others, 2) if len(others) >= 2 else others)
        for x in xs:
            xt = trees[x] if x in nmap else ("".join(list(x)), None, [], [])
            for shape, kids in (("only child", [xt]), ("after the witness children", base[3] + [xt]),
                                ("before the witness children", [xt] + base[3])):
                if shape != "only child" and not base[3]:
                    continue
                t = (base[0], base[1], base[2], kids)
                node = RL.build_tree(t)
                nff, ncodes = RL.run_both(lambda errs: validate.node(node, errs))
                probes += 1
                ctx.case(("probe", n, x, shape), True)
                child_rejected = "CHILD_NOT_ALLOWED" in ncodes or nff == "ChildNotAllowedError"
                if n == "metadata":
                    tff, tcodes = RL.run_both(lambda errs: validate.tree(node, errs))
                    if x not in nmap and ("UNKNOWN_NODE" in tcodes or tff == "UnknownNodeError"):
                        ctx.fail("C10:metadata-not-opaque", "validate.tree descends below 'metadata' although single-node validation lets it hold any child",
                                 {"kind": "impl-vs-statement", "tree": tree_json(t), "validate.node": [nff, ncodes], "validate.tree": [tff, tcodes]})
                    Node.store.clear()
                    continue
                if not child_rejected:
                    tff, tcodes = RL.run_both(lambda errs: validate.tree(node, errs))
                    rep = {"kind": "impl-vs-statement", "element": n, "child_name": x, "shape": shape, "tree": tree_json(t),
                           "validate.node (fail-fast, collected codes)": [nff, ncodes],
                           "validate.tree (fail-fast, collected codes)": [tff, tcodes]}
                    if x not in nmap:
                        ctx.fail(f"C10:node-accepts-unknown-child:{n}",
                                 f"validate.node does not reject the child name '{x}' under '{n}' ({shape}), it is not a known element, and validate.tree answers {tff}",
                                 rep, concrete=(tff == "UnknownNodeError" or "UNKNOWN_NODE" in tcodes))
                    else:
                        ctx.fail(f"corr:permits:{n}", f"validate.node does not reject the child '{x}' under '{n}' although the rule table does not permit it",
                                 rep, concrete=False)
                Node.store.clear()
    ctx.count("element probes (foreign / unpermitted child under every element name)", probes)


# ------------------------------------------------------------------ statelessness of the read-only rule API
def _call(fn):
    try:
        v = fn()
        return json.dumps(v, default=repr, sort_keys=False)
    except Exception as e:  # noqa
        return "raises " + type(e).__name__


def exercise_rule_api(ctx, trees, file_rules, file_nmap):
    """ASSUMPTION of every theorem about the tables: queries do not change them. Exercise the
    whole public read-only Rule API on every rule twice (the second pass on the long-lived Rule
    objects of the first pass AND on fresh ones), watching the live tables after every call."""
    import copy
    from metapype.eml import rule as R
    from metapype.model.node import Node
    FOREIGN = "zzForeign"
    by_rule = {}
    for n, rn in file_nmap.items():
        if rn not in by_rule and trees.get(n) is not None:
            by_rule[rn] = trees[n]
    objs = {}
    answers = {}
    calls_made = 0
    for rn in file_rules:
        if R.rules_dict.get(rn) != file_rules[rn]:
            ctx.fail(f"C10:table-mutated:{rn}", f"the live entry of '{rn}' no longer equals rules.json after validating the witness trees",
                     {"kind": "impl-vs-statement", "rule": rn, "call_sequence": ["validate.tree(witness) for every element, both modes"],
                      "entry_in_rules_json": file_rules[rn], "live_entry_after": R.rules_dict.get(rn)})
            R.rules_dict[rn] = copy.deepcopy(file_rules[rn])

    def run_calls(rn, r, log):
        nonlocal calls_made
        attrs, children, content = file_rules[rn]
        try:
            names = spec_names(parse_children(children))
        except ValueError:
            names = []
        wt = by_rule.get(rn) or ("x", RL.canonical_content(file_rules[rn]), [], [])
        calls = [("name", lambda: r.name), ("attributes", lambda: r.attributes), ("children", lambda: r.children),
                 ("content_rules", lambda: r.content_rules), ("content_enum", lambda: r.content_enum),
                 ("has_enum_content()", lambda: r.has_enum_content())]
        for a in list(attrs) + [FOREIGN]:
            calls.append((f"is_required_attribute({a!r})", lambda a=a: r.is_required_attribute(a)))
            calls.append((f"allowed_attribute_values({a!r})", lambda a=a: r.allowed_attribute_values(a)))
        for c in names + [FOREIGN]:
            calls.append((f"is_allowed_child({c!r})", lambda c=c: r.is_allowed_child(c)))

        def cii(c, kids):
            parent = Node("parent")
            for k in kids:
                parent.add_child(Node(k))
            return r.child_insert_index(parent, Node(c))
        for c in names[:6] + [FOREIGN]:
            calls.append((f"child_insert_index(parent{names[:2]!r}, {c!r})", lambda c=c: cii(c, names[:2])))

        def val(collect):
            node = RL.build_tree(wt)
            errs = [] if collect else None
            r.validate_rule(node, errs)
            return None if errs is None else [RL.entry_code(e) for e in errs]
        calls.append(("validate_rule(witness node)", lambda: val(False)))
        calls.append(("validate_rule(witness node, errs=[])", lambda: val(True)))
        out = []
        for label, fn in calls:
            res = _call(fn)
            calls_made += 1
            log.append(label)
            out.append((label, res))
            if R.rules_dict.get(rn) != file_rules[rn]:
                now = copy.deepcopy(R.rules_dict.get(rn))
                ctx.fail(f"C10:table-mutated:{rn}",
                         f"the read-only query {label} on Rule('{rn}') changed the rule table: the live entry of '{rn}' no longer equals rules.json",
                         {"kind": "impl-vs-statement", "rule": rn, "call_sequence": [f"r = Rule({rn!r})"] + ["r." + c for c in log],
                          "entry_in_rules_json": file_rules[rn], "live_entry_after": now,
                          "well_formedness_problems_now": rule_problems(now, set(c for c in content.get("content_rules", []))) if now is not None else ["entry removed"]})
                R.rules_dict[rn] = copy.deepcopy(file_rules[rn])    # keep going on an intact table
        Node.store.clear()
        return out

    for pas in (1, 2):
        for rn in file_rules:
            log = []
            try:
                r = objs.get(rn) or R.Rule(rn)
            except Exception:  # noqa
                continue
            objs[rn] = r
            ans = run_calls(rn, r, log)
            ctx.case(("api", pas, rn), True)
            if pas == 1:
                answers[rn] = ans
            else:
                fresh = run_calls(rn, R.Rule(rn), [])
                for (lab, a1), (_, a2), (_, a3) in zip(answers[rn], ans, fresh):
                    if not (a1 == a2 == a3):
                        ctx.fail(f"C10:stateful:{rn}", f"Rule('{rn}').{lab} answers differently when asked again",
                                 {"kind": "impl-vs-statement", "rule": rn, "call": lab, "first_pass": a1,
                                  "second_pass_same_object": a2, "second_pass_fresh_object": a3})
                        break
            if R.rules_dict != file_rules or list(R.rules_dict) != list(file_rules):
                for other in file_rules:
                    if R.rules_dict.get(other) != file_rules[other]:
                        ctx.fail(f"C10:table-mutated:{other}", f"exercising Rule('{rn}') changed the live entry of rule '{other}'",
                                 {"kind": "impl-vs-statement", "rule": other, "exercised_rule": rn, "call_sequence": log,
                                  "entry_in_rules_json": file_rules[other], "live_entry_after": R.rules_dict.get(other)})
                        R.rules_dict[other] = copy.deepcopy(file_rules[other])
            if dict(R.node_mappings) != file_nmap:
                ctx.fail("C10:table-mutated:node_mappings", f"exercising Rule('{rn}') changed node_mappings",
                         {"kind": "impl-vs-statement", "exercised_rule": rn, "call_sequence": log})
    ctx.count("read-only API calls watched for table mutation", calls_made)

# ------------------------------------------------------------------ the check
def demonstrate_gap(R, validate, Node, parent, gap, trees):
    """Find children for `parent` containing `gap` such that validate.node(parent) accepts
    and validate.tree(parent) raises UnknownNodeError. Returns replay dict (demonstrated or not)."""
    from metapype.eml.exceptions import UnknownNodeError
    base = trees.get(parent)
    if base is None:
        # the parent itself has no witness (the gap child is required): assemble its shortest
        # child sequence treating the gap name as available
        rn = R.node_mappings[parent]
        rj = R.rules_dict[rn]
        try:
            sp = parse_children(rj[1])
        except ValueError:
            return None
        avail = {n for n, t in trees.items() if t is not None} | {gap}
        w = py_mw(sp, avail, False)[0] if sp is not None else []
        if w is None:
            return None
        attrs = [(k, ([v for v in spec[1:] if isinstance(v, str)] or ["v"])[0])
                 for k, spec in rj[0].items() if isinstance(spec, list) and spec and spec[0]]
        base = (parent, RL.canonical_content(rj), attrs, [trees[c] if c != gap else (gap, None, [], []) for c in w])
    kids = base[3]
    gapt = (gap, None, [], [])
    cands = ([kids] if any(k[0] == gap for k in kids) else []) + \
            [kids[:i] + [gapt] + kids[i:] for i in range(len(kids) + 1)] + \
            [kids[:i] + [gapt] + kids[i + 1:] for i in range(len(kids))]
    for ks in cands:
        t = (base[0], base[1], base[2], ks)
        n = RL.build_tree(t)
        try:
            validate.node(n)
            node_ok = True
        except Exception:  # noqa
            node_ok = False
        tree_exc = None
        if node_ok:
            try:
                validate.tree(n)
            except UnknownNodeError as e:
                tree_exc = "UnknownNodeError: " + str(e)
            except Exception as e:  # noqa
                tree_exc = type(e).__name__ + ": " + str(e)
        Node.store.clear()
        if node_ok and tree_exc and tree_exc.startswith("UnknownNodeError"):
            return {"parent_element": parent, "child_name": gap, "children": [k[0] for k in ks],
                    "parent_tree": tree_json(t), "validate.node(parent)": "accepted",
                    "validate.tree(parent)": tree_exc, "demonstrated": True}
    return {"parent_element": parent, "child_name": gap, "demonstrated": False}


def run(ctx):
    from metapype.eml import rule as R, validate
    from metapype.model.node import Node
    built = ctx.build()
    ctx.extra["rule"] = ("complete enumeration of the shipped tables: one case per element name (rule exists; Coq witness tree "
                         "rebuilt and validated on the implementation), per rule (well-formedness re-derived in Python and "
                         "flattened child names model vs implementation), per (reachable rule, permitted child name), per "
                         "translator table, per canonical oracle literal; non-trivial = distinct case")
    rules, nmap = R.rules_dict, R.node_mappings
    # the tables as the FILES define them (rules.json re-read; node_mappings as imported, cross-checked below)
    with open(os.path.join(common.REPO, "src", "metapype", "eml", "rules.json"), encoding="utf-8") as f:
        file_rules = json.load(f)
    file_nmap = dict(R.node_mappings)
    # ---- (A) translator vs live objects
    check_translator(ctx)

    # ---- every element name resolves to an existing rule
    for n, rn in nmap.items():
        ctx.case(("exists", n), True)
        if rn not in rules:
            try:
                R.get_rule(n)
                obs = "no exception"
            except Exception as e:  # noqa
                obs = type(e).__name__ + ": " + str(e)
            ctx.fail(f"C10:rule-missing:{n}", f"element '{n}' maps to rule '{rn}' which is not in the rule table",
                     {"kind": "impl-vs-statement", "element": n, "rule": rn, "rule.get_rule(element)": obs})

    # ---- every rule is well-formed (independent reading of the property text)
    used_cr = sorted({cr for rj in rules.values() if isinstance(rj, list) and len(rj) == 3 for cr in rj[2].get("content_rules", [])})
    implemented = implemented_content_rules(used_cr)
    for rn, rj in rules.items():
        ctx.case(("wf", rn), True)
        probs = rule_problems(rj, implemented)
        if probs:
            try:
                R.Rule(rn)
                obs = "Rule(name) constructs"
            except Exception as e:  # noqa
                obs = "Rule(name) raises " + type(e).__name__ + ": " + str(e)
            ctx.fail(f"C10:wf:{rn}", f"rule '{rn}' is not well-formed: {probs[0]}",
                     {"kind": "impl-vs-statement", "rule": rn, "entry": rj, "problems": probs, "observed": obs})
        ctx.count("rules: " + ("reachable" if rn in nmap.values() else "unreachable"))

    # ---- flattened child names: model (parse_children + names_of) vs implementation
    flat_live, flat_meta = [], []
    for rn, rj in rules.items():
        try:
            flat_live.append(list(R.Rule(rn)._rule_children_names))
        except Exception as e:  # noqa
            flat_live.append(["<raises " + type(e).__name__ + ">"])
        flat_meta.append(rn)
    rc, out = common.coq_eval("C10_flat", HEADER +
                              "Definition want := " + clist(clist(cstr(c) for c in l) for l in flat_live) + ".\n"
                              "Eval vm_compute in mismatches (list_eqb pystr_eqb) (map (fun p => rule_child_names (snd p)) rules) want.\n")
    vals = common.parse_eval_values(out) if rc == 0 else []
    if rc != 0 or len(vals) != 1:
        ctx.fail("corr:coq-error", "case file C10_flat did not evaluate", {"kind": "broken-correspondence", "output": out[-1500:]}, concrete=False)
    else:
        bad = common.parse_nat_list(vals[0])
        for i in bad[:3]:
            rn = flat_meta[i] if i < len(flat_meta) else "<length>"
            ctx.fail(f"corr:flatten:{rn}", "model and implementation disagree on the flattened child names of a rule",
                     {"kind": "broken-correspondence", "rule": rn, "implementation": flat_live[i] if i < len(flat_live) else None}, concrete=False)
        for _ in flat_live:
            ctx.case(None, False)
        ctx.extra["traces_validated_against_impl"] = len(flat_live) - len(bad)

    # ---- canonical oracle literals: the answers written in Model/Witness.v vs the interpreter
    live_orc = clist(cpair(cstr(x), RL.coq_oans(RL.oracle(x))) for x in CANON)
    rc, out = common.coq_eval("C10_orc", HEADER + f"Eval vm_compute in mismatches orc_entry_eqb orc_canon_tbl {live_orc}.\n")
    vals = common.parse_eval_values(out) if rc == 0 else []
    if rc != 0 or len(vals) != 1:
        ctx.fail("corr:coq-error", "case file C10_orc did not evaluate", {"kind": "broken-correspondence", "output": out[-1500:]}, concrete=False)
    else:
        for i in common.parse_nat_list(vals[0]):
            lit = CANON[i] if i < len(CANON) else "<length mismatch>"
            ctx.fail(f"tie:oracle:{lit}", f"oracle answers recorded for the canonical literal {lit!r} differ from the interpreter's",
                     {"kind": "broken-tie", "literal": lit, "interpreter": RL.oracle(lit) if i < len(CANON) else None}, concrete=False)
        for x in CANON:
            ctx.case(("orc", x), True)

    # ---- witness trees: produced by the Coq generator, validated on the implementation
    names = list(nmap)
    trees = {}
    try:
        trees = coq_witness_trees(names)
    except Exception as e:  # noqa
        ctx.fail("corr:coq-error", f"witness trees could not be obtained from Coq: {e}",
                 {"kind": "broken-correspondence", "error": str(e)}, concrete=False)
    pytrees = None
    validated = 0
    first_ok_names = set()
    sizes = []
    for n in names:
        if n not in trees:
            continue
        ctx.case(("witness", n), True)
        t = trees[n]
        obs = None
        if t is not None:
            obs = RL.impl_tree(t)
            sizes.append(tree_size(t))
            if t[0] == n and obs == ("OK", []):
                validated += 1
                first_ok_names.add(n)
                ctx.sample({"element": n, "witness_nodes": tree_size(t), "validate.tree": "accepted (both modes)"}, limit=5)
                continue
        # Coq produced no tree, or the implementation rejects it: look for any validating tree independently
        if pytrees is None:
            pytrees = py_min_trees(rules, nmap, ("textRule", "anyNameRule", "paraRule", "subscriptRule", "superscriptRule"))
        alt = pytrees.get(n)
        alt_obs = RL.impl_tree(alt) if alt is not None else None
        if alt is not None and alt_obs == ("OK", []):
            ctx.fail(f"corr:witness:{n}", f"the Coq witness tree of '{n}' is {'missing' if t is None else 'rejected by the implementation'} "
                     "although a validating tree exists",
                     {"kind": "broken-correspondence", "element": n, "coq_tree": None if t is None else tree_json(t),
                      "implementation_on_coq_tree": obs, "validating_tree": tree_json(alt)}, concrete=False)
        else:
            ctx.fail(f"C10:no-witness:{n}", f"no tree rooted at '{n}' passes whole-tree validation (minimal construction "
                     f"{'impossible: a required child has no validating tree' if alt is None and t is None else 'rejected'})",
                     {"kind": "impl-vs-statement", "element": n, "rule": nmap[n],
                      "tree": tree_json(t) if t is not None else (tree_json(alt) if alt is not None else None),
                      "validate.tree": obs if t is not None else alt_obs,
                      "rule_entry": rules.get(nmap[n])})
    ctx.extra["witness_trees_validated_on_implementation"] = validated
    if sizes:
        ctx.extra["witness_tree_nodes"] = {"min": min(sizes), "max": max(sizes), "total": sum(sizes)}

    # ---- every child name a reachable rule permits is a known element
    gaps = {}
    for n, rn in nmap.items():
        if rn not in rules:
            continue
        try:
            cs = spec_names(parse_children(rules[rn][1]))
        except ValueError:
            continue
        for c in cs:
            ctx.case(("child", rn, c), True)
            if c not in nmap:
                gaps.setdefault(c, []).append(n)
    ctx.extra["gaps"] = sorted(gaps)
    for c in sorted(gaps):
        rep = None
        for parent in gaps[c]:
            rep = demonstrate_gap(R, validate, Node, parent, c, trees)
            if rep and rep.get("demonstrated"):
                break
        rep = rep or {"parent_element": gaps[c][0], "child_name": c, "demonstrated": False}
        rep["kind"] = "impl-vs-statement"
        rep["permitting_elements"] = gaps[c][:10]
        ctx.fail(f"C10:child-name:{c}",
                 f"child name '{c}' is permitted by the rule of '{rep['parent_element']}' but is not a known element: "
                 "validate.node accepts the parent, validate.tree raises UnknownNodeError",
                 rep, concrete=bool(rep.get("demonstrated")))
    # ---- the closure clause probed on the implementation, element by element
    probe_elements(ctx, trees, nmap, rules)
    # ---- statelessness: the whole read-only API twice, then the tables and the witnesses once more
    exercise_rule_api(ctx, trees, file_rules, file_nmap)
    check_translator(ctx)
    again = 0
    for n, t in trees.items():
        if t is None:
            continue
        obs = RL.impl_tree(t)
        ctx.case(("witness-after-queries", n), True)
        if obs == ("OK", []):
            again += 1
        else:
            ctx.fail(f"C10:witness-after-queries:{n}", f"the witness tree of '{n}' no longer validates after the read-only queries: {obs}",
                     {"kind": "impl-vs-statement", "element": n, "tree": tree_json(t), "validate.tree": obs,
                      "history": "every public read-only method of Rule called twice on every rule"},
                     concrete=n in first_ok_names)
    ctx.extra["witness_trees_validated_again_after_queries"] = again
    if not built:
        ctx.obligations_failed("complete enumeration of the live tables in Python: rule existence, well-formedness, "
                               "permitted child names, witness trees validated on the implementation")

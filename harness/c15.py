"""C15 — prune removes exactly the offending subtrees and nothing else.

(B) correspondence: validate.prune on the implementation vs. the Gallina model
    (Model/Prune.v) evaluated inside Coq on the same trees: resulting tree, returned
    (node id, reason kind) list, registry keys.
(S) statement search: the property text executed directly against the implementation with
    plain Python written from the text (postconditions, totality, kept nodes untouched and in
    order, returned list = removed roots with truthful reasons, registry, second prune)."""
import copy
import json
import os
import re

from harness import common
from harness import nodelib as NL
from harness import rulelib as RL
from harness.common import cstr, copt, clist, cbool, cpair

HEADER = ("From MP Require Import Common.Base Common.Tree Gen.Tables Model.Rule Model.RuleRun Model.Prune Model.PruneRun.\n"
          "Definition tb := {| tb_rules := rules; tb_node_map := node_map; tb_mixed := mixed_rules; tb_ranges := (range_ew, range_ns) |}.\n")

UNKNOWN_NAMES = ["zzUnknown", "Title", "protocol", "software", "studyAreaDescription", "zz:ns"]
MAX_COQ_NODES = 40


# ------------------------------------------------------------------ plain trees
def node(name, content=None, attrs=None, kids=None, **kw):
    d = {"id": None, "name": name, "content": content, "tail": kw.get("tail"), "prefix": kw.get("prefix"),
         "attrs": [list(a) for a in (attrs or [])], "extras": kw.get("extras", []), "nsmap": kw.get("nsmap", []),
         "kids": kids or []}
    return d


def size(t):
    return 1 + sum(size(k) for k in t["kids"])


def walk(t, parent=None, in_meta=False):
    """(node, parent, below_metadata) in document order"""
    yield t, parent, in_meta
    for k in t["kids"]:
        yield from walk(k, t, in_meta or t["name"] == "metadata")


def reid(t, prefix="n"):
    for i, (n, _, _) in enumerate(list(walk(t))):
        n["id"] = f"{prefix}{i}"
    return t


def ids_of(t):
    return [n["id"] for n, _, _ in walk(t)]


def strip_ns(t):
    """normalise the fields prune never looks at (keeps Coq literals small)"""
    for n, _, _ in walk(t):
        n["tail"] = None
        n["prefix"] = None
        n["extras"] = []
        n["nsmap"] = []
    return t


class DidNotReturn(BaseException):
    """raised by the per-call time limit (a BaseException so that no `except Exception` in the library eats it)"""


def limited(fn, seconds=8.0):
    """run fn() under a per-call time limit; raises DidNotReturn when it is exceeded"""
    import signal

    def on_alarm(signum, frame):
        raise DidNotReturn()
    import time as _time
    old = signal.signal(signal.SIGALRM, on_alarm)
    prev = signal.setitimer(signal.ITIMER_REAL, seconds)      # prev = the check's own watchdog, if armed
    t0 = _time.monotonic()
    try:
        return fn()
    finally:
        signal.setitimer(signal.ITIMER_REAL, 0)
        signal.signal(signal.SIGALRM, old)
        if prev[0]:
            # re-arm the outer watchdog with what is left of ITS time
            signal.setitimer(signal.ITIMER_REAL, max(prev[0] - (_time.monotonic() - t0), 0.5), prev[1])


def fstr(x):
    """a NEW str object with the same text (no sharing with literals / other nodes)"""
    return "".join(list(x)) if isinstance(x, str) else x


def fresh_strs(t):
    """the same tree with every name / id / content / attribute string rebuilt as a new object"""
    c = {k: fstr(v) for k, v in t.items() if k not in ("attrs", "extras", "nsmap", "kids")}
    for f in ("attrs", "extras", "nsmap"):
        c[f] = [[fstr(a), fstr(b)] for a, b in t.get(f, [])]
    c["kids"] = [fresh_strs(k) for k in t["kids"]]
    return c


def all_strings(t):
    return [n["content"] for n, _, _ in walk(t) if n["content"] is not None]


# ------------------------------------------------------------------ tables, read independently of rule.py's helpers
class Tables:
    def __init__(self):
        from metapype.eml import rule as R
        with open(os.path.join(common.REPO, "src", "metapype", "eml", "rules.json"), encoding="utf-8") as f:
            self.rules = json.load(f)
        self.node_map = dict(R.node_mappings)
        self.known = [k for k in self.node_map]
        self._allowed = {}

    @staticmethod
    def _flat(js, acc):
        for x in js:
            if isinstance(x, str):
                acc.append(x)
            elif isinstance(x, list):
                Tables._flat(x, acc)
        return acc

    def allowed(self, name):
        """element names the rule of `name` mentions anywhere in its children section"""
        if name not in self._allowed:
            self._allowed[name] = set(self._flat(self.rules[self.node_map[name]][1], []))
        return self._allowed[name]

    # ---- children spec, parsed the way the table is laid out (for generation only)
    def spec(self, js):
        if not js:
            return ("seq", [])
        if isinstance(js[0], str):
            return ("el", js[0], js[1], js[2])
        if isinstance(js[-1], list):
            return ("seq", [self.spec(x) for x in js])
        return ("cho", [self.spec(x) for x in js[:-2]], js[-2], js[-1])


class Gen:
    """small rule-guided trees (mostly valid)"""

    def __init__(self, rng, tb):
        self.rng = rng
        self.tb = tb
        self.depth = {}
        names = list(tb.node_map)
        for n in names:
            self.depth[n] = 99
        for _ in range(12):
            for n in names:
                self.depth[n] = 1 + self._sd(tb.spec(tb.rules[tb.node_map[n]][1]))

    def _sd(self, sp):
        if sp[0] == "el":
            return self.depth.get(sp[1], 99) if sp[2] > 0 else 0
        if sp[0] == "seq":
            return max([self._sd(x) for x in sp[1]] + [0])
        if sp[2] == 0:
            return 0
        return min(self._sd(x) for x in sp[1])

    def word(self, sp, budget, rich):
        rng = self.rng
        if sp[0] == "el":
            lo, hi = sp[2], sp[3]
            k = lo
            if rich and budget > self.depth.get(sp[1], 99) and rng.random() < 0.35 and (hi is None or hi > lo):
                k = lo + 1
            return [sp[1]] * k
        if sp[0] == "seq":
            out = []
            for x in sp[1]:
                out += self.word(x, budget, rich)
            return out
        alts, lo, hi = sp[1], sp[2], sp[3]
        k = lo
        if rich and rng.random() < 0.3 and (hi is None or hi > lo):
            k = lo + 1
        out = []
        for _ in range(k):
            ok = [a for a in alts if self._sd(a) < budget] or [min(alts, key=self._sd)]
            for _try in range(4):
                w = self.word(rng.choice(ok), budget, rich)
                if w:
                    break
            out += w
        return out

    def tree(self, name, budget=4, rich=True):
        tb = self.tb
        if name not in tb.node_map:
            return node(name)
        rj = tb.rules[tb.node_map[name]]
        attrs = []
        for a, sp in rj[0].items():
            if sp[0] is True or (rich and self.rng.random() < 0.15):
                attrs.append([a, sp[1] if len(sp) > 1 else "v" + a])
        names = self.word(tb.spec(rj[1]), budget, rich) if name != "metadata" else []
        kids = [self.tree(k, budget - 1, rich) for k in names]
        content = RL.canonical_content(rj)
        if kids and tb.node_map[name] in ("textRule", "anyNameRule", "paraRule", "subscriptRule", "superscriptRule"):
            content = None if self.rng.random() < 0.5 else content
        return node(name, content, attrs, kids)


# ------------------------------------------------------------------ planting
class Planter:
    def __init__(self, rng, tb, gen):
        self.rng, self.tb, self.gen = rng, tb, gen

    def pick(self, t, pred=lambda n, p, m: True):
        c = [(n, p, m) for n, p, m in walk(t) if pred(n, p, m)]
        return self.rng.choice(c) if c else None

    def small_subtree(self, name):
        r = self.rng.random()
        if r < 0.5:
            return node(name, None if r < 0.25 else "x")
        kn = self.rng.choice(self.tb.known)
        return node(name, None, [], [self.gen.tree(kn, 1, False), node(self.rng.choice(UNKNOWN_NAMES))][: self.rng.randint(1, 2)])

    def insert(self, parent, child):
        parent["kids"].insert(self.rng.randint(0, len(parent["kids"])), child)

    def plant_unknown(self, t, where=None):
        tgt = where or self.pick(t, lambda n, p, m: not m)
        name = self.rng.choice(UNKNOWN_NAMES)
        if name in ("protocol", "software", "studyAreaDescription") and self.rng.random() < 0.7:
            # a parent whose rule lists the name although it is no element (C10 gap): pruned as unknown
            cand = self.pick(t, lambda n, p, m: not m and n["name"] in self.tb.node_map and name in self.tb.allowed(n["name"]))
            if cand:
                tgt = cand
        self.insert(tgt[0], self.small_subtree(name))
        return tgt[0], "unknown"

    def plant_misplaced(self, t, where=None):
        tgt = where or self.pick(t, lambda n, p, m: not m and n["name"] in self.tb.node_map and n["name"] != "metadata")
        if tgt is None or tgt[0]["name"] not in self.tb.node_map:
            return self.plant_unknown(t, where)
        al = self.tb.allowed(tgt[0]["name"])
        for _ in range(20):
            nm = self.rng.choice(self.tb.known)
            if nm not in al:
                break
        sub = self.gen.tree(nm, self.rng.randint(1, 2), False)
        if self.rng.random() < 0.3:
            sub["kids"].append(node(self.rng.choice(UNKNOWN_NAMES)))
        self.insert(tgt[0], sub)
        return tgt[0], "misplaced"

    def make_invalid(self, t, where=None):
        tgt = where or self.pick(t, lambda n, p, m: not m)
        n = tgt[0]
        r = self.rng.random()
        if r < 0.25:
            n["content"] = self.rng.choice([None, ""]) if n["content"] else "unexpected text"
            return n, "bad-content"
        if r < 0.5:
            if n["attrs"] and self.rng.random() < 0.3:
                self.rng.choice(n["attrs"])[1] = ""          # falsy but legal attribute value
                return n, "empty-attribute-value"
            if all(a[0] != "zzAttr" for a in n["attrs"]):
                n["attrs"].append(["zzAttr", self.rng.choice(["1", ""])])
            return n, "bad-attribute"
        if r < 0.7 and n["kids"]:
            del n["kids"][self.rng.randrange(len(n["kids"]))]
            return n, "missing-child"
        if r < 0.85 and n["kids"]:
            k = self.rng.choice(n["kids"])
            n["kids"].insert(self.rng.randint(0, len(n["kids"])), copy.deepcopy(k))
            return n, "repeated-child"
        if len(n["kids"]) > 1:
            self.rng.shuffle(n["kids"])
            return n, "shuffled-children"
        n["content"] = "\ud800x" if self.rng.random() < 0.2 else "7x"
        return n, "bad-content"

    def foreign_in_metadata(self, t):
        m = self.pick(t, lambda n, p, mm: n["name"] == "metadata")
        if m is None:
            am = self.pick(t, lambda n, p, mm: n["name"] == "eml")
            if am is None:
                return None, None
            meta = node("metadata", None, [], [node("zzForeign", "x", [["a", "b"]], [node("title", None), node("zzInner")])])
            am[0]["kids"].append(node("additionalMetadata", None, [], [meta]))
            return meta, "metadata-added"
        r = self.rng.random()
        if r < 0.5:
            self.insert(m[0], node(self.rng.choice(UNKNOWN_NAMES + ["dataset", "title"]), "t", [["zz", "1"]], [node("zzDeep"), node("para", "p")]))
            return m[0], "metadata-foreign"       # may give metadata two children: invalid in strict mode
        inner = self.pick(m[0])
        self.insert(inner[0], node(self.rng.choice(UNKNOWN_NAMES + ["creator"]), None))
        return inner[0], "metadata-deep-foreign"

    KINDS = ("unknown", "misplaced", "invalid")

    def plant_inside(self, sub, kind):
        """an offender of the given kind somewhere inside the subtree `sub` (its root included as a parent)"""
        if kind == "unknown":
            tgt = self.pick(sub)
            self.insert(tgt[0], self.small_subtree(self.rng.choice(UNKNOWN_NAMES[:2])))
        elif kind == "misplaced":
            tgt = self.pick(sub, lambda n, p, m: n["name"] in self.tb.node_map and n["name"] != "metadata") or self.pick(sub)
            self.plant_misplaced(sub, tgt)
        else:
            tgt = self.pick(sub, lambda n, p, m: p is not None) or self.pick(sub)
            self.make_invalid(sub, tgt)

    def plant_nested(self, t, outer=None, inner=None):
        """an offender whose own subtree holds another offender: every combination of the three kinds"""
        outer = outer or self.rng.choice(self.KINDS)
        inner = inner or self.rng.choice(self.KINDS)
        tgt = self.pick(t, lambda n, p, m: not m and n["name"] in self.tb.node_map and n["name"] != "metadata")
        if tgt is None:
            return None, None
        host = tgt[0]
        if outer == "unknown":
            sub = node(self.rng.choice(UNKNOWN_NAMES[:2]), None, [], [self.gen.tree(self.rng.choice(self.tb.known), 1, False)])
            self.plant_inside(sub, inner)
            self.insert(host, sub)
        elif outer == "misplaced":
            al = self.tb.allowed(host["name"])
            cand = [k for k in self.tb.known if k not in al and self.tb.rules[self.tb.node_map[k]][1]]
            nm = self.rng.choice(cand or self.tb.known)
            sub = self.gen.tree(nm, 2, False)                # a known element with children of its own
            self.plant_inside(sub, inner)
            self.insert(host, sub)
        else:
            # an existing (allowed) child with children becomes invalid; the inner offender goes inside it
            c = self.pick(t, lambda n, p, m: not m and p is not None and n["kids"] and n["name"] in self.tb.node_map
                          and n["name"] != "metadata")
            if c is None:
                return None, None
            if all(a[0] != "zzAttr" for a in c[0]["attrs"]):
                c[0]["attrs"].append(["zzAttr", "1"])
            self.plant_inside(c[0], inner)
            host = c[1]
        return host, f"nested:{outer}/{inner}"

    def mutate(self, t, ctx):
        n = self.rng.choice([0, 1, 1, 2, 2, 3, 4])
        tags = []
        for _ in range(n):
            r = self.rng.random()
            if r < 0.2:
                p, tag = self.plant_nested(t)
            elif r < 0.4:
                p, tag = self.plant_unknown(t)
            elif r < 0.6:
                p, tag = self.plant_misplaced(t)
            elif r < 0.85:
                p, tag = self.make_invalid(t)
            else:
                p, tag = self.foreign_in_metadata(t)
            if p is None:
                continue
            tags.append(tag)
            # errors on the PARENT (and grandparent) of a planted node
            if tag in ("unknown", "misplaced") and p is not None and self.rng.random() < 0.5:
                _, tg = self.make_invalid(t, (p, None, False))
                tags.append("parent-" + tg)
                anc = [q for q, _, _ in walk(t) if any(k is p for k in q["kids"])]
                if anc and self.rng.random() < 0.4:
                    _, tg = self.make_invalid(t, (anc[0], None, False))
                    tags.append("grandparent-" + tg)
        return tags


# ------------------------------------------------------------------ implementation run
REASON_NOT_ALLOWED = re.compile(r"^Child '.*' not allowed in parent '.*'$", re.S)


def reason_kind(msg):
    if not isinstance(msg, str) or not msg:
        return "none"
    if msg.startswith("Unknown node rule type"):
        return "unknown"
    if REASON_NOT_ALLOWED.match(msg):
        return "notallowed"
    return "invalid"


def run_impl(t, strict):
    """returns dict: exc | after snapshot, returned list [(id, kind)], store after, plus (S) observations"""
    from metapype.eml import validate
    from metapype.eml.exceptions import MetapypeRuleError
    from metapype.model.node import Node
    Node.store.clear()
    root = NL.build(fresh_strs(t), attach=False)
    return observe(root, strict, clear=True)


def observe(root, strict, clear=True):
    """prune the live tree `root` and record everything the statement talks about"""
    from metapype.eml import validate
    from metapype.eml.exceptions import MetapypeRuleError
    from metapype.model.node import Node
    store_before = sorted(Node.store.keys())
    out = {"store_before": store_before}
    try:
        # every way the optional parameter can be passed: omitted (lenient), positional, keyword
        form = len(store_before) % 3
        if not strict and form == 0:
            pruned = limited(lambda: validate.prune(root))
        elif form == 1:
            pruned = limited(lambda: validate.prune(root, strict=strict))
        else:
            pruned = limited(lambda: validate.prune(root, strict))
    except DidNotReturn:
        out["exc"] = "NON-TERMINATION: prune did not return within 8 s"
        out["after"] = {"id": root.id, "name": root.name, "content": None, "tail": None, "prefix": None, "attrs": [], "extras": [], "nsmap": [], "kids": []}
        out["store_after"] = []
        if clear:
            Node.store.clear()
        return out
    except Exception as e:  # noqa
        out["exc"] = type(e).__name__ + ": " + str(e)[:200]
        out["after"] = NL.snapshot(root)
        out["store_after"] = sorted(Node.store.keys())
        if clear:
            Node.store.clear()
        return out
    out["exc"] = None
    out["after"] = NL.snapshot(root)
    out["returned"] = [(n.id, reason_kind(msg)) for n, msg in pruned]
    out["returned_malformed"] = [repr(e)[:80] for e in pruned if not (isinstance(e, tuple) and len(e) == 2)]
    out["store_after"] = sorted(Node.store.keys())
    # truthfulness of "invalid": the removed node, in the state it was removed in, fails single-node validation
    inv = {}
    for n, msg in pruned:
        try:
            validate.node(n)
            inv[n.id] = "passes"
        except MetapypeRuleError as e:
            inv[n.id] = type(e).__name__
        except Exception as e:  # noqa
            inv[n.id] = "CRASH:" + type(e).__name__
    out["removed_validation"] = inv
    out["removed_state"] = {n.id: NL.snapshot(n) for n, _ in pruned}
    # link integrity of what is left
    bad_links = []

    def chk(n):
        for c in n.children:
            if c.parent is not n:
                bad_links.append(c.id)
            chk(c)
    chk(root)
    out["bad_links"] = bad_links
    import gc
    gc.collect()
    kept_live = []

    def reg(n):
        kept_live.append(n)
        for c in n.children:
            reg(c)
    reg(root)
    out["registry_wrong_object"] = [n.id for n in kept_live if Node.store.get(n.id) is not n][:5]
    out["_removed_nodes"] = [n for n, _ in pruned]
    # strict postcondition needs the live nodes
    fails = []

    def val(n, is_root, below_meta):
        if not is_root and not below_meta:
            try:
                validate.node(n)
            except MetapypeRuleError as e:
                fails.append((n.id, type(e).__name__))
            except Exception as e:  # noqa
                fails.append((n.id, "CRASH:" + type(e).__name__))
        for c in n.children:
            val(c, False, below_meta or n.name == "metadata")
    val(root, True, False)
    out["invalid_left"] = fails
    # second prune; the list the first call returned is the caller's: emptying it must not matter
    pruned.clear()
    pruned.append(("not a node", "not a reason"))
    try:
        again = limited(lambda: validate.prune(root, strict))
        out["second"] = [(n.id, reason_kind(m)) for n, m in again]
    except DidNotReturn:
        out["second"] = "NON-TERMINATION"
    except Exception as e:  # noqa
        out["second"] = "EXC " + type(e).__name__
    out["after2"] = NL.snapshot(root)
    out["store_after2"] = sorted(Node.store.keys())
    if clear:
        Node.store.clear()
    return out


# ------------------------------------------------------------------ history sensitivity
# Assumption of every theorem: prune is a function of the tree (and the mode) it is given.  This
# phase tests it: prune / edit in place / prune again on the SAME node objects, each call judged by
# the statement and compared with the same call on a freshly built identical tree.
def choose_edits15(rng, tb, gen, snap):
    from harness.c16 import hid_tree
    nodes = [(n, p) for n, p, m in walk(snap) if not m]
    edits, tags = [], []
    for _ in range(rng.randint(1, 3)):
        n, p = rng.choice(nodes)
        r = rng.random()
        if r < 0.3:
            edits.append({"op": rng.choice(["add", "add_direct"]), "id": n["id"], "index": rng.randint(0, len(n["kids"])),
                          "subtree": hid_tree(node(rng.choice(UNKNOWN_NAMES), None, [], [node("title", "t")] if rng.random() < 0.3 else []))})
            tags.append("add-unknown")
        elif r < 0.55 and n["name"] in tb.node_map:
            al = tb.allowed(n["name"])
            nm = rng.choice(tb.known)
            for _try in range(20):
                if nm not in al:
                    break
                nm = rng.choice(tb.known)
            edits.append({"op": "add", "id": n["id"], "index": rng.randint(0, len(n["kids"])), "subtree": hid_tree(gen.tree(nm, 1, False))})
            tags.append("add-misplaced")
        elif r < 0.62:
            edits.append({"op": "add_copy_of_removed", "id": n["id"], "k": rng.randint(0, 7)})
            tags.append("add-copy-of-removed")
        elif r < 0.7:
            edits.append({"op": rng.choice(["set_attr", "attr_direct"]), "id": n["id"], "k": "zzAttr", "v": rng.choice(["1", ""])})
            tags.append("bad-attribute")
        elif r < 0.85:
            edits.append({"op": "set_content", "id": n["id"], "content": None if n["content"] is not None else "unexpected"})
            tags.append("bad-content")
        elif p is not None:
            edits.append({"op": "remove", "id": n["id"]})
            tags.append("remove-node")
            nodes = [(x, q) for x, q in nodes if x["id"] not in set(ids_of(n))]
            if not nodes:
                break
    return "+".join(tags), edits


def run_history15(tb, gen, t, strict, rng=None, steps_edits=None, max_steps=3):
    from harness.c16 import apply_edit
    from metapype.model.node import Node
    Node.store.clear()
    root = NL.build(fresh_strs(t), attach=False)
    v, log = [], []
    removed_nodes = []
    for step in range(max_steps):
        snap = NL.snapshot(root)
        if snap["name"] not in tb.node_map:
            break
        o = observe(root, strict, clear=False)
        removed_nodes = o.pop("_removed_nodes", []) or removed_nodes
        live_after = NL.snapshot(root)
        for key, what in statement_violations(tb, snap, strict, o):
            v.append(("history:" + key, f"call {step + 1} on the same tree objects: " + what, step))
        saved = dict(Node.store)
        of = run_impl(snap, strict)
        Node.store.clear()
        Node.store.update(saved)
        diff = [k for k in ("exc", "after", "returned", "store_after") if o.get(k) != of.get(k)]
        log.append({"step": step, "returned": o.get("returned"), "exc": o.get("exc"), "differs_from_fresh_tree_in": diff})
        if diff:
            v.append(("history:differs-from-fresh-tree", f"call {step + 1} on the same tree objects differs from the same call on a freshly built "
                      f"identical tree in {diff}: {o.get('returned') if 'returned' in diff else ''} vs {of.get('returned') if 'returned' in diff else ''}", step))
        if v or step == max_steps - 1:
            break
        if steps_edits is not None:
            if step >= len(steps_edits):
                break
            tag, edits = steps_edits[step]
        else:
            tag, edits = choose_edits15(rng, tb, gen, live_after)
        for e in edits:
            apply_edit(root, e, removed_nodes)
        log[-1]["then"] = [tag, edits]
    Node.store.clear()
    return v, log


# ------------------------------------------------------------------ (S) the statement, in plain Python
def delete_ids(t, gone):
    """the input with the subtrees rooted at ids in `gone` deleted"""
    if t["id"] in gone:
        return None
    c = dict(t)
    c["kids"] = [x for x in (delete_ids(k, gone) for k in t["kids"]) if x is not None]
    return c


def _passes_node(n):
    """single-node validation of a plain node (name, content, attributes, child names) on the implementation"""
    from metapype.eml import validate
    from metapype.eml.exceptions import MetapypeRuleError
    from metapype.model.node import Node
    saved = dict(Node.store)
    try:
        live = RL.build_node(fstr(n["name"]), fstr(n["content"]), [(fstr(k), fstr(v)) for k, v in n["attrs"]], [fstr(k["name"]) for k in n["kids"]])
        try:
            validate.node(live)
            return True
        except MetapypeRuleError:
            return False
    finally:
        Node.store.clear()
        Node.store.update(saved)


def expected_prune(tb, n, strict):
    """The statement, bottom-up, for a node that stays: (what is left of it, the removed subtree ROOTS in order).
    A child goes — as one whole subtree, named once — when its parent's rule does not list it or its name is
    unknown; otherwise pruning looks inside it (naming what goes there) and, in strict mode, the child itself
    goes when what is left of it fails single-node validation.  Nothing inside a subtree that goes as a whole
    is named.  Order: first the children the rule does not list, then child by child."""
    if n["name"] == "metadata":
        return n, []
    al = tb.allowed(n["name"])
    first = [(c["id"], "notallowed") for c in n["kids"] if c["name"] not in al]
    kept, later = [], []
    for c in n["kids"]:
        if c["name"] not in al:
            continue
        if c["name"] not in tb.node_map:
            later.append((c["id"], "unknown"))
            continue
        c2, inner = expected_prune(tb, c, strict)
        later += inner
        if strict and not _passes_node(c2):
            later.append((c["id"], "invalid"))
        else:
            kept.append(c2)
    left = dict(n)
    left["kids"] = kept
    return left, first + later


def statement_violations(tb, t, strict, o):
    """list of (key, what) where the implementation's observed behaviour contradicts the property text"""
    v = []
    if o["exc"] is not None:
        if o["exc"].startswith("NON-TERMINATION"):
            return [("non-termination", "prune did not return within the per-call time limit (8 s) on this tree")]
        return [("raises", f"prune raised {o['exc']}")]
    after = o["after"]
    before_ids = ids_of(t)
    after_ids = ids_of(after)
    removed = set(before_ids) - set(after_ids)
    # 1. postcondition outside metadata content
    for n, p, below in walk(after):
        if below:
            continue
        if n["name"] not in tb.node_map:
            v.append(("post-unknown", f"node {n['id']} '{n['name']}' has an unknown name and was kept"))
            continue
        if n["name"] == "metadata":
            continue
        al = tb.allowed(n["name"])
        for k in n["kids"]:
            if k["name"] not in al:
                v.append(("post-disallowed", f"child '{k['name']}' ({k['id']}) is not allowed by the rule of its parent '{n['name']}' and was kept"))
    if strict and o["invalid_left"]:
        v.append(("post-strict", f"remaining non-root nodes fail single-node validation: {o['invalid_left'][:3]}"))
    # 2. kept nodes untouched and in order; nothing new
    if not set(after_ids) <= set(before_ids) or len(set(after_ids)) != len(after_ids):
        v.append(("kept-new-ids", "the pruned tree holds nodes that were not in the input (or twice)"))
    elif delete_ids(t, removed) != after:
        v.append(("kept-changed", "the pruned tree is not the input with the removed subtrees deleted (a kept node changed or moved)"))
    if o["bad_links"]:
        v.append(("kept-links", f"parent links of kept nodes broken: {o['bad_links'][:3]}"))
    if o.get("registry_wrong_object"):
        v.append(("registry-object", f"Node.store does not map the ids of kept nodes to those nodes: {o['registry_wrong_object'][:3]}"))
    # 3. returned list = exactly the removed roots, each with a reason
    listed = [i for i, _ in o["returned"]]
    if o["returned_malformed"]:
        v.append(("list-shape", f"returned entries are not (node, reason) pairs: {o['returned_malformed'][:2]}"))
    if len(set(listed)) != len(listed):
        v.append(("list-dup", "a node is listed twice"))
    if any(k == "none" for _, k in o["returned"]):
        v.append(("list-no-reason", "an entry carries no reason"))
    if not set(listed) <= removed:
        v.append(("list-not-removed", f"listed but still in the tree or never in it: {sorted(set(listed) - removed)[:3]}"))
    by_id = {n["id"]: (n, p) for n, p, _ in walk(t)}
    cut_roots = {i for i in removed if by_id[i][1] is not None and by_id[i][1]["id"] not in removed}
    if t["id"] in removed:
        cut_roots.add(t["id"])
    if not cut_roots <= set(listed):
        v.append(("list-missing-root", f"removed subtree roots not in the returned list: {sorted(cut_roots - set(listed))[:3]}"))
    covered = set()
    for i in listed:
        if i in by_id:
            covered |= set(ids_of(by_id[i][0]))
    if covered != removed:
        v.append(("list-cover", "the subtrees of the listed nodes are not exactly the removed nodes"))
    # the returned list is PRECISELY the removed subtree roots (an exact list), and the tree is the statement's
    if t["name"] in tb.node_map:
        want_tree, want_list = expected_prune(tb, t, strict)
        got_list = [(i, k) for i, k in o["returned"]]
        if sorted(got_list) != sorted(want_list):
            extra = [x for x in got_list if x not in want_list]
            missing = [x for x in want_list if x not in got_list]
            v.append(("returned-list", f"the returned list is not precisely the removed subtree roots: names in addition {extra[:4]} "
                      f"(inside a subtree that goes as a whole, or not removed), lacks {missing[:4]}"))
        elif got_list != want_list:
            v.append(("returned-list-order", f"the returned list names the removed subtree roots in another order: {got_list[:6]} expected {want_list[:6]}"))
        if want_tree != after:
            v.append(("tree", "the pruned tree is not the statement's (a child stays iff its parent's rule lists it, its name is known, and in strict mode it validates after its own pruning)"))
    # reasons are truthful: only offending subtrees are removed
    for i, kind in o["returned"]:
        if i not in by_id:
            continue
        n, p = by_id[i]
        offending_unknown = n["name"] not in tb.node_map
        offending_place = p is not None and p["name"] in tb.node_map and n["name"] not in tb.allowed(p["name"])
        offending_invalid = strict and o["removed_validation"].get(i) not in ("passes", None)
        if not (offending_unknown or offending_place or offending_invalid):
            v.append(("removed-not-offending", f"node {i} '{n['name']}' was removed ({kind}) but is known, allowed by its parent and "
                      f"{'valid' if strict else 'validity is not a criterion in non-strict mode'}"))
        if kind == "unknown" and not offending_unknown:
            v.append(("reason-wrong", f"node {i} reported unknown but '{n['name']}' is a known element"))
        if kind == "notallowed" and not offending_place:
            v.append(("reason-wrong", f"node {i} reported not allowed but its parent's rule lists '{n['name']}'"))
        if kind == "invalid" and not offending_invalid:
            v.append(("reason-wrong", f"node {i} reported invalid but {'it validates' if strict else 'mode is not strict'}"))
    # 4. registry
    want_store = sorted(set(o["store_before"]) - removed)
    if o["store_after"] != want_store:
        v.append(("registry", f"Node.store after prune: missing {sorted(set(want_store) - set(o['store_after']))[:3]} "
                  f"extra {sorted(set(o['store_after']) - set(want_store))[:3]}"))
    # 5. second prune
    if o["second"] != []:
        v.append(("second-prune", f"pruning the result again returned {o['second']}"))
    elif o["after2"] != after or o["store_after2"] != o["store_after"]:
        v.append(("second-prune-changes", "pruning the result again changed the tree or the registry"))
    return v


# ------------------------------------------------------------------ Coq literals
def coq_ft(t):
    if t["tail"] is None and t["prefix"] is None and not t["extras"] and not t["nsmap"]:
        d = f"(mk {cstr(t['id'])} {cstr(t['name'])} {copt(t['content'])} {NL.coq_dict(t['attrs'])})"
    else:
        d = NL.coq_nd(t)
    return "(FT " + d + " " + clist(coq_ft(k) for k in t["kids"]) + ")"


_orc_cache = {}


def coq_orc(strings):
    seen = []
    for x in strings:
        if x not in seen:
            seen.append(x)
    out = []
    for x in seen:
        if x not in _orc_cache:
            _orc_cache[x] = RL.coq_oans(RL.oracle(x))
        out.append(cpair(cstr(x), _orc_cache[x]))
    return clist(out)


def coq_case(t, strict, store):
    return (f"{{| pc_tree := {coq_ft(t)}; pc_strict := {cbool(strict)}; pc_orc := {coq_orc(all_strings(t))}; "
            f"pc_store := {clist(cstr(i) for i in store)} |}}")


def coq_want(o):
    if o["exc"] is not None:
        return "PC"
    return (f"(PO (Some {coq_ft(o['after'])}) {clist(cpair(cstr(i), cstr(k)) for i, k in o['returned'])} "
            f"(Some {clist(cstr(i) for i in o['store_after'])}))")


# ------------------------------------------------------------------ case generation
def base_trees(ctx, tb, gen, n_gen):
    from metapype.model import metapype_io
    from metapype.model.node import Node
    with open(os.path.join(common.REPO, "tests", "data", "eml.xml"), encoding="utf-8") as f:
        root = metapype_io.from_xml(f.read())
    full = NL.snapshot(root)
    Node.store.clear()
    subs = [n for n, _, _ in walk(full)]
    small = [n for n in subs if 2 <= size(n) <= MAX_COQ_NODES]
    # the whole document with its bulky parts trimmed to fit
    trimmed = copy.deepcopy(full)
    for n, _, _ in list(walk(trimmed)):
        if n["name"] == "dataset":
            n["kids"] = [k for k in n["kids"] if size(k) <= 5][:8]
    out = [("eml.xml", full), ("eml.xml-trimmed", trimmed)]
    out += [("eml.xml-subtree", n) for n in small]
    # parents with more than 256 children (sizes past the small-int cache)
    ks = node("keywordSet", None, [], [node("keyword", "k%d" % i) for i in range(300)] + [node("keywordThesaurus", "th")])
    for pos, nm in ((3, "zzUnknown"), (256, "title"), (257, "zzUnknown"), (258, "creator"), (299, "Title")):
        ks["kids"].insert(pos, node(nm, None))
    out.append(("wide", ks))
    wide = node("dataset", None, [], [node("title", "A title long enough")] +
                [node("creator", None, [], [node("organizationName", "Org%d" % i)]) for i in range(280)] +
                [node("contact", None, [], [node("organizationName", "C")])])
    for pos in (5, 255, 256, 257, 258, 279):
        wide["kids"][pos]["kids"] = []                       # invalid on their own (strict)
    wide["kids"][256]["kids"] = [node("zzUnknown")]
    wide["kids"][260]["kids"].append(node("title", "misplaced"))
    out.append(("wide", wide))
    names = list(tb.node_map)
    for i in range(n_gen):
        # every fifth tree under a parent whose rule lists a name that is no element (C10 gaps)
        nm = ctx.rng.choice(["eml", "relatedProject", "project"]) if i % 5 == 0 else ctx.rng.choice(names)
        out.append(("generated", gen.tree(nm, ctx.rng.randint(2, 4), True)))
    return out


def cases(ctx, tb):
    gen = Gen(ctx.rng, tb)
    pl = Planter(ctx.rng, tb, gen)
    thorough = ctx.tier == "thorough"
    bases = base_trees(ctx, tb, gen, 220 if thorough else 60)
    rounds = 6 if thorough else 2
    # nested offenders: every (outer, inner) combination of the three kinds on several bases
    nest_bases = [b for b in bases if b[0] in ("eml.xml-subtree", "generated", "eml.xml-trimmed") and 4 <= size(b[1]) <= 30]
    ctx.rng.shuffle(nest_bases)
    for kind, base in nest_bases[: (24 if thorough else 6)]:
        for outer in Planter.KINDS:
            for inner in Planter.KINDS:
                t = copy.deepcopy(base)
                p, tag = pl.plant_nested(t, outer, inner)
                if p is None or t["name"] not in tb.node_map:
                    continue
                reid(t)
                yield kind, [tag], t
    for kind, base in bases:
        reps = rounds * (4 if kind in ("eml.xml", "eml.xml-trimmed", "wide") else 1)
        for r in range(reps):
            t = copy.deepcopy(base)
            tags = [] if r == 0 and kind != "generated" else pl.mutate(t, ctx)
            if t["name"] not in tb.node_map:
                continue
            reid(t)
            yield kind, tags, t


# ------------------------------------------------------------------ run
def run(ctx):
    built = ctx.build(extra_targets=["theories/Model/PruneRun.v"])
    tb = Tables()
    ctx.extra["rule"] = ("valid trees (tests/data/eml.xml, all its subtrees of 2..40 nodes, a trimmed whole document, rule-guided generated "
                         "trees) with 0-4 planted defects each (unknown element, misplaced known element, invalid node: content / attribute / "
                         "missing, repeated or shuffled children; the same on parents and grandparents of planted nodes; foreign content under "
                         "metadata), each in both modes; non-trivial = distinct (tree, mode) on which prune removed something or a defect was planted")
    cterms, wterms, meta = [], [], []
    seen = set()
    for kind, tags, t in cases(ctx, tb):
        sig0 = json.dumps(t, sort_keys=True)
        if sig0 in seen:
            continue
        seen.add(sig0)
        n = size(t)
        for strict in (False, True):
            o = run_impl(t, strict)
            removed_any = o["exc"] is not None or bool(o.get("returned"))
            ctx.case((sig0, strict), removed_any or bool(tags))
            ctx.count("mode=strict" if strict else "mode=lenient")
            ctx.count("base=" + kind)
            ctx.count("removed=%s" % ("exc" if o["exc"] else min(len(o["returned"]), 5)))
            for tg in set(tags):
                ctx.count("planted=" + tg)
            if o["exc"] is None:
                for _, k in o["returned"]:
                    ctx.count("reason=" + k)
            for key, what in statement_violations(tb, t, strict, o):
                ctx.fail(f"C15:{key}:{'strict' if strict else 'lenient'}", what,
                         {"kind": "impl-vs-statement", "tree": t, "strict": strict, "planted": tags,
                          "observed": {k: o.get(k) for k in ("exc", "returned", "after", "store_after", "second", "invalid_left")}})
            if n <= MAX_COQ_NODES:
                cterms.append(coq_case(t, strict, o["store_before"]))
                wterms.append(coq_want(o))
                meta.append({"tree": t, "strict": strict, "planted": tags,
                             "observed": {k: o.get(k) for k in ("exc", "returned", "after", "store_after")}})
            else:
                ctx.count("statement-only(>40 nodes)")
            if removed_any:
                ctx.sample({"base": kind, "planted": tags, "strict": strict, "nodes": n,
                            "returned": o.get("returned"), "exc": o["exc"]}, limit=8)
    # history sensitivity: prune / edit in place / prune again on the same objects
    gen_h = Gen(ctx.rng, tb)
    hist = [m for m in meta]
    ctx.rng.shuffle(hist)
    for m in hist[: (500 if ctx.tier == "thorough" else 100)]:
        v, log = run_history15(tb, gen_h, m["tree"], m["strict"], rng=ctx.rng)
        ctx.case(("history", json.dumps(m["tree"], sort_keys=True), m["strict"]), len(log) > 1)
        ctx.count("history-calls", len(log))
        for entry in log:
            if "then" in entry:
                for tg in entry["then"][0].split("+"):
                    ctx.count("history-edit=" + tg)
        for key, what, step in v:
            ctx.fail(f"C15:{key}:{'strict' if m['strict'] else 'lenient'}", what,
                     {"kind": "impl-vs-statement", "history": True, "tree": m["tree"], "strict": m["strict"], "failing_call": step + 1,
                      "edits": [e.get("then") for e in log if "then" in e], "log": log})
    # (B) correspondence
    bad, errors = RL.coq_compare(ctx, "corr", "run_pcase tb", cterms, wterms, shard=120, header=HEADER, eqb="pobs_eqb")
    ctx.extra["traces_validated_against_impl"] = len(cterms) - len(bad) - (120 * len(errors))
    ctx.extra["cases_sent_to_coq"] = len(cterms)
    for name, out in errors:
        ctx.fail("corr:coq-error", f"case file {name} did not evaluate", {"kind": "broken-correspondence", "file": name, "output": out}, concrete=False)
    for i in bad[:5]:
        m = meta[i]
        ctx.fail("corr:prune", "model and implementation disagree on prune",
                 {"kind": "broken-correspondence", "theorem": "C15_eq (model/implementation correspondence)", "case": m,
                  "model": RL.coq_show(ctx, "corr", "run_pcase tb", cterms[i], header=HEADER)}, concrete=False)
    if not built:
        ctx.obligations_failed("executed the property statement against validate.prune on all generated trees in both modes")


def replay(ctx, data):
    """./check C15 --replay file: run the stored tree again (statement search, and the model if small)."""
    r = data.get("replay", {})
    case = r.get("case", r)
    t, strict = case.get("tree"), case.get("strict")
    if t is None:
        print(json.dumps(data, indent=1)[:2000])
        return
    tb = Tables()
    if case.get("history"):
        v, log = run_history15(tb, Gen(ctx.rng, tb), t, bool(strict), steps_edits=case.get("edits", []), max_steps=len(case.get("edits", [])) + 1)
        ctx.case("replay-history", True)
        print("calls:", json.dumps([{k: e[k] for k in ("step", "returned", "exc", "differs_from_fresh_tree_in")} for e in log])[:1500])
        for key, what, step in v:
            print("statement violated:", key, what)
            ctx.fail(f"C15:{key}:{'strict' if strict else 'lenient'}", what,
                     {"kind": "impl-vs-statement", "history": True, "tree": t, "strict": strict, "edits": case.get("edits"), "log": log})
        return
    o = run_impl(t, bool(strict))
    ctx.case(("replay", strict), True)
    print("observed:", json.dumps({k: o.get(k) for k in ("exc", "returned", "store_after", "second", "invalid_left")})[:1500])
    for key, what in statement_violations(tb, t, bool(strict), o):
        print("statement violated:", key, what)
        ctx.fail(f"C15:{key}:{'strict' if strict else 'lenient'}", what,
                 {"kind": "impl-vs-statement", "tree": t, "strict": strict, "observed": {k: o.get(k) for k in ("exc", "returned", "after")}})
    if size(t) <= MAX_COQ_NODES:
        bad, errors = RL.coq_compare(ctx, "replay", "run_pcase tb", [coq_case(t, bool(strict), o["store_before"])], [coq_want(o)],
                                     header=HEADER, eqb="pobs_eqb")
        print("model agrees with implementation:", not bad and not errors)
        if bad or errors:
            ctx.fail("corr:prune", "model and implementation disagree on prune", {"kind": "broken-correspondence", "case": case}, concrete=False)

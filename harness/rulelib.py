"""Shared pieces for the rule-engine properties (C01-C05, C10, C15-C17):
oracle answers, running the implementation, printing cases as Coq literals,
evaluating the Coq model on them."""
import datetime
import json
import math
import os

from harness import common
from harness.common import cstr, copt, clist, cbool, cnat, cpair

HEADER = "From MP Require Import Common.Base Gen.Tables Model.Rule Model.RuleRun.\n" \
         "Definition tb := {| tb_rules := rules; tb_node_map := node_map; tb_mixed := mixed_rules; tb_ranges := (range_ew, range_ns) |}.\n"


# ------------------------------------------------------------------ oracles
def _uri_oracle(s):
    """Independent statement of the URI content rule: rfc3986 with schemes
    http/https/ftp, scheme and host required, scheme/host/path validity checked."""
    from rfc3986 import uri_reference, validators
    from rfc3986.exceptions import RFC3986Exception
    v = validators.Validator().allow_schemes("http", "https", "ftp") \
        .require_presence_of("scheme", "host").check_validity_of("scheme", "host", "path")
    try:
        v.validate(uri_reference(s))
        return True
    except (RFC3986Exception, UnicodeError):
        return False


def oracle(s):
    o = {}
    try:
        int(s)
        o["int"] = True
    except ValueError:
        o["int"] = False
    try:
        f = float(s)
        if math.isnan(f):
            o["float"] = ("nan",)
        elif math.isinf(f):
            o["float"] = ("inf", f < 0)
        else:
            n, d = f.as_integer_ratio()
            o["float"] = ("fin", n, d)
    except ValueError:
        o["float"] = None
    try:
        datetime.time.fromisoformat(s)
        o["time"] = True
    except ValueError:
        o["time"] = False
    yd = False
    for fmt in ("%Y", "%Y-%m-%d"):
        try:
            datetime.datetime.strptime(s, fmt)
            yd = True
            break
        except ValueError:
            pass
    o["yd"] = yd
    o["uri"] = _uri_oracle(s)
    return o


def coq_fval(f):
    if f is None:
        return "None"
    if f[0] == "nan":
        return "(Some FNan)"
    if f[0] == "inf":
        return f"(Some (FInf {cbool(f[1])}))"
    return f"(Some (FFin ({f[1]})%Z {f[2]}%positive))"


def coq_oans(o):
    return (f"{{| o_int := {cbool(o['int'])}; o_float := {coq_fval(o['float'])}; o_time := {cbool(o['time'])}; "
            f"o_yd := {cbool(o['yd'])}; o_uri := {cbool(o['uri'])} |}}")


def coq_orc(strings):
    seen = []
    for s in strings:
        if s is not None and s not in seen:
            seen.append(s)
    return clist(cpair(cstr(s), coq_oans(oracle(s))) for s in seen)


# ------------------------------------------------------------------ JSON rule -> Coq
def crj(v):
    if isinstance(v, bool):
        return f"RBool {cbool(v)}"
    if v is None:
        return "RNull"
    if isinstance(v, int):
        return f"RInt ({v})%Z"
    if isinstance(v, str):
        return f"RStr {cstr(v)}"
    if isinstance(v, list):
        return "RList " + clist(crj(x) for x in v)
    raise ValueError(v)


def coq_rule_raw(rule):
    attrs, children, content = rule
    enum = content.get("content_enum")
    return ("{| rr_attrs := " + clist(cpair(cstr(k), clist(crj(x) for x in v)) for k, v in attrs.items()) +
            "; rr_children := " + clist(crj(x) for x in children) +
            "; rr_content_rules := " + clist(cstr(x) for x in content["content_rules"]) +
            "; rr_content_enum := " + ("None" if enum is None else "Some " + clist(cstr(x) for x in enum)) + " |}")


# ------------------------------------------------------------------ cases
def coq_ncase(name, content, attrs, kids):
    """attrs: list of (k, v) pairs in node order; kids: list of child names."""
    return (f"{{| nc_name := {cstr(name)}; nc_content := {copt(content)}; "
            f"nc_attrs := {clist(cpair(cstr(k), cstr(v)) for k, v in attrs)}; "
            f"nc_kids := {clist(cstr(k) for k in kids)}; nc_orc := {coq_orc([content])} |}}")


def coq_rcase(rule, mixed, name, content, attrs, kids):
    return f"{{| rc_rule := {coq_rule_raw(rule)}; rc_mixed := {cbool(mixed)}; rc_case := {coq_ncase(name, content, attrs, kids)} |}}"


def coq_outcome(o):
    ff, codes = o
    return cpair(cstr(ff), clist(cstr(c) for c in codes))


def coq_tree(t):
    """t = (name, content, attrs(list of pairs), kids(list of t))"""
    name, content, attrs, kids = t
    return f"(T {cstr(name)} {copt(content)} {clist(cpair(cstr(k), cstr(v)) for k, v in attrs)} {clist(coq_tree(k) for k in kids)})"


def tree_strings(t, acc=None):
    acc = [] if acc is None else acc
    if t[1] is not None:
        acc.append(t[1])
    for k in t[3]:
        tree_strings(k, acc)
    return acc


def coq_tcase(t):
    return f"{{| tc_tree := {coq_tree(t)}; tc_orc := {coq_orc(tree_strings(t))} |}}"


# ------------------------------------------------------------------ implementation side
def build_node(name, content, attrs, kids):
    from metapype.model.node import Node
    n = Node(name, content=content)
    for k, v in attrs:
        n.add_attribute(k, v)
    for k in kids:
        n.add_child(Node(k))
    return n


def build_tree(t, parent=None):
    from metapype.model.node import Node
    name, content, attrs, kids = t
    n = Node(name, content=content)
    for k, v in attrs:
        n.add_attribute(k, v)
    for k in kids:
        n.add_child(build_tree(k, n))
    return n


def _family():
    from metapype.eml.exceptions import MetapypeRuleError
    return MetapypeRuleError


def run_both(fn):
    """fn(errs_or_None) runs a validation. Returns (ff, codes) observables.
    ff: 'OK' | exception class name (rule-error family) | 'CRASH:<class>'.
    codes: list of ValidationError member names, with 'CRASH:<class>' appended if collecting mode raised."""
    fam = _family()
    try:
        fn(None)
        ff = "OK"
    except fam as e:
        ff = type(e).__name__
    except Exception as e:  # noqa
        ff = "CRASH:" + type(e).__name__
    errs = []
    try:
        fn(errs)
        codes = [entry_code(e) for e in errs]
    except Exception as e:  # noqa
        codes = [entry_code(x) for x in errs] + ["CRASH:" + type(e).__name__]
    return ff, codes


def entry_code(e):
    try:
        return e[0].name
    except Exception:
        return "MALFORMED-ENTRY"


def impl_node(name, content, attrs, kids):
    from metapype.eml import validate
    from metapype.model.node import Node
    n = build_node(name, content, attrs, kids)
    out = run_both(lambda errs: validate.node(n, errs))
    Node.store.clear()
    return out


def impl_rule(rule_json, mixed, name, content, attrs, kids):
    """Install a rule and validate a node against it. Mixed rules are installed under
    the name of a shipped mixed-content rule (the mixed flag is keyed on the rule name)."""
    from metapype.eml import rule as R
    from metapype.model.node import Node
    rname = R.RULE_TEXT if mixed else "__v"
    saved = R.rules_dict.get(rname)
    R.rules_dict[rname] = rule_json
    try:
        n = build_node(name, content, attrs, kids)

        def go(errs):
            R.Rule(rname).validate_rule(n, errs)
        out = run_both(go)
    finally:
        if saved is None:
            del R.rules_dict[rname]
        else:
            R.rules_dict[rname] = saved
        Node.store.clear()
    return out


def impl_tree(t):
    from metapype.eml import validate
    from metapype.model.node import Node
    n = build_tree(t)
    out = run_both(lambda errs: validate.tree(n, errs))
    Node.store.clear()
    return out


# ------------------------------------------------------------------ evaluate model in Coq
def coq_compare(ctx, label, run_fn, case_terms, want_terms, shard=300, header=HEADER, eqb="outcome_eqb"):
    """Evaluate `map run_fn cases` in Coq and compare with the implementation's observed
    outcomes. Returns sorted list of global indices that disagree, plus raw failures."""
    assert len(case_terms) == len(want_terms)
    jobs = []
    for i in range(0, len(case_terms), shard):
        cs = case_terms[i:i + shard]
        ws = want_terms[i:i + shard]
        text = (header +
                "Definition cases := " + clist(cs) + ".\n" +
                "Definition want := " + clist(ws) + ".\n" +
                f"Eval vm_compute in mismatches {eqb} (map ({run_fn}) cases) want.\n")
        jobs.append((f"{ctx.prop}_{label}_{i // shard}", text))
    res = common.coq_eval_many(jobs)
    bad = []
    errors = []
    for k, (rc, out) in enumerate(res):
        if rc != 0:
            errors.append((jobs[k][0], out[-1500:]))
            continue
        vals = common.parse_eval_values(out)
        if len(vals) != 1:
            errors.append((jobs[k][0], "unparsable coqc output: " + out[-500:]))
            continue
        for j in common.parse_nat_list(vals[0]):
            bad.append(k * shard + j)
    return sorted(bad), errors


def coq_show(ctx, label, run_fn, case_term, header=HEADER):
    """Model output on one case, as printed by Coq (for replay files)."""
    rc, out = common.coq_eval(f"{ctx.prop}_{label}_show", header + f"Eval vm_compute in ({run_fn}) ({case_term}).\n")
    return " ".join(out.split())[:2000]


def coq_rncase(rname, name, content, attrs, kids):
    return f"{{| rn_rule := {cstr(rname)}; rn_case := {coq_ncase(name, content, attrs, kids)} |}}"


def impl_named_rule(rname, name, content, attrs, kids):
    from metapype.eml import rule as R
    from metapype.model.node import Node
    n = build_node(name, content, attrs, kids)
    out = run_both(lambda errs: R.Rule(rname).validate_rule(n, errs))
    Node.store.clear()
    return out


def live_rules():
    """rules_dict of the running implementation (cross-checked against rules.json by C10)."""
    from metapype.eml import rule as R
    return R.rules_dict


def canonical_content(rule_json):
    """A content value satisfying the rule's content rules (None when it must be empty)."""
    content = rule_json[2]
    crs = content.get("content_rules", [])
    enum = content.get("content_enum")
    if enum:
        for v in enum:
            if v != "":
                return v
        return enum[0]
    if "emptyContent" in crs:
        return None
    for cr, val in (("floatRangeContent_EW", "0"), ("floatRangeContent_NS", "0"), ("floatContent_Nonnegative", "1"),
                    ("floatContent", "1.5"), ("intContent", "1"), ("timeContent", "12:00:00"),
                    ("yearDateContent", "2000"), ("uriContent", "http://a.b/")):
        if cr in crs:
            return val
    if "nonEmptyContent" in crs:
        return "x"
    return None

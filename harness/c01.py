"""C01 — child-sequence validation equals the rule's declared content model.

Steps (DESIGN section 4):
  build   the proof cone of Properties/C01.v (generic theorems + table obligation greedy_ok over
          the regenerated Gen/Tables.v) plus the evaluation glue;
  (B)     correspondence of the Gallina matcher (Model/Rule.v) with rule.py, both modes:
          (i) every shipped rule x {all short sequences over its names + a foreign name,
              language samples, one-edit mutants}; (ii) random specs (also shapes outside
              greedy_ok) x random words, installed through rules_dict;
  (S)     statement search: the implementation's accept/reject in both modes against the
          declarative language L — decided twice, by the verified decider inL inside Coq
          (Spec/LangDec.v) and by an independent brute-force membership test written here
          from the property text — for every shipped rule x all words up to a length bound;
          error family; fail-fast/collecting agreement.
A disagreement of (S) outside the unspecified band Llen \\ L is a concrete violation."""
import itertools

from harness import common
from harness import rulelib as RL
from harness.common import cstr, clist, cbool

FOREIGN = "zzForeign"
PARENT = "p"
FF_FAMILY = ("ChildNotAllowedError", "MinOccurrenceUnmetError", "MaxOccurrenceExceededError")
CODE_FAMILY = ("CHILD_NOT_ALLOWED", "MIN_CHOICE_UNMET", "MIN_OCCURRENCE_UNMET",
               "MAX_CHOICE_EXCEEDED", "MAX_OCCURRENCE_EXCEEDED")


def mixed_rule_names():
    """the mixed-content rule names as the translator read them from rule.py (Gen/Tables.v: mixed_rules)"""
    import os
    import re
    txt = open(os.path.join(common.THEORIES, "Gen", "Tables.v"), encoding="utf-8").read()
    m = re.search(r"Definition mixed_rules : list pystr := \[(.*?)\]\.", txt, flags=re.S)
    if not m:
        raise RuntimeError("Gen/Tables.v: mixed_rules not found")
    return tuple(re.findall(r'\(s "([^"]*)"\)', m.group(1)))


# ------------------------------------------------------------------ the statement, in Python
# A children section denotes a regular language (property text): a rule child
# ["name", lo, hi] is lo..hi repetitions of the name; a list of lists is a sequence; a list
# ending in (int, int|None) is a choice of lo..hi occurrences of its alternatives.
def parse_item(x):
    if isinstance(x[0], str):
        assert len(x) == 3, x
        return ("el", x[0], x[1], x[2])
    if isinstance(x[-1], list):
        return ("seq", [parse_item(y) for y in x])
    assert len(x) >= 3 and isinstance(x[-2], int) and (x[-1] is None or isinstance(x[-1], int)), x
    return ("cho", [parse_item(y) for y in x[:-2]], x[-2], x[-1])


def parse_top(children):
    return None if len(children) == 0 else parse_item(children)


def spec_names(sp):
    if sp is None:
        return []
    if sp[0] == "el":
        return [sp[1]]
    out = []
    for y in sp[1]:
        out += spec_names(y)
    return out


def member(sp, w, mixed, strict, memo=None):
    """w in L(sp) (strict: an occurrence of a choice is a non-empty match) or in Llen(sp)."""
    memo = {} if memo is None else memo
    w = tuple(w)

    def go(sp, w):
        key = (id(sp), w)
        if key in memo:
            return memo[key]
        kind = sp[0]
        if kind == "el":
            _, n, lo, hi = sp
            r = all(x == n for x in w) and lo <= len(w) and (hi is None or len(w) <= hi)
        elif kind == "seq":
            r = seq(sp[1], 0, w)
        else:
            _, alts, lo, hi = sp
            ks = counts(sp, w)          # achievable numbers of NON-EMPTY occurrences
            eps = (not strict) and any(go(a, ()) for a in alts)
            r = False
            for k in ks:
                if eps:
                    # empty occurrences may be added: some k' >= k with lo <= k' <= hi
                    k2 = k if mixed else max(k, lo)
                    ok = hi is None or k2 <= hi
                else:
                    ok = (mixed or lo <= k) and (hi is None or k <= hi)
                if ok:
                    r = True
                    break
        memo[key] = r
        return r

    def seq(items, i, w):
        if i == len(items):
            return len(w) == 0
        key = ("s", id(items), i, w)
        if key in memo:
            return memo[key]
        r = any(go(items[i], w[:j]) and seq(items, i + 1, w[j:]) for j in range(len(w) + 1))
        memo[key] = r
        return r

    def counts(cho, w):
        key = ("c", id(cho), w)
        if key in memo:
            return memo[key]
        if len(w) == 0:
            r = frozenset([0])
        else:
            acc = set()
            for j in range(1, len(w) + 1):
                if any(go(a, w[:j]) for a in cho[1]):
                    for k in counts(cho, w[j:]):
                        acc.add(k + 1)
            r = frozenset(acc)
        memo[key] = r
        return r

    if sp is None:
        return len(w) == 0
    return go(sp, w)


def py_greedy_ok(sp):
    """the side condition of the theorem, restated (only used to label random specs)"""
    def shape(sp):
        if sp[0] == "el":
            _, _, lo, hi = sp
            return (hi is None or (lo <= hi and 1 <= hi))
        if sp[0] == "seq":
            return len(sp[1]) > 0 and all(i[0] != "seq" and shape(i) for i in sp[1])
        _, alts, lo, hi = sp
        if not alts or not (hi is None or (lo <= hi and 1 <= hi)) or not all(shape(a) for a in alts):
            return False
        return hi == 1 or (all(a[0] == "el" and a[2] <= 1 for a in alts) and lo <= 1)
    if sp is None:
        return True
    ns = spec_names(sp)
    return shape(sp) and len(ns) == len(set(ns))


# ------------------------------------------------------------------ the statement again, position-based
def member_dp(sp, w, mixed, strict):
    """Same question as `member`, decided by a second, independent algorithm (end-position sets,
    polynomial): used for long words, and cross-checked against `member` on short ones."""
    w = list(w)
    n = len(w)
    if sp is None:
        return n == 0
    run = [0] * (n + 1)                 # run[i]: length of the maximal run of w[i] starting at i
    for i in range(n - 1, -1, -1):
        run[i] = 1 + (run[i + 1] if i + 1 < n and w[i + 1] == w[i] else 0)
    memo = {}

    def ends(sp, i):
        key = (id(sp), i)
        if key in memo:
            return memo[key]
        if sp[0] == "el":
            _, name, lo, hi = sp
            r = run[i] if i < n and w[i] == name else 0
            top = r if hi is None else min(r, hi)
            res = frozenset(i + k for k in range(lo, top + 1))
        elif sp[0] == "seq":
            cur = {i}
            for item in sp[1]:
                nxt = set()
                for p in cur:
                    nxt |= ends(item, p)
                cur = nxt
                if not cur:
                    break
            res = frozenset(cur)
        else:
            _, alts, lo, hi = sp
            cap = lo if hi is None else hi          # counts saturate at lo when there is no maximum
            seen = {(i, 0)}
            todo = [(i, 0)]
            while todo:
                p, c = todo.pop()
                c2 = c + 1
                if hi is None:
                    c2 = min(c2, cap)
                elif c2 > hi:
                    continue
                for a in alts:
                    for q in ends(a, p):
                        if q == p and strict:
                            continue
                        st = (q, c2)
                        if st not in seen and not (q == p and c2 == c):
                            seen.add(st)
                            todo.append(st)
            res = frozenset(p for (p, c) in seen if mixed or c >= lo)
        memo[key] = res
        return res

    return n in ends(sp, 0)


def in_language(sp, w, mixed, strict):
    return member(sp, w, mixed, strict) if len(w) <= 12 else member_dp(sp, w, mixed, strict)


# ------------------------------------------------------------------ word generators
def sample_lang(rng, sp, slack=2):
    """a random member of L(sp)"""
    if sp[0] == "el":
        _, n, lo, hi = sp
        top = lo + slack if hi is None else min(hi, lo + slack)
        return [n] * rng.randint(lo, max(lo, top))
    if sp[0] == "seq":
        out = []
        for i in sp[1]:
            out += sample_lang(rng, i, slack)
        return out
    _, alts, lo, hi = sp
    top = lo + slack if hi is None else min(hi, lo + slack)
    out = []
    for _ in range(rng.randint(lo, max(lo, top))):
        for _try in range(4):
            piece = sample_lang(rng, rng.choice(alts), slack)
            if piece:
                out += piece
                break
    return out


def mutants(rng, w, names):
    out = []
    if w:
        i = rng.randrange(len(w))
        out.append(w[:i] + w[i + 1:])                       # drop
        out.append(w[:i] + [w[i]] + w[i:])                  # duplicate
        out.append(w + [w[-1]])                             # repeat last
    if len(w) >= 2:
        i = rng.randrange(len(w) - 1)
        out.append(w[:i] + [w[i + 1], w[i]] + w[i + 2:])    # swap
    i = rng.randint(0, len(w))
    out.append(w[:i] + [FOREIGN] + w[i:])                   # insert foreign
    if names:
        i = rng.randint(0, len(w))
        out.append(w[:i] + [rng.choice(names)] + w[i:])     # insert a declared name
    return out


def spec_contains(sp, site):
    if sp is site:
        return True
    if sp[0] == "el":
        return False
    return any(spec_contains(x, site) for x in sp[1])


def unbounded_sites(sp):
    """(node, alternative index or None) for every place of the spec that may repeat without limit"""
    out = []

    def go(sp):
        if sp[0] == "el":
            if sp[3] is None:
                out.append((sp, None))
            return
        if sp[0] == "cho" and sp[3] is None:
            out.append((sp, None))
            for j in range(len(sp[1])):
                out.append((sp, j))
        for x in sp[1]:
            go(x)
    if sp is not None:
        go(sp)
    return out


def nonempty_piece(rng, a):
    for _try in range(6):
        piece = sample_lang(rng, a, 1)
        if piece:
            return piece
    return []


def sample_long(rng, sp, site, j, target):
    """a member of L(sp) with about `target` names (more than 256), obtained by repeating one
    unbounded place of the spec (`site`; for a choice: alternative j, or a random mix)"""
    if sp is site:
        if sp[0] == "el":
            return [sp[1]] * target
        out = []
        while len(out) < target:
            piece = nonempty_piece(rng, sp[1][j] if j is not None else rng.choice(sp[1]))
            if not piece:
                break
            out += piece
        return out
    if sp[0] == "el" or not spec_contains(sp, site):
        return sample_lang(rng, sp, 1)
    if sp[0] == "seq":
        out = []
        for i in sp[1]:
            out += sample_long(rng, i, site, j, target)
        return out
    _, alts, lo, hi = sp
    holder = [a for a in alts if spec_contains(a, site)][0]
    out = sample_long(rng, holder, site, j, target)
    for _ in range(max(lo, 1) - 1):
        out += nonempty_piece(rng, rng.choice(alts))
    return out


def long_words(rng, sp, names, n_sites, n_mut):
    out = []
    sites = unbounded_sites(sp)
    rng.shuffle(sites)
    for site, j in sites[:n_sites]:
        w = sample_long(rng, sp, site, j, rng.randint(257, 300))
        if len(w) <= 256:
            continue
        out.append(w)
        ms = mutants(rng, w, names)
        ms.append(w + [FOREIGN])
        ms.append(w[:-1])
        rng.shuffle(ms)
        out += ms[:n_mut]
    return out


def fresh(x):
    """a NEW str object equal to x (identity slips are invisible with shared literals)"""
    return "".join(list(x)) if isinstance(x, str) else x


def build_parent(content, attrs, w, name=PARENT):
    from metapype.model.node import Node
    n = Node(fresh(name), content=fresh(content))
    for k, v in attrs:
        n.add_attribute(fresh(k), fresh(v))
    for k in w:
        n.add_child(Node(fresh(k)))
    return n


def coq_kids(w):
    """child names as a Coq list; long words run-length encoded"""
    if len(w) <= 16:
        return clist(cstr(k) for k in w)
    return "(concat " + clist("repeat %s %d%%nat" % (cstr(k), len(list(g))) for k, g in itertools.groupby(w)) + ")"


def coq_rncase_rle(rname, content, attrs, w):
    return ("{| rn_rule := %s; rn_case := {| nc_name := %s; nc_content := %s; nc_attrs := %s; nc_kids := %s; nc_orc := %s |} |}"
            % (cstr(rname), cstr(PARENT), common.copt(content), clist(common.cpair(cstr(k), cstr(v)) for k, v in attrs),
               coq_kids(w), RL.coq_orc([content])))


def all_words(alpha, maxlen):
    for n in range(maxlen + 1):
        for t in itertools.product(alpha, repeat=n):
            yield list(t)


def capped_words(rng, alpha, maxlen, cap):
    """all words up to maxlen over alpha if there are at most cap, else all words of the
    lengths that fit plus a random sample of the longer ones; returns (words, exhaustive)"""
    out = []
    exhaustive = True
    for n in range(maxlen + 1):
        total = len(alpha) ** n
        if len(out) + total <= cap:
            out += [list(t) for t in itertools.product(alpha, repeat=n)]
        else:
            exhaustive = False
            room = max(0, cap - len(out))
            per = max(1, room // (maxlen - n + 1))
            seen = set()
            for _ in range(per * 3):
                if len(seen) >= per:
                    break
                seen.add(tuple(rng.choice(alpha) for _ in range(n)))
            out += [list(t) for t in sorted(seen)]
    return out, exhaustive


def required_attrs(rj):
    return [(k, (v[1] if len(v) > 1 else "v")) for k, v in rj[0].items() if v[0] is True]


# ------------------------------------------------------------------ random specs (correspondence only)
NAMES = list("abcdef")


def rnd_el(rng, names):
    n = names.pop() if names and rng.random() < 0.85 else rng.choice(NAMES)
    lo = rng.choice([0, 0, 1, 1, 2])
    hi = rng.choice([None, None, 1, 1, 2, 3])
    if hi is not None and hi < lo and rng.random() < 0.8:
        hi = lo
    return [n, lo, hi]


def rnd_spec(rng, depth, names, inseq=False):
    r = rng.random()
    if depth == 0 or r < 0.45:
        return rnd_el(rng, names)
    if r < 0.7 and not inseq:
        return [rnd_spec(rng, depth - 1, names, True) for _ in range(rng.randint(1, 3))]
    alts = [rnd_spec(rng, depth - 1, names) for _ in range(rng.randint(1, 3))]
    return alts + [rng.choice([0, 1, 1, 2]), rng.choice([None, None, 1, 1, 2, 3])]


def rnd_top(rng):
    names = NAMES[:]
    rng.shuffle(names)
    if rng.random() < 0.7:
        return [rnd_spec(rng, 2, names, True) for _ in range(rng.randint(1, 4))]
    alts = [rnd_spec(rng, 2, names) for _ in range(rng.randint(1, 3))]
    return alts + [rng.choice([0, 1, 1, 2]), rng.choice([None, 1, 2])]


def impl_shared(rname, content, attrs, w, shared):
    """Collecting mode on an error list that already holds the entries of other parents (what
    validate.tree does with its one list): returns the codes this validation APPENDED."""
    from metapype.eml import rule as R
    from metapype.model.node import Node
    n = build_parent(content, attrs, w)
    n0 = len(shared)
    try:
        R.Rule(fresh(rname)).validate_rule(n, shared)
        out = [RL.entry_code(e) for e in shared[n0:]]
    except Exception as e:  # noqa
        out = [RL.entry_code(x) for x in shared[n0:]] + ["CRASH:" + type(e).__name__]
    Node.store.clear()
    return out


def keeper_call(keeper, content, attrs, w, mode):
    """one validate_rule call on a long-lived Rule object; returns the fail-fast outcome string or the collected codes"""
    from metapype.eml.exceptions import MetapypeRuleError
    from metapype.model.node import Node
    n = build_parent(content, attrs, w)
    try:
        if mode == "fail-fast":
            try:
                keeper.validate_rule(n)
                out = "OK"
            except MetapypeRuleError as e:
                out = type(e).__name__
            except Exception as e:  # noqa
                out = "CRASH:" + type(e).__name__
        else:
            errs = []
            try:
                keeper.validate_rule(n, errs)
                out = [RL.entry_code(e) for e in errs]
            except Exception as e:  # noqa
                out = [RL.entry_code(x) for x in errs] + ["CRASH:" + type(e).__name__]
    finally:
        Node.store.clear()
    return out


def impl_fresh(rname, content, attrs, w):
    """both modes, a new Rule object per call, every string a new object"""
    from metapype.eml import rule as R
    from metapype.model.node import Node
    n = build_parent(content, attrs, w)
    out = RL.run_both(lambda errs: R.Rule(fresh(rname)).validate_rule(n, errs))
    Node.store.clear()
    return out


def impl_named_parent(rname, element, content, attrs, w):
    """the parent carries the name of an element mapped to the rule: through Rule(rname).validate_rule and
    through validate.node, both modes each"""
    from metapype.eml import rule as R
    from metapype.eml import validate
    from metapype.model.node import Node
    n = build_parent(content, attrs, w, name=element)
    via_rule = RL.run_both(lambda errs: R.Rule(fresh(rname)).validate_rule(n, errs))
    via_node = RL.run_both(lambda errs: validate.node(n, errs))
    Node.store.clear()
    return via_rule, via_node


# ------------------------------------------------------------------ statement on one observation
def judge(ctx, rname, sp, mixed, w, ff, codes, key_prefix="C01", shared_codes=None, shared_before=None, reused=None):
    """Compare one observation of the implementation with the statement. Returns
    ('in'|'out'|'band', accepted)."""
    names = spec_names(sp)
    in_l = all(x in names for x in w) and in_language(sp, w, mixed, True)
    in_len = all(x in names for x in w) and in_language(sp, w, mixed, False)
    accepted_ff = ff == "OK"
    accepted_co = codes == []
    word = " ".join(w)
    if len(w) > 40:
        word = "%d children: %s" % (len(w), " ".join("%s*%d" % (k, len(list(g))) for k, g in itertools.groupby(w)))[:300]
    rep = {"kind": "impl-vs-statement", "rule": rname, "word": w, "parent": PARENT, "mixed": mixed,
           "observed": {"fail_fast": ff, "collecting_codes": codes},
           "expected": {"in_L": in_l, "in_Llen": in_len}}
    if ff.startswith("CRASH") or any(c.startswith("CRASH") for c in codes):
        ctx.fail(f"{key_prefix}:{rname}:{word}", f"a non-rule exception escaped child validation: ff={ff} codes={codes}", rep)
    elif accepted_ff != accepted_co:
        ctx.fail(f"{key_prefix}:{rname}:{word}", f"fail-fast mode {'accepts' if accepted_ff else 'rejects'} but collecting mode "
                 f"{'reports nothing' if accepted_co else 'reports ' + str(codes)}", rep)
    elif not accepted_ff and ff not in FF_FAMILY:
        ctx.fail(f"{key_prefix}:{rname}:{word}", f"rejection raised {ff}, not a child-not-allowed/min/max rule error", rep)
    elif any(c not in CODE_FAMILY for c in codes):
        ctx.fail(f"{key_prefix}:{rname}:{word}", f"collecting mode reported {codes}: not only child-not-allowed/min/max codes", rep)
    elif in_l and not accepted_ff:
        ctx.fail(f"{key_prefix}:{rname}:{word}", f"a sequence of the rule's language is rejected ({ff})", rep)
    elif (not in_len) and accepted_ff:
        ctx.fail(f"{key_prefix}:{rname}:{word}", "a sequence outside the rule's language is accepted", rep)
    elif shared_codes is not None:
        # collecting mode with a list that already holds entries of OTHER parents (validate.tree's situation):
        # this parent is accepted iff its validation appends nothing
        rep = dict(rep)
        rep["shared_list"] = {"appended_codes": shared_codes,
                              "list_before": "entries left by validating the same rule on other parents named 'p'",
                              "entries_before": shared_before}
        if any(c.startswith("CRASH") for c in shared_codes):
            ctx.fail(f"{key_prefix}:{rname}:{word}", f"collecting into a non-empty list raised: {shared_codes}", rep)
        elif in_l and shared_codes != []:
            ctx.fail(f"{key_prefix}:{rname}:{word}", "collecting into a list that already holds other parents' entries reports "
                     f"{shared_codes} for a sequence of the rule's language", rep)
        elif (not in_len) and shared_codes == []:
            ctx.fail(f"{key_prefix}:{rname}:{word}", "collecting into a list that already holds other parents' entries reports "
                     "nothing for a sequence outside the rule's language", rep)
        elif shared_codes != codes:
            ctx.fail(f"corr:shared-list:{rname}", "collecting mode appends different entries depending on what the list already "
                     "holds (the model is a function of the node alone)",
                     {"kind": "broken-correspondence", "rule": rname, "word": w, "fresh_list_codes": codes,
                      "appended_to_used_list": shared_codes}, concrete=False)
    if reused is not None and not any(v["key"] == f"{key_prefix}:{rname}:{word}" for v in ctx.violations):
        # the same validation through a Rule object that has already validated other parents
        mode, out = reused
        fresh_out = ff if mode == "fail-fast" else codes
        acc_r = (out == "OK") if mode == "fail-fast" else (out == [])
        rep2 = dict(rep)
        rep2["reused_rule"] = {"mode": mode, "outcome": out, "outcome_with_a_new_Rule_object": fresh_out}
        crashed = out.startswith("CRASH") if mode == "fail-fast" else any(c.startswith("CRASH") for c in out)
        if crashed:
            ctx.fail(f"{key_prefix}:{rname}:{word}", f"a Rule object that validated other parents before raised a non-rule exception ({mode}): {out}", rep2)
        elif in_l and not acc_r:
            ctx.fail(f"{key_prefix}:{rname}:{word}", f"a Rule object that validated other parents before rejects a sequence of the language ({mode}: {out})", rep2)
        elif (not in_len) and acc_r:
            ctx.fail(f"{key_prefix}:{rname}:{word}", f"a Rule object that validated other parents before accepts a sequence outside the language ({mode})", rep2)
        elif out != fresh_out:
            ctx.fail(f"corr:reused-rule:{rname}", "a reused Rule object and a new one give different results for the same parent "
                     "(the model is a function of the node alone)",
                     {"kind": "broken-correspondence", "rule": rname, "word": w, "mode": mode, "reused": out, "new": fresh_out}, concrete=False)
    band = in_len and not in_l
    return ("band" if band else ("in" if in_l else "out")), accepted_ff


# (imports nothing that depends on Gen/Tables.v except the tables themselves, so the deciders still
# evaluate when the table obligation of Proofs/C01_Table.v no longer holds)
COQ_S_HEADER = ("From MP Require Import Common.Base Gen.Tables Model.Rule Spec.LangDec.\n"
                "Definition top_of' (rn : pystr) : option (option spec) :=\n"
                "  match assoc rn rules with Some r => parse_children (rr_children r) | None => None end.\n"
                "(* 2 = in L, 1 = in Llen but not in L (unspecified band), 0 = outside Llen *)\n"
                "Definition cls (rn : pystr) (alpha : list pystr) (ws : list (list nat)) : list nat :=\n"
                "  match top_of' rn with\n"
                "  | Some top => map (fun w => let v := map (fun i => nth i alpha []) w in\n"
                "                             if forallb (fun c => smem c (names_of_top top)) v then\n"
                "                               if inLtop (smem rn mixed_rules) top v then 2\n"
                "                               else if inLlentop (smem rn mixed_rules) top v then 1 else 0\n"
                "                             else 0) ws\n"
                "  | None => []\n"
                "  end.\n"
                "Fixpoint bad_acc (i : nat) (c : list nat) (acc : list bool) : list nat :=\n"
                "  match c, acc with\n"
                "  | [], [] => []\n"
                "  | k :: c', a :: acc' => (if Nat.eqb k 1 then [] else if Bool.eqb a (Nat.eqb k 2) then [] else [i]) ++ bad_acc (S i) c' acc'\n"
                "  | _, _ => [i]\n"
                "  end.\n")
DEC_SHARD = 2500


def coq_decide_jobs(ctx, per_rule, shard=DEC_SHARD):
    """per_rule: list of (rname, alpha, [(word_indices, accepted, python_class)]). Two Evals per
    rule part (class disagreements with the Python oracle; acceptance disagreements outside the
    band); rule parts are packed into files of about `shard` words."""
    jobs, layout = [], []
    cur, cur_rules, n = [], [], 0
    for rname, alpha, items in per_rule:
        for i in range(0, max(1, len(items)), shard):
            part = items[i:i + shard]
            tag = f"r{len(cur_rules)}"
            cur.append("Definition %s := Eval vm_compute in cls %s %s %s.\n" % (
                tag, cstr(rname), clist(cstr(a) for a in alpha),
                clist(clist(str(k) + "%nat" for k in w) for w, _, _ in part)))
            cur.append("Eval vm_compute in mismatches Nat.eqb %s %s.\n" % (tag, clist(str(c) + "%nat" for _, _, c in part)))
            cur.append("Eval vm_compute in bad_acc 0 %s %s.\n" % (tag, clist(cbool(b) for _, b, _ in part)))
            cur_rules.append((rname, i))
            n += len(part)
            if n >= shard:
                jobs.append((f"{ctx.prop}_dec_{len(jobs)}", COQ_S_HEADER + "".join(cur)))
                layout.append(cur_rules)
                cur, cur_rules, n = [], [], 0
    if cur:
        jobs.append((f"{ctx.prop}_dec_{len(jobs)}", COQ_S_HEADER + "".join(cur)))
        layout.append(cur_rules)
    return jobs, layout


def run(ctx):
    import time
    thorough = ctx.tier == "thorough"
    timing = ctx.extra.setdefault("timing_s", {})
    t0 = time.time()
    built = ctx.build(extra_targets=["theories/Model/RuleRun.v", "theories/Spec/LangDec.v"])
    timing["build"] = round(time.time() - t0, 1)
    t0 = time.time()
    rules = RL.live_rules()
    rng = ctx.rng
    MIXED_RULES = mixed_rule_names()
    ctx.extra["mixed_rules"] = list(MIXED_RULES)
    corr_len = 3 if thorough else 2
    corr_cap = 2500 if thorough else 1000
    s_len = 5 if thorough else 3
    s_cap = 12000 if thorough else 700
    n_rand = 1500 if thorough else 100
    n_long_sites = 12 if thorough else 3
    n_long_mut = 6 if thorough else 2
    from metapype.eml import rule as R
    ctx.extra["rule"] = (
        "(B-i) per shipped rule: all child-name sequences of length <= %d over the rule's names + one foreign name "
        "(cap %d, longer ones sampled) + 6 language samples + their one-edit mutants, parent 'p' with canonical content and "
        "required attributes, both modes, model evaluated in Coq; (B-ii) %d random specs (depth <= 3, shapes outside greedy_ok "
        "included) x 20 words through an installed rule; (S) per shipped rule: all sequences of length <= %d (cap %d) judged "
        "against brute-force membership in L/Llen written from the property text and against the verified decider inL "
        "evaluated in Coq (words of length <= 12); plus, per rule, up to %d words of 257-300 children (each unbounded place of "
        "the rule repeated) with %d mutants each, judged by a position-based membership test and evaluated by the model in Coq; "
        "every word is validated five ways: fail-fast and collecting with new Rule objects, collecting into a used list, and once "
        "through one long-lived Rule object per rule (random mode); all names are new str objects; "
        "non-trivial = distinct (rule, word) with a non-empty word" % (corr_len, corr_cap, n_rand, s_len, s_cap, n_long_sites, n_long_mut))

    # ---------------- (B-i) + (S) over the shipped table
    cases, wants, meta = [], [], []
    per_rule_dec = []
    per_rule_info = {}
    exhaustive_s = True
    n_band = 0
    for rname, rj in rules.items():
        try:
            sp = parse_top(rj[1])
        except AssertionError as e:
            ctx.fail(f"C01:shape:{rname}", f"children section of {rname} is not a canonical rule-child/sequence/choice shape",
                     {"kind": "table-shape", "rule": rname, "children": rj[1], "why": str(e)}, concrete=False)
            continue
        mixed = rname in MIXED_RULES
        names = spec_names(sp)
        alpha = list(dict.fromkeys(names)) + [FOREIGN]
        content = RL.canonical_content(rj)
        attrs = required_attrs(rj)
        if not py_greedy_ok(sp):
            ctx.note(f"{rname}: children section outside the greedy_ok shape (the table obligation will say so)")
        observed = {}
        shared = []          # one collecting list reused for every parent validated against this rule
        summary = set()      # (code, child name) of its entries
        history = []         # the words whose validation appended to it

        keeper = R.Rule(fresh(rname))   # one long-lived Rule object validating every parent of this rule
        calls = []                      # (word, mode) it has been used for

        def observe(w):
            t = tuple(w)
            if t not in observed:
                observed[t] = impl_fresh(rname, content, attrs, w)
            return observed[t]

        # (B-i) correspondence words
        c_words, _ = capped_words(rng, alpha, corr_len, corr_cap)
        if sp is not None:
            for _ in range(6):
                w = sample_lang(rng, sp)
                c_words.append(w)
                c_words += mutants(rng, w, names)

        # more than 256 children: repeats of every unbounded place of the rule, and one-edit mutants
        if sp is not None:
            l_words = long_words(rng, sp, names, n_long_sites, n_long_mut)
            c_words += l_words
            ctx.count("long-words(>256 children)", len(l_words))

        # (S) statement search (judges the correspondence words, too)
        s_words, ex = capped_words(rng, alpha, s_len, s_cap)
        exhaustive_s = exhaustive_s and ex
        s_words += c_words
        if sp is not None:
            for _ in range(8):
                w = sample_lang(rng, sp, slack=3)
                if len(w) <= 12:
                    s_words.append(w)
                    s_words += [m for m in mutants(rng, w, names)]
        seen = set()
        dec_items = []
        idx = {a: i for i, a in enumerate(alpha)}
        for w in s_words:
            t = tuple(w)
            if t in seen:
                continue
            seen.add(t)
            ff, codes = observe(w)
            if any(c.startswith(("CONTENT_", "ATTRIBUTE_", "UNKNOWN")) for c in codes):
                ctx.fail(f"harness:canonical:{rname}", "canonical content/attributes of the harness are not valid for this rule",
                         {"kind": "harness", "rule": rname, "content": content, "attrs": attrs, "codes": codes}, concrete=False)
                break
            before = sorted(summary, key=str)[:12]
            n0 = len(shared)
            sc = impl_shared(rname, content, attrs, w, shared)
            for e in shared[n0:]:
                summary.add((RL.entry_code(e), e[3] if len(e) > 3 and isinstance(e[3], str) else None))
            mode = "fail-fast" if rng.random() < 0.6 else "collecting"
            kout = keeper_call(keeper, content, attrs, w, mode)
            nviol = len(ctx.violations)
            cls, acc = judge(ctx, rname, sp, mixed, w, ff, codes, shared_codes=sc, shared_before=before, reused=(mode, kout))
            if len(ctx.violations) > nviol and "reused_rule" in ctx.violations[-1]["replay"]:
                # self-contained replay: one earlier call on a new Rule object that is enough, else the recent ones
                prior = None
                for w0, m0 in reversed(calls[-40:]):
                    k2 = R.Rule(fresh(rname))
                    keeper_call(k2, content, attrs, w0, m0)
                    if keeper_call(k2, content, attrs, w, mode) == kout:
                        prior = [[w0, m0]]
                        break
                ctx.violations[-1]["replay"]["reused_rule"]["prior_calls"] = prior if prior is not None else [[a, b] for a, b in calls[-60:]]
            calls.append((w, mode))
            if len(ctx.violations) > nviol and "shared_list" in ctx.violations[-1]["replay"]:
                # make the replay self-contained: one earlier parent whose entries are enough, else all of them
                prior = None
                for w0 in history:
                    l0 = []
                    impl_shared(rname, content, attrs, w0, l0)
                    if l0 and impl_shared(rname, content, attrs, w, l0) == sc:
                        prior = [w0]
                        break
                ctx.violations[-1]["replay"]["shared_list"]["prior_words"] = prior if prior is not None else history[-300:]
            if len(shared) > n0:
                history.append(w)
            ctx.count("S:shared-list:" + ("fresh" if not before else "used"))
            ctx.case((rname, t), nontrivial=len(w) > 0)
            ctx.count("S:" + cls + (":accepted" if acc else ":rejected"))
            ctx.count("S:len=%d" % min(len(w), 6))
            if cls == "band":
                n_band += 1
            if len(w) <= 12:      # the deciders in Coq try all splits: short words only
                dec_items.append(([idx[x] for x in w], acc, {"in": 2, "band": 1, "out": 0}[cls]))
            if len(w) <= 6 and rng.random() < 0.15:
                for strict in (True, False):
                    if member(sp, w, mixed, strict) != member_dp(sp, w, mixed, strict):
                        ctx.fail(f"oracle:dp:{rname}", "the two membership tests of the harness disagree",
                                 {"kind": "oracle-disagreement", "rule": rname, "word": w, "strict": strict}, concrete=False)
            if not acc:
                ctx.count("S:ff=" + ff)
        per_rule_dec.append((rname, alpha, dec_items))
        per_rule_info[rname] = (sp, mixed, names, alpha, content, attrs, observed)

        seen = set()
        for w in c_words:
            t = tuple(w)
            if t in seen:
                continue
            seen.add(t)
            ff, codes = observe(w)
            cases.append(coq_rncase_rle(rname, content, attrs, w))
            wants.append(RL.coq_outcome((ff, codes)))
            meta.append({"rule": rname, "word": w, "content": content, "attrs": attrs, "observed": [ff, codes]})
            ctx.count("B:shipped")
        ctx.sample({"rule": rname, "word": c_words[-1] if c_words else [], "observed": list(observe(c_words[-1])) if c_words else None},
                   limit=6)
    # ---------------- element names (lesson m): the verdict depends on the RULE, not on the parent's name
    # For every element name mapped to a rule in rule.node_mappings the short words are validated again with
    # that name on the parent, through Rule(rname).validate_rule and through validate.node; the verdict must be
    # the one observed with the neutral name 'p'.  The one documented exception is the parent name 'metadata'
    # (any single child) — that clause is C05's and is not exercised here.
    n_per_name = 40 if thorough else 12
    e_cases, e_wants, e_meta = [], [], []
    name_runs = 0
    for element, rname in R.node_mappings.items():
        if element == "metadata" or rname not in per_rule_info:
            continue
        sp, mixed, names, alpha, content, attrs, observed = per_rule_info[rname]
        pool = [list(k) for k in observed if len(k) <= 3]
        rng.shuffle(pool)
        words = [[], [FOREIGN]] + pool[:n_per_name]
        if sp is not None:
            words.append(sample_lang(rng, sp))
        seen = set()
        for w in words:
            tw = tuple(w)
            if tw in seen:
                continue
            seen.add(tw)
            if tw not in observed:
                observed[tw] = impl_fresh(rname, content, attrs, w)
            neutral = observed[tw]
            via_rule, via_node = impl_named_parent(rname, element, content, attrs, w)
            name_runs += 1
            ctx.case(("name", element, tw), nontrivial=True)
            for how, got in (("Rule(%s).validate_rule" % rname, via_rule), ("validate.node", via_node)):
                if tuple(got[0:1]) + tuple(got[1]) != tuple(neutral[0:1]) + tuple(neutral[1]):
                    in_l = all(x in names for x in w) and in_language(sp, w, mixed, True)
                    ctx.fail(f"C01:name-dependent:{rname}:{element}",
                             f"a parent named '{element}' (rule {rname}) gets another verdict than the same children under "
                             f"a neutrally named parent governed by the same rule, via {how}",
                             {"kind": "impl-vs-statement", "rule": rname, "element": element, "word": w, "via": how,
                              "observed": {"fail_fast": got[0], "collecting_codes": got[1]},
                              "with_neutral_parent_name": {"fail_fast": neutral[0], "collecting_codes": neutral[1]},
                              "expected": {"in_L": in_l}})
            if len(e_cases) < 1500 and len(w) <= 1:
                e_cases.append(RL.coq_ncase(element, content, attrs, w))
                e_wants.append(RL.coq_outcome(via_node))
                e_meta.append({"element": element, "rule": rname, "word": w, "observed": list(via_node)})
    ctx.count("element-name runs", name_runs)
    ctx.extra["element_names_exercised"] = len([e for e, r in R.node_mappings.items() if e != "metadata" and r in per_rule_info])

    ctx.extra["statement_search_exhaustive_up_to_len"] = s_len if exhaustive_s else "capped"
    ctx.extra["band_words_skipped"] = n_band

    timing["impl_shipped"] = round(time.time() - t0, 1)
    t0 = time.time()
    # ---------------- (S) second oracle: the verified decider inL, inside Coq
    jobs, layout = coq_decide_jobs(ctx, per_rule_dec)
    res = common.coq_eval_many(jobs)
    n_dec = 0
    by_rule = {r: (a, it) for r, a, it in per_rule_dec}
    for k, (rc, out) in enumerate(res):
        if rc != 0:
            ctx.fail("S:coq-error", f"decider file {jobs[k][0]} did not evaluate",
                     {"kind": "broken-correspondence", "file": jobs[k][0], "output": out[-1500:]}, concrete=False)
            continue
        vals = common.parse_eval_values(out)
        if len(vals) != 2 * len(layout[k]):
            ctx.fail("S:coq-parse", f"decider file {jobs[k][0]}: {len(vals)} values for {len(layout[k])} rule parts",
                     {"kind": "broken-correspondence", "file": jobs[k][0], "output": out[-800:]}, concrete=False)
            continue
        for q, (rname, off) in enumerate(layout[k]):
            alpha, items = by_rule[rname]
            part = items[off:off + DEC_SHARD]
            n_dec += len(part)
            for j in common.parse_nat_list(vals[2 * q]):
                w = [alpha[i] for i in part[j][0]] if j < len(part) else None
                ctx.fail(f"oracle:{rname}", "the brute-force membership test of the harness and the verified deciders inL/inLlen "
                         "classify a word differently (one of the two oracles is wrong)",
                         {"kind": "oracle-disagreement", "rule": rname, "word": w,
                          "python_class(2=in L,1=band,0=out)": part[j][2] if j < len(part) else None}, concrete=False)
            for j in common.parse_nat_list(vals[2 * q + 1]):
                if j >= len(part):
                    ctx.fail("S:coq-length", "decider returned a list of the wrong length", {"rule": rname}, concrete=False)
                    continue
                wi, acc, _ = part[j]
                w = [alpha[i] for i in wi]
                ff, codes = RL.impl_named_rule(rname, PARENT, RL.canonical_content(rules[rname]), required_attrs(rules[rname]), w)
                ctx.fail(f"C01:{rname}:{' '.join(w)}",
                         f"implementation {'accepts' if acc else 'rejects'} a sequence that the verified decider inL puts "
                         f"{'outside' if acc else 'inside'} the rule's language",
                         {"kind": "impl-vs-statement", "oracle": "inL / inLlen (Spec/LangDec.v, inL_correct, inLlen_correct)",
                          "rule": rname, "word": w, "parent": PARENT,
                          "observed": {"fail_fast": ff, "collecting_codes": codes}, "expected": {"in_L": not acc}})
    ctx.extra["decided_in_coq_by_inL"] = n_dec

    timing["coq_inL"] = round(time.time() - t0, 1)
    t0 = time.time()
    # ---------------- (B-ii) random specs
    r_cases, r_wants, r_meta = [], [], []
    n_gok = 0
    for i in range(n_rand):
        ch = rnd_top(rng) if rng.random() < 0.93 else []
        rule = [{}, ch, {"content_rules": ["anyContent"]}]
        mixed = rng.random() < 0.3
        try:
            sp = parse_top(ch)
        except AssertionError:
            sp = "unparsable"
        gok = sp != "unparsable" and py_greedy_ok(sp)
        n_gok += 1 if gok else 0
        words = []
        for j in range(20):
            if gok and sp is not None and j < 8:
                w = sample_lang(rng, sp)
                if j % 2:
                    ms = mutants(rng, w, spec_names(sp))
                    w = rng.choice(ms)
            else:
                w = [rng.choice(NAMES + ["zz"]) if rng.random() < 0.9 else "zz" for _ in range(rng.randint(0, 6))]
                if rng.random() < 0.5:
                    w = sorted(w)
            words.append(w)
        for w in words:
            out = RL.impl_rule(rule, mixed, PARENT, None, [], [fresh(x) for x in w])
            r_cases.append(RL.coq_rcase(rule, mixed, PARENT, None, [], w))
            r_wants.append(RL.coq_outcome(out))
            r_meta.append({"children": ch, "mixed": mixed, "word": w, "observed": list(out), "greedy_ok": gok})
            ctx.case(("rand", i, tuple(w)), nontrivial=len(w) > 0)
            ctx.count("B:random:" + ("greedy_ok" if gok else "other-shape"))
            ctx.count("B:random:ff=" + out[0])
            if gok:
                # the generic theorem's statement, checked against the implementation on shapes beyond the table
                names = spec_names(sp)
                in_l = all(x in names for x in w) and member(sp, w, mixed, True)
                in_len = all(x in names for x in w) and member(sp, w, mixed, False)
                acc = out[0] == "OK"
                crashed = out[0].startswith("CRASH") or any(c.startswith("CRASH") for c in out[1])
                off_family = (not acc and out[0] not in FF_FAMILY) or any(c not in CODE_FAMILY for c in out[1])
                if in_l == in_len and acc != in_l or (acc != (out[1] == [])) or crashed or off_family:
                    ctx.fail("generic:random-spec", "on a random greedy_ok spec the implementation disagrees with the language "
                             "(the generic theorem is about the model: the model/implementation tie is what broke)",
                             {"kind": "broken-correspondence", "children": ch, "mixed": mixed, "word": w,
                              "observed": list(out), "in_L": in_l, "in_Llen": in_len}, concrete=False)
    ctx.extra["random_specs"] = n_rand
    ctx.extra["random_specs_greedy_ok"] = n_gok

    timing["impl_random"] = round(time.time() - t0, 1)
    t0 = time.time()
    # ---------------- (B) evaluate the model in Coq on all correspondence cases
    bad, errors = RL.coq_compare(ctx, "corr", "run_rncase tb", cases, wants)
    timing["coq_corr_shipped"] = round(time.time() - t0, 1)
    t0 = time.time()
    bad2, errors2 = RL.coq_compare(ctx, "rand", "run_rcase (range_ew, range_ns)", r_cases, r_wants)
    timing["coq_corr_random"] = round(time.time() - t0, 1)
    bad3, errors3 = RL.coq_compare(ctx, "names", "run_ncase tb", e_cases, e_wants)
    ctx.extra["correspondence_cases_element_names"] = len(e_cases)
    ctx.extra["traces_validated_against_impl"] = len(cases) - len(bad) + len(r_cases) - len(bad2) + len(e_cases) - len(bad3)
    for name, out in errors3:
        ctx.fail("corr:coq-error", f"case file {name} did not evaluate",
                 {"kind": "broken-correspondence", "file": name, "output": out}, concrete=False)
    for i in bad3[:5]:
        m = e_meta[i]
        ctx.fail(f"corr:element:{m['element']}", "model (validate_node) and implementation (validate.node) disagree for a named element",
                 {"kind": "broken-correspondence", "case": m, "model": RL.coq_show(ctx, "names", "run_ncase tb", e_cases[i])}, concrete=False)
    ctx.extra["correspondence_cases"] = {"shipped": len(cases), "random": len(r_cases)}
    for name, out in errors + errors2:
        ctx.fail("corr:coq-error", f"case file {name} did not evaluate",
                 {"kind": "broken-correspondence", "file": name, "output": out}, concrete=False)
    for i in bad[:5]:
        m = meta[i]
        ctx.fail(f"corr:{m['rule']}", "model and implementation disagree on child validation of a shipped rule",
                 {"kind": "broken-correspondence", "theorem": "C01 (model/implementation correspondence)", "case": m,
                  "model": RL.coq_show(ctx, "corr", "run_rncase tb", cases[i])}, concrete=False)
    for i in bad2[:5]:
        m = r_meta[i]
        ctx.fail("corr:random-spec", "model and implementation disagree on child validation of a random spec",
                 {"kind": "broken-correspondence", "theorem": "C01 (model/implementation correspondence)", "case": m,
                  "model": RL.coq_show(ctx, "rand", "run_rcase (range_ew, range_ns)", r_cases[i])}, concrete=False)
    if not built:
        ctx.obligations_failed("every shipped rule x all child sequences up to length %d (cap %d per rule) against "
                               "brute-force membership in the declared language" % (s_len, s_cap))


def replay(ctx, data):
    """Re-run one recorded (rule, word) observation against the implementation and the statement."""
    rep = data.get("replay", {})
    rules = RL.live_rules()
    rname, w = rep.get("rule"), rep.get("word")
    MIXED_RULES = mixed_rule_names()
    if rep.get("kind") != "impl-vs-statement" or rname not in rules or w is None:
        import json
        print(json.dumps(data, indent=1))
        return run(ctx)
    rj = rules[rname]
    sp = parse_top(rj[1])
    ff, codes = impl_fresh(rname, RL.canonical_content(rj), required_attrs(rj), w)
    print(f"rule={rname} word={w} fail_fast={ff} collecting={codes} "
          f"in_L={member(sp, w, rname in MIXED_RULES, True)} in_Llen={member(sp, w, rname in MIXED_RULES, False)}")
    ctx.case((rname, tuple(w)))
    if rep.get("element"):
        el = rep["element"]
        via_rule, via_node = impl_named_parent(rname, el, RL.canonical_content(rj), required_attrs(rj), w)
        print(f"parent named '{el}': via Rule.validate_rule {via_rule}, via validate.node {via_node}; neutral parent name: {(ff, codes)}")
        for how, got in (("Rule.validate_rule", via_rule), ("validate.node", via_node)):
            if (got[0], list(got[1])) != (ff, list(codes)):
                ctx.fail(f"C01:name-dependent:{rname}:{el}", f"the verdict depends on the parent's name ({how})",
                         {"kind": "impl-vs-statement", "rule": rname, "element": el, "word": w, "via": how,
                          "observed": list(got), "with_neutral_parent_name": [ff, codes]})
    sc = before = None
    prior = rep.get("shared_list", {}).get("prior_words")
    if prior is not None:
        shared = []
        for w0 in prior:
            impl_shared(rname, RL.canonical_content(rj), required_attrs(rj), w0, shared)
        before = sorted(set((RL.entry_code(e), e[3] if len(e) > 3 and isinstance(e[3], str) else None) for e in shared), key=str)
        sc = impl_shared(rname, RL.canonical_content(rj), required_attrs(rj), w, shared)
        print(f"after validating {prior} into one list, validating {w} appended {sc}")
    reused = None
    rr = rep.get("reused_rule")
    if rr is not None:
        from metapype.eml import rule as R
        k = R.Rule(fresh(rname))
        for w0, m0 in rr.get("prior_calls") or []:
            print(f"same Rule object, {m0}, {w0}: {keeper_call(k, RL.canonical_content(rj), required_attrs(rj), w0, m0)}")
        out = keeper_call(k, RL.canonical_content(rj), required_attrs(rj), w, rr["mode"])
        print(f"same Rule object, {rr['mode']}, the word: {out}")
        reused = (rr["mode"], out)
    judge(ctx, rname, sp, rname in MIXED_RULES, w, ff, codes, shared_codes=sc, shared_before=before, reused=reused)

#!/venv/bin/python
"""Seeded-change tooling.

  seedtool.py verify <src-dir> <seed-id>   confirm a sub-agent's change independently in a scratch
                                           worktree (tests pass with it, demo fails with it and passes
                                           without it) and store it as /verif/seeded/<seed-id>/
  seedtool.py run <seed-id> [--tier quick|thorough] [--inplace]
                                           run the property's check against the change: by default in a
                                           scratch worktree through VERIF_REPO; with --inplace by applying
                                           the patch to /repo and undoing it straight afterwards
  seedtool.py runall [--tier …]            run every stored seed, print a table
Scratch worktrees live under /tmp and are removed as soon as the command is done."""
import json
import os
import shutil
import subprocess
import sys
import time

VERIF = os.path.dirname(os.path.dirname(os.path.abspath(__file__)))
SEEDED = os.path.join(VERIF, "seeded")
PY = "/venv/bin/python"


def sh(cmd, cwd=None, env=None, timeout=3600):
    e = dict(os.environ)
    if env:
        e.update(env)
    p = subprocess.run(cmd, cwd=cwd, shell=True, stdout=subprocess.PIPE, stderr=subprocess.STDOUT, text=True, env=e, timeout=timeout)
    return p.returncode, p.stdout


def worktree(tag):
    d = f"/tmp/sv-{tag}-{os.getpid()}"
    rc, out = sh(f"git -C /repo worktree add -q --detach {d} HEAD")
    assert rc == 0, out
    return d


def drop(d):
    sh(f"git -C /repo worktree remove --force {d}")
    shutil.rmtree(d, ignore_errors=True)
    sh("git -C /repo worktree prune")


def verify(src, sid):
    patch = os.path.join(src, "patch.diff")
    demo = os.path.join(src, "demo.py")
    meta = json.load(open(os.path.join(src, "meta.json")))
    d = worktree(sid)
    log = {}
    try:
        env = {"PYTHONPATH": f"{d}/src", "PYTHONHASHSEED": "0"}
        rc, out = sh(f"{PY} {demo}", cwd=d, env=env)
        log["demo_without"] = {"rc": rc, "tail": out[-300:]}
        rc, out = sh(f"git apply --whitespace=nowarn {patch}", cwd=d)
        log["apply"] = {"rc": rc, "out": out[-300:]}
        if rc != 0:
            return False, log
        rc, out = sh(f"{PY} -m pytest -q -p no:cacheprovider", cwd=d, env=env)
        log["tests_with"] = {"rc": rc, "tail": out.strip().splitlines()[-1] if out.strip() else ""}
        rc, out = sh(f"{PY} {demo}", cwd=d, env=env)
        log["demo_with"] = {"rc": rc, "tail": out[-300:]}
        rc, out = sh("git diff --stat", cwd=d)
        log["diffstat"] = out.strip()
    finally:
        drop(d)
    ok = (log["demo_without"]["rc"] == 0 and log["tests_with"]["rc"] == 0 and "passed" in log["tests_with"]["tail"]
          and "failed" not in log["tests_with"]["tail"] and log["demo_with"]["rc"] != 0)
    if ok:
        dest = os.path.join(SEEDED, sid)
        os.makedirs(dest, exist_ok=True)
        shutil.copy(patch, os.path.join(dest, "patch.diff"))
        shutil.copy(demo, os.path.join(dest, "demo.py"))
        meta["confirmed_by_coordinator"] = {
            "commands": ["git worktree add (scratch) ; demo.py -> PASS", "git apply patch.diff ; pytest -q (60 tests) -> all pass", "demo.py -> FAIL"],
            "log": log}
        json.dump(meta, open(os.path.join(dest, "meta.json"), "w"), indent=1)
    return ok, log


def run(sid, tier="quick", inplace=False):
    dest = os.path.join(SEEDED, sid)
    meta = json.load(open(os.path.join(dest, "meta.json")))
    prop = meta["property"]
    patch = os.path.join(dest, "patch.diff")
    t0 = time.time()
    if inplace:
        rc, out = sh(f"git -C /repo apply --whitespace=nowarn {patch}")
        assert rc == 0, out
        try:
            rc, out = sh(f"./check {prop} --tier {tier}", cwd=VERIF, timeout=7200)
        finally:
            sh("git -C /repo checkout -- .")
    else:
        d = worktree(sid)
        try:
            rc0, out0 = sh(f"git apply --whitespace=nowarn {patch}", cwd=d)
            assert rc0 == 0, out0
            rc, out = sh(f"./check {prop} --tier {tier}", cwd=VERIF, env={"VERIF_REPO": d}, timeout=7200)
        finally:
            drop(d)
    lines = [l for l in out.splitlines() if l.startswith("VIOLATION") or l.startswith("KNOWN-FINDING")]
    caught = rc == 1 and any(l.startswith("VIOLATION") for l in lines)
    concrete = any(l.startswith("VIOLATION") and "no-failing-input-found" not in l for l in lines)
    res = {"seed": sid, "property": prop, "tier": tier, "inplace": inplace, "exit": rc, "caught": caught,
           "concrete_replay": concrete, "lines": lines[:6], "wall_s": round(time.time() - t0, 1), "tail": out[-600:]}
    return res


def main():
    a = sys.argv[1:]
    if a[0] == "verify":
        ok, log = verify(a[1], a[2])
        print(json.dumps({"ok": ok, "log": log}, indent=1))
        return 0 if ok else 1
    tier = "quick"
    if "--tier" in a:
        tier = a[a.index("--tier") + 1]
    inplace = "--inplace" in a
    if a[0] == "run":
        r = run(a[1], tier, inplace)
        print(json.dumps(r, indent=1))
        json.dump(r, open(os.path.join(SEEDED, a[1], f"result_{tier}.json"), "w"), indent=1)
        return 0
    if a[0] == "runall":
        rows = []
        for sid in sorted(os.listdir(SEEDED)):
            if not os.path.exists(os.path.join(SEEDED, sid, "patch.diff")):
                continue
            r = run(sid, tier, inplace)
            json.dump(r, open(os.path.join(SEEDED, sid, f"result_{tier}.json"), "w"), indent=1)
            rows.append(r)
            print(f"{sid:8s} {r['property']} caught={r['caught']} concrete={r['concrete_replay']} exit={r['exit']} {r['wall_s']}s")
        return 0


if __name__ == "__main__":
    sys.exit(main())

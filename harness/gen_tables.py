#!/usr/bin/env python3
"""Translator (A): /repo working tree -> coq/theories/Gen/Tables.v

Everything in the repository that is *data* is re-translated on every run:
rules.json, node_mappings (+ RULE_* / names.* constants), the mixed-content
rule tuple, the content-rule dispatch chain, the ValidationError /
EvaluationWarning members and the members actually referenced, the exception
class hierarchy, the evaluate dispatch dict, and a few numeric constants.

Fail-closed: any shape that is not recognised raises TranslateError, which the
check reports as a broken tie.  Uses only json + ast (never imports /repo code).
"""
import ast
import json
import os
import re
import sys

REPO = os.environ.get("VERIF_REPO", "/repo")
SRC = os.path.join(REPO, "src", "metapype")


class TranslateError(Exception):
    pass


def need(cond, why):
    if not cond:
        raise TranslateError(why)


# ---------------------------------------------------------------- Coq emitters
_SAFE = re.compile(r"^[A-Za-z0-9_:./ #=\-]*$")


def cstr(x: str) -> str:
    """Coq term of type pystr for a Python str."""
    need(isinstance(x, str), f"expected str, got {type(x).__name__}")
    if _SAFE.match(x):
        return f'(s "{x}")'
    return "[" + "; ".join(str(ord(c)) for c in x) + "]%N"


def clist(items) -> str:
    items = list(items)
    return "[" + "; ".join(items) + "]"


def cbool(b) -> str:
    return "true" if b else "false"


def crj(v) -> str:
    if isinstance(v, bool):
        return f"RBool {cbool(v)}"
    if v is None:
        return "RNull"
    if isinstance(v, int):
        return f"RInt ({v})%Z"
    if isinstance(v, str):
        return f"RStr {cstr(v)}"
    if isinstance(v, list):
        return "RList " + clist(crj(x) for x in v)
    raise TranslateError(f"rules.json: unsupported JSON value {v!r}")


# ---------------------------------------------------------------- rules.json
def load_rules_json():
    p = os.path.join(SRC, "eml", "rules.json")
    with open(p, encoding="utf-8") as f:
        data = json.load(f, object_pairs_hook=list)  # keep order, see duplicates
    need(isinstance(data, list), "rules.json: top level is not an object")
    out = []
    seen = set()
    for name, body in data:
        need(name not in seen, f"rules.json: duplicate rule {name}")
        seen.add(name)
        out.append((name, body))
    return out


def emit_rule(name, body):
    need(isinstance(body, list) and not any(isinstance(p, tuple) for p in body),
         f"rule {name}: body is not a list")
    # json objects arrive as lists of pairs (object_pairs_hook=list)
    need(len(body) == 3, f"rule {name}: expected [attributes, children, content]")
    attrs, children, content = body
    need(isinstance(attrs, list) and all(isinstance(p, tuple) for p in attrs),
         f"rule {name}: attributes is not an object")
    need(isinstance(content, list) and all(isinstance(p, tuple) for p in content) and content,
         f"rule {name}: content is not a non-empty object")
    need(isinstance(children, list) and not any(isinstance(p, tuple) for p in children),
         f"rule {name}: children is not a list")
    akeys = [k for k, _ in attrs]
    need(len(set(akeys)) == len(akeys), f"rule {name}: duplicate attribute key")
    aout = []
    for k, v in attrs:
        need(isinstance(v, list) and not any(isinstance(p, tuple) for p in v),
             f"rule {name}: attribute {k} spec is not a list")
        aout.append(f"({cstr(k)}, {clist(crj(x) for x in v)})")
    cd = dict(content)
    need(len(cd) == len(content), f"rule {name}: duplicate content key")
    need(set(cd) <= {"content_rules", "content_enum"}, f"rule {name}: unknown content keys {set(cd)}")
    need("content_rules" in cd, f"rule {name}: no content_rules")
    cr = cd["content_rules"]
    need(isinstance(cr, list) and all(isinstance(x, str) for x in cr), f"rule {name}: content_rules not a list of strings")
    if "content_enum" in cd:
        ce = cd["content_enum"]
        need(isinstance(ce, list) and all(isinstance(x, str) for x in ce), f"rule {name}: content_enum not a list of strings")
        enum = "Some " + clist(cstr(x) for x in ce)
    else:
        enum = "None"

    def chk(v):
        if isinstance(v, list):
            need(not any(isinstance(p, tuple) for p in v), f"rule {name}: object inside children")
            for x in v:
                chk(x)
        else:
            need(v is None or isinstance(v, (int, str)), f"rule {name}: bad children atom {v!r}")
    chk(children)
    return (f"  ({cstr(name)},\n"
            f"   {{| rr_attrs := {clist(aout)};\n"
            f"      rr_children := {clist(crj(x) for x in children)};\n"
            f"      rr_content_rules := {clist(cstr(x) for x in cr)};\n"
            f"      rr_content_enum := {enum} |}})")


# ---------------------------------------------------------------- python ASTs
def parse_py(rel):
    p = os.path.join(SRC, rel)
    with open(p, encoding="utf-8") as f:
        return ast.parse(f.read(), filename=p)


def module_str_constants(tree, fname):
    """Top-level NAME = "literal" (also parenthesised) assignments."""
    out = {}
    for st in tree.body:
        if isinstance(st, ast.Assign) and len(st.targets) == 1 and isinstance(st.targets[0], ast.Name):
            v = st.value
            if isinstance(v, ast.Constant) and isinstance(v.value, str):
                out[st.targets[0].id] = v.value
    return out


def enum_members(tree, clsname, fname):
    for st in tree.body:
        if isinstance(st, ast.ClassDef) and st.name == clsname:
            mem = []
            for b in st.body:
                if isinstance(b, ast.Assign) and len(b.targets) == 1 and isinstance(b.targets[0], ast.Name):
                    mem.append(b.targets[0].id)
                elif isinstance(b, (ast.Expr, ast.Pass)):
                    continue
                else:
                    raise TranslateError(f"{fname}: unexpected statement in enum {clsname}")
            need(len(set(mem)) == len(mem), f"{fname}: duplicate member in {clsname}")
            return mem
    raise TranslateError(f"{fname}: class {clsname} not found")


def attr_refs(tree, base):
    """All X in `base.X` attribute references."""
    out = []
    for n in ast.walk(tree):
        if isinstance(n, ast.Attribute) and isinstance(n.value, ast.Name) and n.value.id == base:
            if n.attr not in out:
                out.append(n.attr)
    return sorted(out)


def find_func(tree, qual):
    """qual = 'Class.func' or 'func'."""
    parts = qual.split(".")
    body = tree.body
    node = None
    for p in parts:
        node = None
        for st in body:
            if isinstance(st, (ast.FunctionDef, ast.ClassDef)) and st.name == p:
                node = st
                break
        need(node is not None, f"{qual}: not found")
        body = node.body
    return node


def translate():
    out = []
    w = out.append
    w("(* GENERATED by harness/gen_tables.py from /repo's working tree. Do not edit. *)")
    w("From MP Require Import Common.Base.")
    w("")
    w("")
    # ---- rules.json
    rules = load_rules_json()
    w("Definition rules : list (pystr * rule_raw) := [")
    w(";\n".join(emit_rule(n, b) for n, b in rules))
    w("].")
    w("")
    # ---- names.py constants
    names_t = parse_py("eml/names.py")
    names_c = module_str_constants(names_t, "names.py")
    need(len(names_c) > 100, "names.py: too few constants recognised")
    # ---- rule.py
    rule_t = parse_py("eml/rule.py")
    rule_c = module_str_constants(rule_t, "rule.py")

    def resolve(expr, where):
        if isinstance(expr, ast.Constant) and isinstance(expr.value, str):
            return expr.value
        if isinstance(expr, ast.Attribute) and isinstance(expr.value, ast.Name) and expr.value.id == "names":
            need(expr.attr in names_c, f"{where}: names.{expr.attr} is not a string constant of names.py")
            return names_c[expr.attr]
        if isinstance(expr, ast.Name):
            need(expr.id in rule_c, f"{where}: {expr.id} is not a string constant of rule.py")
            return rule_c[expr.id]
        raise TranslateError(f"{where}: unsupported expression {ast.dump(expr)[:80]}")

    nm = None
    for st in rule_t.body:
        if isinstance(st, ast.Assign) and len(st.targets) == 1 and isinstance(st.targets[0], ast.Name) \
                and st.targets[0].id == "node_mappings":
            nm = st.value
    need(isinstance(nm, ast.Dict), "rule.py: node_mappings dict literal not found")
    pairs = []
    for k, v in zip(nm.keys, nm.values):
        need(k is not None, "rule.py: node_mappings uses ** expansion")
        pairs.append((resolve(k, "node_mappings key"), resolve(v, "node_mappings value")))
    # Python dict literal semantics: later duplicates overwrite earlier ones, position of first kept
    merged = {}
    for k, v in pairs:
        merged[k] = v
    w("Definition node_map : list (pystr * pystr) := [")
    w(";\n".join(f"  ({cstr(k)}, {cstr(v)})" for k, v in merged.items()))
    w("].")
    w("")
    # names.py constants as a table (for C10/C19 cross references)
    w("Definition name_consts : list (pystr * pystr) := [")
    w(";\n".join(f"  ({cstr(k)}, {cstr(v)})" for k, v in names_c.items()))
    w("].")
    w("")
    # ---- mixed-content tuple in validate_rule
    vr = find_func(rule_t, "Rule.validate_rule")
    mixed = None
    for n in ast.walk(vr):
        if isinstance(n, ast.Compare) and len(n.ops) == 1 and isinstance(n.ops[0], ast.In) \
                and isinstance(n.comparators[0], ast.Tuple):
            mixed = [resolve(e, "validate_rule mixed tuple") for e in n.comparators[0].elts]
    need(mixed is not None, "rule.py: mixed-content tuple in validate_rule not found")
    w(f"Definition mixed_rules : list pystr := {clist(cstr(x) for x in mixed)}.")
    w("")
    # ---- content-rule dispatch chain of _validate_content
    vc = find_func(rule_t, "Rule._validate_content")
    loop = [st for st in vc.body if isinstance(st, ast.For)]
    need(len(loop) == 1, "rule.py: _validate_content: expected exactly one for loop")
    chain = []
    cur = loop[0].body
    need(len(cur) == 1 and isinstance(cur[0], ast.If), "rule.py: _validate_content: loop body is not a single if chain")
    node = cur[0]
    while True:
        t = node.test
        need(isinstance(t, ast.Compare) and len(t.ops) == 1 and isinstance(t.ops[0], ast.Eq)
             and isinstance(t.left, ast.Name) and isinstance(t.comparators[0], ast.Constant)
             and isinstance(t.comparators[0].value, str),
             "rule.py: _validate_content: unexpected test in dispatch chain")
        cname = t.comparators[0].value
        need(len(node.body) == 1, f"rule.py: _validate_content: arm {cname} has more than one statement")
        b = node.body[0]
        if isinstance(b, ast.Pass):
            target = "pass"
        else:
            need(isinstance(b, ast.Expr) and isinstance(b.value, ast.Call)
                 and isinstance(b.value.func, ast.Attribute), f"rule.py: _validate_content: arm {cname} is not a call")
            target = b.value.func.attr
        chain.append((cname, target))
        if len(node.orelse) == 1 and isinstance(node.orelse[0], ast.If):
            node = node.orelse[0]
        else:
            break
    w("Definition content_dispatch : list (pystr * pystr) := [")
    w(";\n".join(f"  ({cstr(k)}, {cstr(v)})" for k, v in chain))
    w("].")
    w("")
    # ---- float range constants
    ranges = {}
    for fn in ("_validate_float_range_ew_content", "_validate_float_range_ns_content"):
        f = find_func(rule_t, "Rule." + fn)
        tup = [n for n in ast.walk(f) if isinstance(n, ast.Tuple)]
        need(len(tup) == 1 and len(tup[0].elts) == 2, f"rule.py: {fn}: range tuple not found")
        vals = []
        for e in tup[0].elts:
            try:
                v = ast.literal_eval(e)
            except Exception:
                raise TranslateError(f"rule.py: {fn}: non-literal bound")
            need(isinstance(v, (int, float)) and float(v) == int(v), f"rule.py: {fn}: non-integral bound {v}")
            vals.append(int(v))
        ranges[fn] = vals
    w(f"Definition range_ew : Z * Z := (({ranges['_validate_float_range_ew_content'][0]})%Z, ({ranges['_validate_float_range_ew_content'][1]})%Z).")
    w(f"Definition range_ns : Z * Z := (({ranges['_validate_float_range_ns_content'][0]})%Z, ({ranges['_validate_float_range_ns_content'][1]})%Z).")
    w("")
    # ---- enums
    verr_t = parse_py("eml/validation_errors.py")
    verr = enum_members(verr_t, "ValidationError", "validation_errors.py")
    warn_t = parse_py("eml/evaluation_warnings.py")
    warn = enum_members(warn_t, "EvaluationWarning", "evaluation_warnings.py")
    validate_t = parse_py("eml/validate.py")
    evaluate_t = parse_py("eml/evaluate.py")
    verr_used = sorted(set(attr_refs(rule_t, "ValidationError")) | set(attr_refs(validate_t, "ValidationError")))
    warn_used = attr_refs(evaluate_t, "EvaluationWarning")
    w(f"Definition verr_codes : list pystr := {clist(cstr(x) for x in verr)}.")
    w(f"Definition verr_used : list pystr := {clist(cstr(x) for x in verr_used)}.")
    w(f"Definition warn_codes : list pystr := {clist(cstr(x) for x in warn)}.")
    w(f"Definition warn_used : list pystr := {clist(cstr(x) for x in warn_used)}.")
    w("")
    # ---- exception hierarchy
    exc_t = parse_py("eml/exceptions.py")
    par = []
    for st in exc_t.body:
        if isinstance(st, ast.ClassDef):
            need(len(st.bases) == 1 and isinstance(st.bases[0], ast.Name), f"exceptions.py: class {st.name}: expected one plain base")
            par.append((st.name, st.bases[0].id))
    w("Definition exn_parent : list (pystr * pystr) := [")
    w(";\n".join(f"  ({cstr(k)}, {cstr(v)})" for k, v in par))
    w("].")
    w("")
    # ---- evaluate dispatch
    ed = None
    for st in evaluate_t.body:
        if isinstance(st, ast.Assign) and len(st.targets) == 1 and isinstance(st.targets[0], ast.Name) \
                and st.targets[0].id == "rules":
            ed = st.value
    need(isinstance(ed, ast.Dict), "evaluate.py: rules dispatch dict not found")
    disp = []
    for k, v in zip(ed.keys, ed.values):
        need(k is not None and isinstance(v, ast.Name), "evaluate.py: rules dict: unexpected entry")
        disp.append((resolve(k, "evaluate.rules key"), v.id))
    w("Definition eval_dispatch : list (pystr * pystr) := [")
    w(";\n".join(f"  ({cstr(k)}, {cstr(v)})" for k, v in disp))
    w("].")
    w("")
    return "\n".join(out) + "\n"


def main():
    dest = sys.argv[1] if len(sys.argv) > 1 else os.path.join(os.path.dirname(os.path.abspath(__file__)), "..", "coq", "theories", "Gen", "Tables.v")
    try:
        text = translate()
    except TranslateError as e:
        print(f"TRANSLATE-ERROR: {e}")
        return 2
    old = None
    if os.path.exists(dest):
        with open(dest, encoding="utf-8") as f:
            old = f.read()
    if old != text:
        os.makedirs(os.path.dirname(dest), exist_ok=True)
        with open(dest, "w", encoding="utf-8") as f:
            f.write(text)
        print("tables: regenerated")
    else:
        print("tables: unchanged")
    return 0


if __name__ == "__main__":
    sys.exit(main())

"""C05 — whole-tree validation is the conjunction of node validations; metadata is opaque.

(P) proof cone (Properties/C05.v: structural induction over rose trees, any tables);
(S) the statement executed directly on the implementation: validate.tree(root, errs) must
    equal the concatenation, in document order, of validate.node(n, errs_n) over a
    HARNESS-side pre-order walk that stops below metadata elements; fail-fast must raise
    exactly what the first failing node raises; editing anything below a metadata element
    (keeping whether it has 0, 1 or more children) must not change the outcome;
(H) statelessness (an assumption of the theorems: the model is a pure function of the tree): the SAME tree
    object is validated repeatedly - collect, collect again, fail-fast, into a list that already holds another
    node's entries, after in-place edits and after undoing them - and every result must equal the result on a
    freshly built identical tree;
(B) model-vs-implementation correspondence on whole trees (<= 40 nodes) inside Coq."""
import copy

from harness import rulelib as RL
from harness import vtrees as VT


def node_paths(root):
    out = {}

    def go(n, p):
        out[id(n)] = p
        for i, c in enumerate(n.children):
            go(c, p + (i,))
    go(root, ())
    return out


def visible_nodes(n):
    yield n
    if n.name != "metadata":
        for c in n.children:
            yield from visible_nodes(c)


def canon_entry(e, paths):
    try:
        return [e[0].name, e[1], list(paths.get(id(e[2]), ("?",))), repr(e[3:])]
    except Exception:  # noqa
        return ["MALFORMED-ENTRY", repr(e)]


def observe(fn, paths):
    """(ff, collected) of a validation function taking errs-or-None."""
    from metapype.eml.exceptions import MetapypeRuleError
    try:
        VT.with_limit(lambda: fn(None))
        ff = ["OK", ""]
    except Exception as ex:  # noqa
        ff = [("" if isinstance(ex, MetapypeRuleError) else "CRASH:") + type(ex).__name__, str(ex)]
    errs = []
    try:
        VT.with_limit(lambda: fn(errs))
        col = [canon_entry(e, paths) for e in errs]
    except Exception as ex:  # noqa
        col = [canon_entry(e, paths) for e in errs[:200]] + [["RAISED:" + type(ex).__name__, str(ex)]]
    return ff, col


def tree_vs_nodes(t):
    """Returns (tree observation, expected observation from per-node validation)."""
    from metapype.eml import validate
    from metapype.model.node import Node
    root = VT.build_tree(t)
    paths = node_paths(root)
    got = observe(lambda errs: validate.tree(root, errs), paths)
    exp_ff, exp_col = ["OK", ""], []
    n_fail = 0
    for n in visible_nodes(root):
        ff_n, col_n = observe(lambda errs, n=n: validate.node(n, errs), paths)
        if ff_n[0] != "OK":
            n_fail += 1
            if exp_ff[0] == "OK":
                exp_ff = ff_n
        exp_col += col_n
    Node.store.clear()
    return got, (exp_ff, exp_col), n_fail


def metadata_nodes(t):
    return [(p, n) for p, n in VT.visible(t) if n[0] == "metadata"]


def edit_below_metadata(rng, t):
    """Change things below metadata elements, keeping for each whether it has 0, 1 or >1 children."""
    t2 = copy.deepcopy(t)
    mds = metadata_nodes(t2)
    changed = False
    for _, md in mds:
        kids = md[3]
        if not kids:
            continue
        changed = True
        k = rng.random()
        if k < 0.35:
            kids[rng.randrange(len(kids))] = VT.foreign_subtree(rng)
        elif k < 0.7:
            sub = rng.choice(kids)
            VT.mutate(rng, sub, n_ops=rng.randrange(1, 4))
        elif len(kids) >= 2:
            # any number of children >= 2 is the same class
            if rng.random() < 0.5:
                kids.append(VT.foreign_subtree(rng))
            elif len(kids) > 2:
                del kids[rng.randrange(len(kids))]
            rng.shuffle(kids)
        else:
            kids[0] = ["metadata", rng.choice(VT.CONTENT_POOL[:12]), [["zz", "1"]], [VT.foreign_subtree(rng), VT.foreign_subtree(rng)]]
    return t2, changed


def add_foreign_metadata(rng, t):
    """Put foreign subtrees under metadata elements, and foreign additionalMetadata/metadata under eml roots."""
    for _, md in metadata_nodes(t):
        if rng.random() < 0.7:
            md[3][:] = [VT.foreign_subtree(rng) for _ in range(rng.choice([1, 1, 1, 2, 3]))]
    if t[0] == "eml" and rng.random() < 0.7:
        t[3].append(["additionalMetadata", None, [], [["metadata", None, [], [VT.foreign_subtree(rng) for _ in range(rng.choice([0, 1, 1, 2]))]]]])


def run(ctx):
    built = ctx.build(extra_targets=["theories/Model/RuleRun.v", "theories/Properties/Valid.v"])
    rng = ctx.rng
    thorough = ctx.tier == "thorough"
    big = VT.eml_tree()
    small = VT.small_valid_trees(40)
    docs = [t for t in small if t[0] in ("eml", "additionalMetadata")] or small
    n_big = 150 if thorough else 30
    n_small = 1500 if thorough else 260
    n_coq = 600 if thorough else 150
    ctx.extra["rule"] = ("trees = tests/data/eml.xml (282 nodes) and its valid subtrees of 2..40 nodes plus two hand-made documents; foreign subtrees "
                         "placed under metadata elements; k in 0..4 seeded adversarial edits (drop/duplicate/swap/rename/content/attribute/graft) at random "
                         "nodes of different depths; each tree: validate.tree vs concatenation of validate.node over the harness-side visible pre-order, "
                         "both modes; then an edit below metadata and the outcome compared; non-trivial = distinct tree with at least one failing node or "
                         "at least one metadata element")
    coq_cases, coq_wants, coq_meta = [], [], []
    plan = [(big, True)] * n_big + [(None, False)] * n_small
    # two independent problems in document order (every error kind first, a children problem second, and other orders);
    # nodes with more than 256 children / attributes
    pairs = VT.problem_pairs(rng, thorough)
    plan += [(pt, "pair:" + lbl) for lbl, pt in rng.sample(pairs, min(len(pairs), 2500 if thorough else 500))]
    plan += [(wt, lbl) for lbl, wt in VT.wide_trees(rng)]
    for base, is_big in plan:
        if isinstance(is_big, str):
            t, ops = copy.deepcopy(base), [is_big]
        else:
            t = copy.deepcopy(base) if is_big else copy.deepcopy(rng.choice(docs if rng.random() < 0.4 else small))
            add_foreign_metadata(rng, t)
            k = rng.choice([0, 1, 1, 2, 2, 3, 4])
            ops = VT.mutate(rng, t, n_ops=k, avoid_below_metadata=rng.random() < 0.7) if k else []
        got, exp, n_fail = tree_vs_nodes(t)
        mds = metadata_nodes(t)
        sig = repr(t)
        ctx.case(sig, n_fail > 0 or bool(mds))
        ctx.count("failing_nodes=%d" % min(n_fail, 5))
        ctx.count("metadata_elements=%d" % min(len(mds), 3))
        ctx.count("size<=40" if VT.size(t) <= 40 else "size>40")
        rep = {"kind": "impl-vs-statement", "tree": t, "edits": ops}
        if got[1] != exp[1]:
            ctx.fail("C05:collect-concat", "validate.tree's error list is not the concatenation of the per-node lists over the visible pre-order",
                     dict(rep, observed=got[1], expected=exp[1]))
        if got[0] != exp[0]:
            ctx.fail("C05:failfast-first", "fail-fast validate.tree did not raise what the first failing visible node raises",
                     dict(rep, observed=got[0], expected=exp[0]))
        # every implementation run also passes through the totality statement (C04): nothing but rule errors escapes
        if got[0][0].startswith("CRASH:") or any(e[0].startswith(("RAISED:", "MALFORMED-ENTRY")) for e in got[1]):
            ctx.fail("C05:foreign-exception", f"validate.tree let a non-rule exception escape or raised in collecting mode: ff={got[0]} last={got[1][-1:]}",
                     dict(rep, observed_ff=got[0], observed=got[1]))
        if (got[0][0] == "OK") != (got[1] == []):
            ctx.fail("C05:modes", "validate.tree succeeded in one mode and not in the other", dict(rep, observed_ff=got[0], observed=got[1]))
        ctx.sample({"size": VT.size(t), "edits": ops, "failing_visible_nodes": n_fail, "metadata_elements": len(mds),
                    "ff": got[0][0], "codes": [e[0] for e in got[1]][:6]}, limit=6)
        # history: the same tree object validated repeatedly (collect, collect again, fail-fast, into a non-empty
        # list, after in-place edits and after undoing them) must give what a freshly built identical tree gives
        for call in (("tree", "node") if not isinstance(is_big, str) or rng.random() < 0.1 else ()):
            for step, what, details in VT.history_problems(rng, t, call=call, n_edits=1 if VT.size(t) > 40 else 2):
                ctx.fail("C05:history:" + call + ":" + step.split("/")[-1], what, details)
            ctx.case()
            ctx.count("history_sequences")
        # opacity: edit below metadata
        if mds:
            t2, changed = edit_below_metadata(rng, t)
            if changed:
                got2, _, _ = tree_vs_nodes(t2)
                ctx.case(("opaque", sig, repr(t2)))
                ctx.count("opacity_pairs")
                if got2 != got:
                    ctx.fail("C05:opaque", "editing below a metadata element changed the outcome of validate.tree",
                             {"kind": "impl-vs-statement", "tree": t, "tree_edited_below_metadata": t2, "observed": got, "observed_after_edit": got2})
            # the only thing seen of a metadata element's children: more than one -> exactly one MAX_OCCURRENCE_EXCEEDED at that element
            p, md = mds[0]
            if len(md[3]) <= 1:
                t3 = copy.deepcopy(t)
                VT.at(t3, p)[3].extend(VT.foreign_subtree(rng) for _ in range(2))
                got3, _, _ = tree_vs_nodes(t3)
                ctx.case(("count", sig))
                extra = [e for e in got3[1] if e not in got[1]]
                if [e[0] for e in extra] != ["MAX_OCCURRENCE_EXCEEDED"] or extra[0][2] != list(p) or len(got3[1]) != len(got[1]) + 1:
                    ctx.fail("C05:metadata-count", "giving a metadata element more than one child did not add exactly one MAX_OCCURRENCE_EXCEEDED at it",
                             {"kind": "impl-vs-statement", "tree": t, "tree_with_more_children": t3, "observed": got[1], "observed_after": got3[1]})
        if VT.size(t) <= 40 and len(coq_cases) < n_coq:
            ff, codes = RL.impl_tree(VT.fresh_tree(t))
            if ff.startswith("CRASH") or any(c.startswith("CRASH") or c == "MALFORMED-ENTRY" for c in codes):
                ctx.fail("C05:foreign-exception", f"validate.tree let a non-rule exception escape: ff={ff} codes={codes}",
                         {"kind": "impl-vs-statement", "tree": t, "edits": ops, "observed_ff": ff, "observed_codes": codes})
            coq_cases.append(RL.coq_tcase(t))
            coq_wants.append(RL.coq_outcome((ff, codes)))
            coq_meta.append({"tree": t, "observed": [ff, codes]})
    bad, errors = RL.coq_compare(ctx, "corr", "run_tcase tb", coq_cases, coq_wants, shard=50)
    ctx.extra["traces_validated_against_impl"] = len(coq_cases) - len(bad) if not errors else 0
    for name, out in errors:
        ctx.fail("corr:coq-error", f"case file {name} did not evaluate", {"kind": "broken-correspondence", "file": name, "output": out}, concrete=False)
    for i in bad[:3]:
        ctx.fail("corr:tree", "model and implementation disagree on a whole tree",
                 {"kind": "broken-correspondence", "theorem": "C05 (model/implementation correspondence)", "case": coq_meta[i],
                  "model": RL.coq_show(ctx, "corr", "run_tcase tb", coq_cases[i])}, concrete=False)
    changed = VT.table_diff()
    if changed:
        ctx.fail("C05:history:table-mutated", f"validation changed the live rule table (differs from rules.json): {changed[:5]}",
                 {"kind": "impl-vs-statement", "rules_changed": changed})
    if not built:
        ctx.obligations_failed("compared validate.tree with per-node validation over the visible pre-order on mutated EML trees")


def replay(ctx, data):
    import json
    r = data.get("replay", {})
    if r.get("kind") != "impl-vs-statement" or "tree" not in r:
        print(json.dumps(data, indent=1)[:4000])
        return run(ctx)
    if "history" in r:
        import random
        call = r.get("call", "validate.tree").split(".")[-1]
        found = []
        for k in range(20):
            found = VT.history_problems(random.Random(k), r["tree"], call=call)
            if found:
                break
        print(f"history replay of validate.{call}: {'still differs: ' + found[0][1] if found else 'same objects and fresh tree agree'}")
        ctx.case()
        for step, what, details in found[:1]:
            ctx.fail(data.get("key", "C05:history"), what, details)
        return
    got, exp, n_fail = tree_vs_nodes(r["tree"])
    print(f"validate.tree: ff={got[0]} entries={len(got[1])}; per-node concatenation: ff={exp[0]} entries={len(exp[1])}; failing visible nodes={n_fail}")
    ctx.case()
    if got[1] != exp[1]:
        ctx.fail("C05:collect-concat", "validate.tree's error list is not the concatenation of the per-node lists over the visible pre-order", dict(r, observed=got[1], expected=exp[1]))
    if got[0] != exp[0]:
        ctx.fail("C05:failfast-first", "fail-fast validate.tree did not raise what the first failing visible node raises", dict(r, observed=got[0], expected=exp[0]))
    for k in ("tree_edited_below_metadata",):
        if k in r:
            got2, _, _ = tree_vs_nodes(r[k])
            if got2 != got:
                ctx.fail("C05:opaque", "editing below a metadata element changed the outcome of validate.tree", dict(r, observed=got, observed_after_edit=got2))
